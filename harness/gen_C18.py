"""C18 -- PDE models solve the discretised equations given and observe them consistently.

Correspondence: cuqi.pde.SteadyStateLinearPDE / TimeDependentLinearPDE / cuqi.model.PDEModel (and the PDE test problems
Poisson1D, Heat1D as users of them) vs Model/C18_PDE.v.
  * PDE forms are affine families with small dyadic data (operator, source and initial condition depending on the
    parameter and on time), so forward Euler and the stand-in solver are EXACT in binary64; the real solvers
    (scipy.linalg.solve by default, user solvers with extra return values) enter the model as the table of the calls
    they answered (their law A x = b is checked in Coq on every entry), scipy's interpolation as the table of the call it
    answered (node-exactness checked); the branch taken (restriction vs interpolation) is compared (DECISION).
  * independent oracle (this file, plain Python/Fractions + an own B-spline interpolation): residuals of the documented
    Euler recurrences / of the assembled steady system, restriction at coinciding nodes and times, interpolation
    otherwise, observation map, squeeze; PDEModel.forward against a fresh object driven by hand; gradient dispatch.
"""
import json, math, itertools
from fractions import Fraction as Fr
import numpy as np
import scipy, scipy.linalg, scipy.interpolate, scipy.sparse, scipy.sparse.linalg
from common import *

SHARD_SIZE = 130      # the spline cases do an exact Gauss-Jordan each: smaller shards balance the 16 cores (common.run_shards)

IMPORTS = ("From CV Require Import Base.Cmp Base.QcLin Model.C18_PDE.\n"
           "From Coq Require Import QArith Qcanon ZArith.")
RULE = ("PDE instances with <=6 nodes and <=6 time levels (quick) / <=7 (thorough): every (method x time grid kind x solver kind "
        "x grid_obs relation x time_obs form x observation map) cell of the lattice below gets cases; plus grid SCALE 2^-40..2^20 x grid "
        "PERTURBATION (relative 2^-10/-20/-30, absolute 2^-30/-40, same values in another array / dtype) x time-of-observation perturbation "
        "(T - span*2^-20/-31/-40, time scales 2^-30..2^10) on exactly polynomial discrete solutions (branch = DECISION vs exact grid equality, "
        "values vs the exact polynomial, purely relative 1e-10); VALUE scale 2^-60..2^60 of source/initial condition (all tolerances purely "
        "relative to the largest expected entry); declaration styles (csr/csc/dia sparse operators with scipy.linalg.solve / spsolve / cg returning "
        "(x, info); scalar and one-element sources; PDE forms writing into persistent buffers; solvers overwriting their inputs or returning one "
        "reused buffer; one input array overwritten in place between forward calls; histories of nearly identical parameters; keep-alive re-read "
        "of every earlier output and input); DTYPE of operator / source / initial condition / parameter / grids / time steps (int64, int32, bool, float32, float64, Python list, "
        "complex with zero imaginary part; one at a time and all together; the initial condition being the parameter object itself; result dtype of the "
        "stored levels = DECISION: floating whenever the recurrence leaves the integers); genuinely complex problems through the real embedding; observe() alone on exactly bicubic data; the assumed laws of scipy's interpolants "
        "checked on scipy itself; memory layouts (Fortran, strided, negative strides, read-only), np.matrix and LinearOperator operators; omitted optional "
        "arguments, call styles, re-assigned attributes and swapped PDE objects; falsy-but-legitimate values; operators without nice structure; threshold "
        "sizes (1-4 nodes / levels); observation nodes in any order; Jacobians of every shape; round-4 lesson families (refusals in every life-cycle state; gradient with reused argument arrays and instance-attribute "
        "callables; Samples / CUQIarray inputs incl. one column; exact zeros inside data; Fortran / work-buffer observation maps, strided and namedtuple solver "
        "answers, np.str_ time_obs; integer solution arrays; a direct PDE subclass; two models around one PDE; grid offset 2^24 / time offset 2^20; the shipped "
        "defaults of Heat1D / Poisson1D); solutions with two space axes; KL / KL_Full / CustomKL / Step / mapped fields of the test problems; values inside cells are "
        "seeded. distinct = distinct (configuration, parameter, API path); trivial = single-level time grids and refused "
        "constructors")

SIG_CASE = "TimeDependentLinearPDE.solve|method:case-variant-accepted-then-UnboundLocalError"
SIG_SINGLE = "TimeDependentLinearPDE.solve|backward_euler:single-time-level-UnboundLocalError"
SIG_TOBS = "TimeDependentLinearPDE.observe|time_obs:all-equal-final-broadcast"
SIG_SPL = "TimeDependentLinearPDE.observe|coinciding-nodes-and-times:spline-route-raises"
SIG_CPLX = "TimeDependentLinearPDE.solve|complex-data:imaginary-part-discarded"
SIG_SPL2 = "TimeDependentLinearPDE.observe|coinciding-subgrid-nodes:spline-route-raises"
SIG_2DSQ = "TimeDependentLinearPDE.observe|final-time:two-space-axes:squeeze-axis-raises"

REAL_SOLVE = scipy.linalg.solve
REAL_RBS = scipy.interpolate.RectBivariateSpline
REAL_INTERP1D = scipy.interpolate.interp1d

ERRMAP = {"ValueError": "EValue", "IndexError": "EIndex", "UnboundLocalError": "EUnbound", "Exception": "ENotAssembled",
          "AttributeError": "EAttr", "NotImplementedError": "ENotImpl", "TypeError": "EType"}


def ecode(name):
    return ERRMAP.get(name, "EOther")


# ------------------------------------------------------------------------------------------------
# Coq encoders
# ------------------------------------------------------------------------------------------------
def qcs(x):
    return "(qc %s)" % cq(x)


def realpart_exact(v):
    """complex data with zero imaginary part -> the real array (anything else is a harness error)"""
    v = np.asarray(v)
    if np.iscomplexobj(v):
        assert not np.any(v.imag), "genuinely complex data handed to a real encoder"
        v = v.real
    return np.asarray(v, dtype=float)


def qcv(v):
    return "(qvec %s)" % cqvec([float(x) for x in np.ravel(realpart_exact(v))])


def qcm(m):
    m = realpart_exact(m)
    if m.ndim != 2:
        m = m.reshape(len(m), -1) if m.ndim > 2 else np.atleast_2d(m)
    return "(qmat %s)" % cqmat([[float(x) for x in r] for r in m])


def qcols(u):
    """time levels (columns of the (n, nt) array) as a list of vectors"""
    u = np.atleast_2d(np.asarray(u, dtype=float))
    return clist([qcv(u[:, k]) for k in range(u.shape[1])])


def cgrid(g):
    return "None" if g is None else "(Some %s)" % qcv(g)


def carr(a):
    a = np.asarray(a, dtype=float)
    if a.ndim == 0:
        return "(A0 %s)" % qcs(float(a))
    if a.ndim == 1:
        return "(A1 %s)" % qcv(a)
    if a.ndim == 2:
        return "(A2 %s)" % qcm(a)
    raise ValueError("rank %d" % a.ndim)


def cres(r, enc):
    """r = ('ok', value) | ('err', exception class name)"""
    return "(Ok %s)" % enc(r[1]) if r[0] == "ok" else "(Er %s)" % ecode(r[1])


def cinfo(i):
    return "None" if i is None else "(Some %s)" % clist([cz(v) for v in i])


def ctol(t):
    return {"0": "0%Q", "9": "tol9", "12": "tol12"}[t]


def cmethod(m):
    return {"forward_euler": "MFwd", "backward_euler": "MBwd"}.get(
        m, "MCaseFwd" if m.lower() == "forward_euler" else "MCaseBwd" if m.lower() == "backward_euler" else "MBad")


def ctobs(t):
    if t is None:
        return "TONone"
    if isinstance(t, str):
        return {"final": "TOFinal", "all": "TOAll"}.get(t.lower(), "TOBadStr")
    return "(TOArr %s)" % qcv(t)


def comap(om):
    k = om[0]
    if k == "none":
        return "OMNone"
    if k == "square":
        return "OMSquare"
    if k == "scale":
        return "(OMScale %s)" % qcs(om[1])
    if k == "first":
        return "OMFirst"
    if k == "from":
        return "(OMFrom %s)" % cnat(om[1])
    if k == "mat":
        return "(OMMat %s)" % qcm(om[1])
    raise ValueError(k)


def pymap(om):
    k = om[0]
    if k == "none":
        return None
    if k == "square":
        return lambda u: u ** 2
    if k == "scale":
        c = om[1]
        return lambda u: c * u
    if k == "first":
        return lambda u: u[0]
    if k == "from":
        j = om[1]
        return lambda u: u[j:]
    if k == "mat":
        M = np.array(om[1], dtype=float)
        return lambda u: M @ u
    raise ValueError(k)


def cform(af):
    return "(FAff (mkAF %s %s %s %s %s %s %s %s %s))" % (
        qcm(af["A0"]), qcm(af["At"]), clist([qcm(E) for E in af["Ap"]]), qcv(af["b0"]), qcv(af["bt"]), qcm(af["Bp"]),
        qcv(af["c0"]), qcv(af["ct"]), qcm(af["Cp"]))


def ctform(tb):
    return "(FTbl %s)" % clist(["(%s, (%s, %s, %s))" % (qcs(t), qcm(A), qcv(b), qcv(c)) for (t, A, b, c) in tb])


def csret(x, info):
    return "(SPlain %s)" % qcv(x) if info is None else "(STuple %s %s)" % (qcv(x), clist([cz(v) for v in info]))


def csolver(skind, tag, calls):
    if skind == "fake":
        return "(SSFake None)"
    if skind == "fake_tuple":
        return "(SSFake (Some %s))" % cz(tag)
    return "(SSTable %s)" % clist(["(%s, %s, %s)" % (qcm(c["A"]), qcv(c["b"]), csret(c["x"], c["info"])) for c in calls])


def cquirks(q):
    return "(mkQ %s %s %s %s %s)" % (cbool(q["case"]), cbool(q["single"]), cbool(q["tobs"]), cbool(q["spline"]), cbool(q["subgrid"]))


# ------------------------------------------------------------------------------------------------
# driving the implementation: recording solver and interpolation calls (no source hooks)
# ------------------------------------------------------------------------------------------------
class Recorder:
    def __init__(self):
        self.reset()

    def reset(self):
        self.solver_calls, self.i1, self.i2, self.k = [], [], [], 0


def densify(A):
    if isinstance(A, scipy.sparse.linalg.LinearOperator):
        A = A @ np.eye(A.shape[1])
    A = A.toarray() if scipy.sparse.issparse(A) else np.asarray(A)
    return np.array(A, dtype=complex if np.iscomplexobj(A) else float)


class SolverBox:
    """linalg_solve stand-ins.  kind: real | real_tuple | real_tuple1 | fake | fake_tuple | spsolve (scipy.sparse.linalg.spsolve on
    what the PDE class hands over) | cg_tuple (scipy.sparse.linalg.cg, returns (x, info)) | real_inplace (overwrites the A and b it
    was given, as LAPACK's overwrite_a/overwrite_b do) | real_buffer (returns the same output buffer on every call)"""

    def __init__(self, kind, rec):
        self.kind, self.rec = kind, rec
        self.buf = None

    def __call__(self, A_in, b_in, *args, **kw):
        import scipy.sparse.linalg as spla
        A = densify(A_in)
        b = np.array(b_in, dtype=complex if np.iscomplexobj(b_in) else float).ravel()
        info = None
        k = self.rec.k
        self.rec.k += 1
        if self.kind.startswith("fake"):
            x = (2 * np.eye(len(b)) - A) @ b
        elif self.kind == "spsolve":
            x = spla.spsolve(scipy.sparse.csr_matrix(A_in), np.asarray(b_in, dtype=float).ravel())
        elif self.kind == "cg_tuple":
            x, flag = spla.cg(A_in if (scipy.sparse.issparse(A_in) or isinstance(A_in, spla.LinearOperator)) else np.asarray(A_in),
                              np.asarray(b_in, dtype=float).ravel(), rtol=kw["rtol"], atol=0.0)
            info = [int(flag)]
        else:
            x = REAL_SOLVE(A, b)
        if self.kind == "real_inplace" and isinstance(A_in, np.ndarray) and isinstance(b_in, np.ndarray):
            A_in[...] = np.nan
            b_in[...] = np.nan
        if self.kind == "real_strided":         # the answer is a non-contiguous view into a larger work array
            big = np.full(2 * len(x) + 1, np.nan)
            big[1::2] = x
            x = big[1::2]
        if self.kind == "real_buffer":
            if self.buf is None or self.buf.shape != np.shape(x):
                self.buf = np.empty(np.shape(x))
            self.buf[...] = x
            x = self.buf
        if self.kind in ("real_tuple", "fake_tuple"):
            info = [k, kw["tag"]]
        elif self.kind == "real_tuple1":
            info = []
        elif self.kind == "real_named":
            info = [k]
        self.rec.solver_calls.append({"A": A.tolist(), "b": b.tolist(), "x": np.array(x, dtype=complex if np.iscomplexobj(x) else float).tolist(), "info": info,
                                      "extra_args": len(args), "kw": sorted(kw)})
        if info is None:
            return x
        if self.kind == "real_named":           # a tuple SUBCLASS, as many scipy routines return
            import collections
            return collections.namedtuple("SolveResult", ["x", "ncall"])(x, k)
        return (x,) + tuple(info)


class Patches:
    """Record scipy.linalg.solve (default solver), cuqi.pde._pde.interp1d and scipy.interpolate.RectBivariateSpline."""

    def __init__(self, rec):
        self.rec = rec

    def __enter__(self):
        import cuqi.pde._pde as pm
        rec = self.rec
        self.pm = pm
        self.saved = (scipy.linalg.solve, scipy.interpolate.RectBivariateSpline, pm.interp1d)
        box = SolverBox("real", rec)
        scipy.linalg.solve = lambda A, b, *a, **k: box(A, b, *a, **k)

        class RBS:
            def __init__(s, x, y, z, *a, **k):
                s.e = {"gs": None if x is None else np.asarray(x, dtype=float).tolist(), "ts": np.asarray(y, dtype=float).tolist(),
                       "sol": np.asarray(z, dtype=float).tolist(), "ctor_extra": [repr(a), repr(sorted(k.items()))]}
                rec.i2.append(s.e)
                try:
                    s.f = REAL_RBS(x, y, z, *a, **k)
                except Exception as ex:
                    s.e["out"] = ("err", type(ex).__name__)
                    raise

            def __call__(s, xo, yo, *a, **k):
                s.e["go"] = np.asarray(xo, dtype=float).tolist()
                s.e["to"] = np.asarray(yo, dtype=float).tolist()
                s.e["call_extra"] = [repr(a), repr(sorted(k.items()))]
                try:
                    r = s.f(xo, yo, *a, **k)
                except Exception as ex:
                    s.e["out"] = ("err", type(ex).__name__)
                    raise
                s.e["out"] = ("ok", np.asarray(r, dtype=float).tolist())
                return r

        class I1:
            def __init__(s, x, y, *a, **k):
                s.e = {"gs": np.asarray(x, dtype=float).tolist(), "sol": np.asarray(y, dtype=float).tolist(),
                       "ctor_extra": [repr(a), repr(sorted(k.items()))]}
                rec.i1.append(s.e)
                try:
                    s.f = REAL_INTERP1D(x, y, *a, **k)
                except Exception as ex:
                    s.e["out"] = ("err", type(ex).__name__)
                    raise

            def __call__(s, xo):
                s.e["go"] = np.asarray(xo, dtype=float).tolist()
                try:
                    r = s.f(xo)
                except Exception as ex:
                    s.e["out"] = ("err", type(ex).__name__)
                    raise
                s.e["out"] = ("ok", np.asarray(r, dtype=float).tolist())
                return r

        scipy.interpolate.RectBivariateSpline = RBS
        pm.interp1d = I1
        return self

    def __exit__(self, *a):
        scipy.linalg.solve, scipy.interpolate.RectBivariateSpline, self.pm.interp1d = self.saved


def np_form(af, steady=False, style=None):
    """style: dict(sparse=None|'csr'|'csc'|'dia', src=None|'scalar'|'one', buffered=bool): how the user's PDE_form declares
    the same mathematical objects (sparse operator; scalar / one-element source to be broadcast; persistent output buffers that
    are overwritten on every call)"""
    style = style or {}
    A0, At, Ap = np.array(af["A0"], dtype=float), np.array(af["At"], dtype=float), [np.array(E, dtype=float) for E in af["Ap"]]
    b0, bt, Bp = np.array(af["b0"], dtype=float), np.array(af["bt"], dtype=float), np.array(af["Bp"], dtype=float)
    c0, ct, Cp = np.array(af["c0"], dtype=float), np.array(af["ct"], dtype=float), np.array(af["Cp"], dtype=float)
    bufs = {}

    def form(p, t):
        p_raw = p
        p = np.asarray(p, dtype=complex).real.astype(float)
        A = A0 + t * At
        for i, E in enumerate(Ap):
            if i < len(p):
                A = A + p[i] * E
        b, c = b0 + t * bt + Bp @ p, c0 + t * ct + Cp @ p
        if style.get("buffered"):
            for nm, v in (("A", A), ("b", b), ("c", c)):
                if nm not in bufs:
                    bufs[nm] = np.empty_like(v)
                bufs[nm][...] = v
            A, b, c = bufs["A"], bufs["b"], bufs["c"]
        if style.get("sparse"):
            A = getattr(scipy.sparse, style["sparse"] + "_matrix")(A)
        if style.get("linop"):
            A = scipy.sparse.linalg.aslinearoperator(A)
        if style.get("src") == "scalar":
            b = float(b[0])
        A, b, c = cast_dtype(A, style.get("dt_op")) if style.get("dt_op") else A, cast_dtype(b, style.get("dt_src")) if style.get("dt_src") else b, \
            cast_dtype(c, style.get("dt_ic")) if style.get("dt_ic") else c
        if style.get("ic_raw_param"):
            c = p_raw                   # the parameter object itself is the initial condition (as in Heat1D)
        return (A, b, c)
    if steady:
        return lambda p: form(p, 0.0)[:2]
    return form


def mk_solver_args(cfg, rec):
    sk = cfg["solver"]
    if sk == "default":
        return {}
    kw = {"linalg_solve": SolverBox(sk, rec)}
    if sk in ("real_tuple", "fake_tuple"):
        kw["linalg_solve_kwargs"] = {"tag": cfg["tag"]}
    if sk == "cg_tuple":
        kw["linalg_solve_kwargs"] = {"rtol": 1e-14}
    return kw


def aslist(g, dt=None):
    if g is None:
        return None
    return cast_dtype(np.array(g, dtype=float), dt)


DTYPES = ["int64", "int32", "bool", "float32", "float64", "list", "complex"]


def cast_dtype(v, dt):
    """the same VALUES declared with another dtype / as a Python list (exactly representable: checked)"""
    if dt is None:
        return v
    v = np.asarray(v, dtype=float)
    if dt == "list":
        return v.tolist()
    if dt == "matrix":
        return np.asmatrix(v)
    if dt == "fortran":
        return np.asfortranarray(v)
    if dt == "strided":         # every second entry of a twice as long buffer (non-contiguous view)
        big = np.repeat(v, 2, axis=-1)
        return big[..., ::2]
    if dt == "reversed":        # negative strides
        return v[..., ::-1].copy()[..., ::-1]
    if dt == "readonly":
        w = v.copy()
        w.setflags(write=False)
        return w
    w = v.astype(dt)
    assert np.array_equal(np.asarray(w, dtype=complex), np.asarray(v, dtype=complex)), "values not representable as %s" % dt
    return w


def cast_par(cfg, x):
    return cast_dtype(np.array(x, dtype=float), (cfg.get("style") or {}).get("dt_par"))


def asgrid_obs(cfg):
    """grid_obs as the array handed to the constructor: float64 by default, or the same values in another dtype"""
    g = cfg["gobs"]
    if g is None:
        return None
    if cfg.get("gobs_dtype") == "list":
        return list(g)
    return np.array(g, dtype=cfg.get("gobs_dtype") or float)


def wrap_omap(f, style):
    """the same observation map returning its result Fortran-ordered / in a persistent work buffer that it reuses"""
    if f is None or not style:
        return f
    box = {}

    def g(u):
        r = np.asarray(f(u))
        if style == "fortran":
            return np.asfortranarray(r) if r.ndim == 2 else r
        if "buf" not in box or box["buf"].shape != r.shape:
            box["buf"] = np.empty(r.shape)
        box["buf"][...] = r
        return box["buf"]
    return g


def drop_defaults(cfg, kw):
    """cfg["omit_defaults"]: every optional constructor argument whose value is the documented default is NOT passed"""
    if not cfg.get("omit_defaults"):
        return kw
    defaults = {"time_obs": "final", "method": "forward_euler", "grid_sol": None, "grid_obs": None, "observation_map": None,
                "linalg_solve": None, "linalg_solve_kwargs": None}
    return {k: v for k, v in kw.items() if not (k in defaults and (v is defaults[k] or (isinstance(v, str) and v == defaults[k])))}


def mk_td(cuqi, cfg, rec, form=None):
    tobs = cfg["tobs"]
    if isinstance(tobs, list):
        tobs = np.array(tobs, dtype=float) if cfg.get("tobs_as_array", True) else list(tobs)
    elif isinstance(tobs, str) and cfg.get("tobs_np_str"):
        tobs = np.str_(tobs)                    # a str subclass
    form = form or np_form(cfg["af"], style=cfg.get("style"))
    kw = dict(time_obs=tobs, method=cfg["method"], grid_sol=aslist(cfg["gsol"], cfg.get("gsol_dtype")), grid_obs=asgrid_obs(cfg),
              observation_map=wrap_omap(pymap(cfg["omap"]), cfg.get("omap_style")), **mk_solver_args(cfg, rec))
    if cfg.get("lskw") == "empty" and "linalg_solve_kwargs" not in kw:
        kw["linalg_solve_kwargs"] = {}
    times = aslist(cfg["times"], cfg.get("times_dtype"))
    if cfg.get("reassign"):
        # built with decoy values, then every public attribute is re-assigned to the wanted one: the object must behave like a fresh one
        other = "backward_euler" if cfg["method"] == "forward_euler" else "forward_euler"
        decoy_times = np.array([7.0, 8.0, 9.5, 11.0])
        pde = cuqi.pde.TimeDependentLinearPDE(lambda p, t: (np.eye(2), np.ones(2), np.array([5.0, 6.0])), decoy_times, time_obs=tobs, method=other,
                                              grid_sol=np.array([10.0, 20.0, 30.0]), grid_obs=np.array([15.0]), observation_map=lambda u: u * 0 + 77,
                                              **mk_solver_args(cfg, rec))
        pde.PDE_form, pde.time_steps, pde.method, pde.observation_map = form, times, cfg["method"], kw["observation_map"]
        pde.grid_sol = kw["grid_sol"]
        pde.grid_obs = kw["grid_obs"]
        return pde
    return cuqi.pde.TimeDependentLinearPDE(form, times, **drop_defaults(cfg, kw))


def mk_ss(cuqi, cfg, rec, form=None):
    form = form or np_form(cfg["af"], steady=True, style=cfg.get("style"))
    kw = dict(grid_sol=aslist(cfg["gsol"], cfg.get("gsol_dtype")), grid_obs=asgrid_obs(cfg), observation_map=wrap_omap(pymap(cfg["omap"]), cfg.get("omap_style")), **mk_solver_args(cfg, rec))
    if cfg.get("lskw") == "empty" and "linalg_solve_kwargs" not in kw:
        kw["linalg_solve_kwargs"] = {}
    if cfg.get("reassign"):
        pde = cuqi.pde.SteadyStateLinearPDE(lambda p: (np.eye(2), np.array([5.0, 6.0])), grid_sol=np.array([10.0, 20.0, 30.0]), grid_obs=np.array([15.0, 25.0]),
                                            observation_map=lambda u: u * 0 + 77, **mk_solver_args(cfg, rec))
        pde.assemble(np.array([1.0]))            # leaves a stale assembled system behind
        pde.PDE_form, pde.observation_map = form, kw["observation_map"]
        pde.grid_sol = kw["grid_sol"]
        pde.grid_obs = kw["grid_obs"]
        return pde
    return cuqi.pde.SteadyStateLinearPDE(form, **drop_defaults(cfg, kw))


def outcome(f):
    try:
        return ("ok", f())
    except Exception as e:
        return ("err", type(e).__name__)


def tobs_of(pde):
    """the parsed observation times the object holds (whatever they are, should the parsing have gone wrong)"""
    try:
        return np.asarray(pde._time_obs, dtype=float).tolist()
    except Exception:
        return [repr(pde._time_obs)]


def info_list(i):
    if i is None:
        return None
    return [int(v) for v in i]


def drive_td_direct(cuqi, cfg, p, form=None, assemble=True):
    """assemble(p); solve(); observe(sol) on a fresh object.  Returns the observation record."""
    rec = Recorder()
    with Patches(rec):
        r = outcome(lambda: mk_td(cuqi, cfg, rec, form))
        if r[0] == "err":
            return {"stage": "init", "err": r[1], "rec": rec}
        pde = r[1]
        if assemble:
            pde.assemble(cast_par(cfg, p))
        r = outcome(pde.solve)
        if r[0] == "err":
            return {"stage": "solve", "err": r[1], "rec": rec}
        u_raw, info = r[1]
        u = np.array(np.real(u_raw), dtype=float)
        o = outcome(lambda: pde.observe(u_raw))
        if o[0] == "ok":
            o = ("ok", np.real(o[1]))
        return {"stage": "run", "u": u, "udtype": np.asarray(u_raw).dtype.kind, "uimag": float(np.max(np.abs(np.imag(u_raw)))) if np.size(u_raw) else 0.0,
                "info": info_list(info), "obs": o, "ninterp": len(rec.i2), "rec": rec,
                "time_obs": tobs_of(pde), "grids_equal": bool(pde.grids_equal)}


def drive_ss_direct(cuqi, cfg, p, form=None, assemble=True):
    rec = Recorder()
    with Patches(rec):
        pde = mk_ss(cuqi, cfg, rec, form)
        if assemble:
            pde.assemble(cast_par(cfg, p))
        r = outcome(pde.solve)
        if r[0] == "err":
            return {"stage": "solve", "err": r[1], "rec": rec}
        sol_raw, info = r[1]
        sol = np.array(np.real(sol_raw), dtype=float)
        o = outcome(lambda: pde.observe(sol_raw))
        if o[0] == "ok":
            o = ("ok", np.real(o[1]))
        return {"stage": "run", "sol": sol, "info": info_list(info), "obs": o, "ninterp": len(rec.i1), "rec": rec,
                "grids_equal": bool(pde.grids_equal)}


def mk_model(cuqi, pde, npar, a, d, swap=False):
    dom = cuqi.geometry.Continuous1D(npar)
    if (a, d) != (1, 0):
        dom = cuqi.geometry.MappedGeometry(dom, map=lambda x, a=a, d=d: a * x + d)
    if swap:        # model built around a decoy PDE object, the wanted one assigned afterwards
        m = cuqi.model.PDEModel(cuqi.pde.SteadyStateLinearPDE(lambda p: (np.eye(2), np.array([5.0, 6.0]))), cuqi.geometry.Continuous1D(3), dom)
        m.pde = pde
        return m
    return cuqi.model.PDEModel(pde, cuqi.geometry.Continuous1D(3), dom)


def call_forward(model, xin, style):
    if style == "call":
        return model(xin)
    if style == "kw":
        return model.forward(x=xin)
    if style == "is_par":
        return model.forward(xin, is_par=True)
    return model.forward(xin)


# ------------------------------------------------------------------------------------------------
# independent oracle: the property stated directly (Fractions; own B-spline interpolation)
# ------------------------------------------------------------------------------------------------
def fr_mat(M):
    return [[frac(float(v)) for v in r] for r in M]


def fr_vec(v):
    return [frac(float(x)) for x in v]


def fr_form(af, p, t):
    """the affine PDE form in exact arithmetic: (A, b, ic) at (p, t)"""
    p = fr_vec(p)
    t = frac(float(t))
    n = len(af["c0"])
    A = [[frac(af["A0"][i][j]) + t * frac(af["At"][i][j]) + sum(p[k] * frac(af["Ap"][k][i][j]) for k in range(min(len(p), len(af["Ap"]))))
          for j in range(n)] for i in range(n)]
    b = [frac(af["b0"][i]) + t * frac(af["bt"][i]) + sum(frac(af["Bp"][i][k]) * p[k] for k in range(len(p))) for i in range(len(af["b0"]))]
    if len(b) == 1 and n != 1:
        b = b * n                      # a scalar / one-element source term is broadcast
    c = [frac(af["c0"][i]) + t * frac(af["ct"][i]) + sum(frac(af["Cp"][i][k]) * p[k] for k in range(len(p))) for i in range(n)]
    return A, b, c


def fr_matvec(A, x):
    return [sum(a * y for a, y in zip(r, x)) for r in A]


def close(a, b, tol=1e-9):
    return abs(float(a) - float(b)) <= tol * (1 + abs(float(b)))


def bspl_knots(x, k):
    x = list(x)
    if k == 3:
        inner = x[2:-2]
    else:
        inner = [(x[i] + x[i + 1]) / 2 for i in range(1, len(x) - 2)]
    return [x[0]] * (k + 1) + inner + [x[-1]] * (k + 1)


def bspl_basis(t, k, xs):
    """collocation matrix of the B-splines of degree k on knots t at the points xs (Cox-de Boor)"""
    nb = len(t) - k - 1
    out = np.zeros((len(xs), nb))
    for r, x in enumerate(xs):
        # degree 0
        N = np.zeros(len(t) - 1)
        if x >= t[-1]:
            j = max(i for i in range(len(t) - 1) if t[i] < t[i + 1])
            N[j] = 1.0
        else:
            for i in range(len(t) - 1):
                if t[i] <= x < t[i + 1]:
                    N[i] = 1.0
        for d in range(1, k + 1):
            N2 = np.zeros(len(t) - 1 - d)
            for i in range(len(t) - 1 - d):
                v = 0.0
                if t[i + d] > t[i]:
                    v += (x - t[i]) / (t[i + d] - t[i]) * N[i]
                if t[i + d + 1] > t[i + 1]:
                    v += (t[i + d + 1] - x) / (t[i + d + 1] - t[i + 1]) * N[i + 1]
                N2[i] = v
            N = N2
        out[r, :] = N[:nb]
    return out


def spline_interp(x, Y, k, xo):
    """interpolating spline of degree k through (x, Y[:, j]) evaluated at xo, column by column"""
    x = np.asarray(x, dtype=float)
    Y = np.asarray(Y, dtype=float)
    t = bspl_knots(x, k)
    C = np.linalg.solve(bspl_basis(t, k, x), Y)
    return bspl_basis(t, k, np.asarray(xo, dtype=float)) @ C


def idx_of(v, grid):
    for i, g in enumerate(grid):
        if g == v:
            return i
    return None


def o_expected_levels(cfg, p):
    """forward Euler: the exact levels by the documented recurrence; returns list of Fraction vectors"""
    af, times = cfg["af"], [frac(float(t)) for t in cfg["times"]]
    _, _, u = fr_form(af, p, times[0])
    levels = [u]
    for k in range(len(times) - 1):
        A, b, _ = fr_form(af, p, times[k])
        dt = times[k + 1] - times[k]
        Au = fr_matvec(A, u)
        u = [u[i] + dt * (Au[i] + b[i]) for i in range(len(u))]
        levels.append(u)
    return levels


def o_check_levels(cfg, p, u, info, rec_calls, tol):
    """the recurrence of the documented method, from the initial condition, on the stored array u (n, nt)"""
    af, times = cfg["af"], [frac(float(t)) for t in cfg["times"]]
    meth = cfg["method"].lower()
    n, nt = u.shape
    if nt != len(times):
        return "solution has %d time levels for %d time steps" % (nt, len(times))
    _, _, ic = fr_form(af, p, times[0])
    uscale = float(np.max(np.abs(u))) if u.size else 0.0
    if n != len(ic) or not all(abs(float(u[i, 0]) - float(ic[i])) <= tol * uscale for i in range(n)):
        return "level 0 %s is not the initial condition %s" % (u[:, 0].tolist(), [float(v) for v in ic])
    for k in range(nt - 1):
        dt = times[k + 1] - times[k]
        uk = [frac(float(v)) for v in u[:, k]]
        uk1 = [frac(float(v)) for v in u[:, k + 1]]
        if meth == "forward_euler":
            A, b, _ = fr_form(af, p, times[k])
            Au = fr_matvec(A, uk)
            res = [uk1[i] - (uk[i] + dt * (Au[i] + b[i])) for i in range(n)]
            what = "u[k+1] = u[k] + dt (A(t_k) u[k] + b(t_k))"
        else:
            A, b, _ = fr_form(af, p, times[k + 1])
            Au = fr_matvec(A, uk1)
            if cfg["solver"].startswith("fake"):
                # stand-in solver x = (2I - M) r with M = I - dt A, r = u[k] + dt b : x = (I + dt A) r
                r = [uk[i] + dt * b[i] for i in range(n)]
                Ar = fr_matvec(A, r)
                res = [uk1[i] - (r[i] + dt * Ar[i]) for i in range(n)]
                what = "u[k+1] = stand-in-solver(I - dt A(t_k+1), u[k] + dt b(t_k+1))"
            else:
                res = [uk1[i] - dt * Au[i] - (uk[i] + dt * b[i]) for i in range(n)]
                what = "(I - dt A(t_k+1)) u[k+1] = u[k] + dt b(t_k+1)"
        scale = max(abs(float(v)) for v in uk + uk1 + [dt * x for x in b])
        if max(abs(float(r)) for r in res) > max(tol, 1e-9) * scale * 10:
            return "time level %d violates %s: residual %s (dt=%s)" % (k + 1, what, [float(r) for r in res], float(dt))
    # info: what the solver returned besides the solution at the LAST step; None for plain solvers and forward Euler
    exp_info = None
    if meth == "backward_euler" and nt > 1:
        if cfg["solver"] in ("real_tuple", "fake_tuple"):
            exp_info = [nt - 2, cfg["tag"]]
        elif cfg["solver"] == "real_tuple1":
            exp_info = []
        elif cfg["solver"] == "cg_tuple":
            exp_info = [0]
        elif cfg["solver"] == "real_named":
            exp_info = [nt - 2]
    if info != exp_info:
        return "info %s, expected %s (extra return values of the last solve)" % (info, exp_info)
    return None


def o_td_observe(cfg, u, time_obs_eff):
    """expected observation of the stored solution u: ('ok', array) | ('err',) | ('any',)"""
    times = list(cfg["times"])
    gs, go = cfg["gsol"], cfg["gobs"]
    if go is None:
        go = gs
    tobs = list(time_obs_eff)
    n, nt = u.shape
    if gs is None:
        # no grid: only the unrestricted solution at coinciding times can be asked for
        xi = list(range(n))
    else:
        xi = [idx_of(v, gs) for v in go]
    ti = [idx_of(v, times) for v in tobs]
    coincide = all(i is not None for i in xi) and all(j is not None for j in ti)
    if coincide:
        E = np.array([[u[i, j] for j in ti] for i in xi], dtype=float).reshape(len(xi), len(ti))
    else:
        if gs is None or len(gs) < 4 or nt < 4 or len(gs) != n:
            return ("err",)
        if any(v < min(gs) or v > max(gs) for v in go) or any(v < min(times) or v > max(times) for v in tobs):
            return ("any",)             # evaluation outside the grid: not specified by the property
        if len(tobs) == 0 or len(go) == 0:
            return ("any",)
        if any(b < a for a, b in zip(tobs, tobs[1:])) or any(b < a for a, b in zip(go, go[1:])):
            return ("any",)             # interpolation at unsorted points: scipy's gridded evaluation refuses; not specified by the property
        S1 = spline_interp(gs, u, 3, go)                      # (n_obs, nt)
        E = spline_interp(times, S1.T, 3, tobs).T             # (n_obs, n_tobs)
    om = pymap(cfg["omap"])
    if len(tobs) == 1:
        # a single observation time: the observation map sees the vector at that time
        try:
            E1 = E[:, 0]
            return ("ok", np.asarray(om(E1) if om else E1, dtype=float), coincide)
        except Exception:
            return ("err",)
    try:
        return ("ok", np.asarray(om(E) if om else E, dtype=float), coincide)
    except Exception:
        return ("err",)


def arr_close(a, b, tol, floor=0.0):
    """purely relative (no absolute part, invariant under rescaling of the values): to the largest expected entry or, if larger,
    to `floor` = the magnitude the observation map gives to the largest entry of the whole solution (an expected 0 next to
    O(s) values may come back as rounding noise eps*s)"""
    a, b = np.asarray(a, dtype=float), np.asarray(b, dtype=float)
    if a.shape != b.shape:
        # the property fixes the VALUES of an observation, not whether an axis of length 1 (one observed node, one
        # observation time) is kept; the exact shape rule of the code is part of the Coq model (`squeeze`, td_observe)
        if a.squeeze().shape != b.squeeze().shape:
            return False
        a, b = a.squeeze(), b.squeeze()
    m = max(float(np.max(np.abs(b))) if b.size else 0.0, floor)
    return bool(np.all(np.abs(a - b) <= tol * m))


def obs_floor(cfg, sol):
    s = float(np.max(np.abs(sol))) if np.size(sol) else 0.0
    om = cfg["omap"]
    if om[0] == "square":
        return s * s
    if om[0] == "scale":
        return abs(om[1]) * s
    if om[0] == "mat":
        return np.shape(sol)[0] * float(np.max(np.abs(om[1]))) * s
    return s


def oracle_td(cfg, p, ob, q):
    """None, or (description, signature) of how the property fails on the implementation for this run."""
    mcode = cmethod(cfg["method"])
    tob = cfg["tobs"]
    init_should_fail = mcode == "MBad" or tob is None or (isinstance(tob, str) and tob.lower() not in ("final", "all"))
    if ob["stage"] == "init":
        return None if init_should_fail else ("constructor refused a valid configuration: %s" % ob["err"], "TimeDependentLinearPDE.__init__")
    if init_should_fail:
        return ("constructor accepted method=%r time_obs=%r" % (cfg["method"], tob), "TimeDependentLinearPDE.__init__")
    times = cfg["times"]
    if ob["stage"] == "solve":
        if len(times) == 0 or cfg.get("malformed"):
            return None
        if mcode in ("MCaseFwd", "MCaseBwd"):
            return ("method=%r is accepted by the constructor but solve() raises %s" % (cfg["method"], ob["err"]), SIG_CASE)
        if mcode == "MBwd" and len(times) == 1:
            return ("backward_euler on the one-level time grid %s: solve() raises %s instead of returning the initial condition" % (times, ob["err"]), SIG_SINGLE)
        return ("solve() raised %s" % ob["err"], "TimeDependentLinearPDE.solve")
    if cfg.get("malformed"):
        return ("solve() accepted a malformed system", "TimeDependentLinearPDE.solve")
    tol = 1e-9
    d = o_check_levels(cfg, p, ob["u"], ob["info"], ob["rec"].solver_calls, tol)
    if d:
        return (d, "TimeDependentLinearPDE.solve")
    # time_obs as parsed
    exp_tobs = [times[-1]] if (isinstance(tob, str) and tob.lower() == "final") else list(times) if isinstance(tob, str) else list(tob)
    if list(ob["time_obs"]) != exp_tobs:
        return ("time_obs parsed as %s, expected %s" % (ob["time_obs"], exp_tobs), "TimeDependentLinearPDE.__init__")
    exp = o_td_observe(cfg, ob["u"], exp_tobs)
    o = ob["obs"]
    if exp[0] == "any":
        return None
    if exp[0] == "err":
        return None if o[0] == "err" else ("observe() returned a value where no restriction/interpolation exists", "TimeDependentLinearPDE.observe")
    if o[0] == "err":
        if exp[2]:
            return ("observe() raised %s although every observation node and time coincides with a solution node and time step "
                    "(grid_sol %s nodes, %d time levels, time_obs=%r)" % (o[1], "no" if cfg["gsol"] is None else len(cfg["gsol"]), len(times), tob),
                    SIG_SPL if grids_identical(cfg["gsol"], cfg["gobs"]) else SIG_SPL2)
        return ("observe() raised %s" % o[1], "TimeDependentLinearPDE.observe")
    if not arr_close(o[1], exp[1], 1e-7, obs_floor(cfg, ob["u"])):
        sig = "TimeDependentLinearPDE.observe"
        ne = len(exp_tobs)
        if ne != 1 and all(t == times[-1] for t in exp_tobs) and np.asarray(o[1]).shape != np.asarray(exp[1]).shape:
            sig = SIG_TOBS
        return ("observe(): got shape %s %s, expected shape %s %s (time_obs=%s)" % (np.shape(o[1]), np.asarray(o[1]).ravel()[:8].tolist(),
                                                                                  np.shape(exp[1]), np.asarray(exp[1]).ravel()[:8].tolist(), exp_tobs), sig)
    return None


def oracle_ss(cfg, p, ob, assembled=True):
    if not assembled:
        return None if ob["stage"] == "solve" else ("solve() before assemble() returned a value", "SteadyStateLinearPDE.solve")
    if ob["stage"] == "solve":
        return ("solve() raised %s" % ob["err"], "SteadyStateLinearPDE.solve")
    A, b, _ = fr_form(cfg["af"], p, 0.0)
    sol = ob["sol"]
    n = len(b)
    if sol.shape != (n,):
        return ("solution shape %s" % (sol.shape,), "SteadyStateLinearPDE.solve")
    x = [frac(float(v)) for v in sol]
    if cfg["solver"].startswith("fake"):
        want = [2 * b[i] - fr_matvec(A, b)[i] for i in range(n)]
        wscale = max(abs(float(v)) for v in want + b)
        if any(abs(float(x[i] - want[i])) > 1e-12 * wscale for i in range(n)):
            return ("solution is not what the supplied solver returns for the assembled (A(p), b(p))", "SteadyStateLinearPDE.solve")
    else:
        Ax = fr_matvec(A, x)
        res = max(abs(float(Ax[i] - b[i])) for i in range(n))
        bscale = max(abs(float(v)) for v in b) + n * max(abs(float(v)) for r in A for v in r) * max(abs(float(v)) for v in x)
        if res > 1e-8 * bscale:
            return ("A(p) u = b(p) violated: residual %g" % res, "SteadyStateLinearPDE.solve")
    exp_info = [0, cfg["tag"]] if cfg["solver"] in ("real_tuple", "fake_tuple") else [] if cfg["solver"] == "real_tuple1" else [0] if cfg["solver"] in ("cg_tuple", "real_named") else None
    if ob["info"] != exp_info:
        return ("info %s expected %s" % (ob["info"], exp_info), "LinearPDE._solve_linear_system")
    gs, go = cfg["gsol"], cfg["gobs"]
    if go is None:
        go = gs
    if gs is None:
        E = sol
        coincide = True
    else:
        xi = [idx_of(v, gs) for v in go]
        coincide = all(i is not None for i in xi)
        if coincide:
            E = np.array([sol[i] for i in xi], dtype=float)
        else:
            if len(gs) < 3 or len(gs) != n:
                return None if ob["obs"][0] == "err" else ("observe() returned a value without a possible interpolation", "SteadyStateLinearPDE.observe")
            if any(v < min(gs) or v > max(gs) for v in go):
                return None
            E = spline_interp(gs, sol.reshape(-1, 1), 2, go)[:, 0]
    om = pymap(cfg["omap"])
    try:
        E = np.asarray(om(E) if om else E, dtype=float)
    except Exception:
        return None if ob["obs"][0] == "err" else ("observe() returned although the observation map fails", "SteadyStateLinearPDE.observe")
    o = ob["obs"]
    if o[0] == "err":
        if coincide and len(gs or [0, 0, 0]) < 3:
            return None         # fewer than 3 nodes with a proper sub-grid: interp1d refuses; noted, not a cell of the green path
        return ("observe() raised %s" % o[1], "SteadyStateLinearPDE.observe")
    if not arr_close(o[1], E, 1e-7, obs_floor(cfg, sol)):
        return ("observe(): got %s expected %s" % (np.asarray(o[1]).ravel()[:8].tolist(), E.ravel()[:8].tolist()), "SteadyStateLinearPDE.observe")
    return None


# ---- exactly polynomial discrete solutions on scaled / perturbed grids: the exact answer of the observation is known ----
def poly_eval(coef, xi):
    return sum(Fr(c) * xi ** k for k, c in enumerate(coef))


def grids_identical(gs, go):
    return go is None or gs is None or (len(gs) == len(go) and all(frac(float(a)) == frac(float(b)) for a, b in zip(gs, go)))


def rel_tol_close(a, E, tol):
    """purely relative to the size of the expected array (no absolute part: scale independent)"""
    a, E = np.asarray(a, dtype=float), np.asarray(E, dtype=float)
    if a.shape != E.shape:
        return False
    m = float(np.max(np.abs(E))) if E.size else 0.0
    return bool(np.all(np.abs(a - E) <= tol * m)) if E.size else True


POLY_TOL = 1e-10


def oracle_poly_ss(cfg, p, ob):
    """steady cells whose nodal solution is q(x/s) + p_0 exactly, q quadratic: the observation is q(grid_obs/s) + p_0"""
    P = cfg["poly"]
    s = Fr(2) ** P["s_exp"]
    gs, go = cfg["gsol"], cfg["gobs"] if cfg["gobs"] is not None else cfg["gsol"]
    same = grids_identical(gs, go)
    if ob["stage"] != "run" or ob["obs"][0] != "ok":
        return ("observe() raised on a scaled/perturbed grid: %s" % (ob.get("err") or ob["obs"][1]), "SteadyStateLinearPDE.observe")
    g0 = frac(float(P.get("goff", 0.0)))
    E = np.array([float(poly_eval(P["q"], (frac(float(x)) - g0) / s) + frac(float(p[0]))) for x in go])
    nodal = np.array([float(poly_eval(P["q"], (frac(float(x)) - g0) / s) + frac(float(p[0]))) for x in gs])
    o = np.asarray(ob["obs"][1], dtype=float)
    what = "grid scale 2^%d, grid_obs = grid_sol %s" % (P["s_exp"], P["pert"])
    if not rel_tol_close(o, E, POLY_TOL):
        return ("%s: observe() = %s but the exactly quadratic solution at grid_obs is %s (max error %.3g; interpolation used: %s; nodal values %s)" % (
            what, o.tolist()[:6], E.tolist()[:6], float(np.max(np.abs(o - E))) if o.shape == E.shape else float("nan"), ob["ninterp"] > 0, nodal.tolist()[:6]),
            "SteadyStateLinearPDE.observe")
    if not same and ob["ninterp"] == 0:
        return ("%s: the grids differ (same length, max |difference| %.3g) but observe() did not interpolate: it returns the nodal values, off by %.3g from the "
                "exact solution at grid_obs" % (what, max(abs(a - b) for a, b in zip(gs, go)), float(np.max(np.abs(nodal - E)))), "SteadyStateLinearPDE.observe")
    if same and ob["ninterp"] > 0:
        return ("%s: the grids coincide but observe() interpolated instead of restricting" % what, "SteadyStateLinearPDE.observe")
    return None


def oracle_poly_td(cfg, p, ob):
    """time-dependent cells with u(x, t) = q1(x/s) + p_0 + (t - t0)/ts * q2(x/s) exactly (q1, q2 cubic): the observation at
    (grid_obs, time_obs) is that polynomial"""
    P = cfg["poly"]
    s, ts = Fr(2) ** P["s_exp"], Fr(2) ** P["t_exp"]
    times = cfg["times"]
    gs, go = cfg["gsol"], cfg["gobs"] if cfg["gobs"] is not None else cfg["gsol"]
    tob = cfg["tobs"]
    tobs = [times[-1]] if isinstance(tob, str) else list(tob)
    same = grids_identical(gs, go)
    final = len(tobs) == 1 and frac(float(tobs[0])) == frac(float(times[-1]))
    if ob["stage"] != "run" or ob["obs"][0] != "ok":
        return ("observe() raised on a scaled/perturbed grid: %s" % (ob.get("err") or ob["obs"][1]), "TimeDependentLinearPDE.observe")
    t0 = frac(float(times[0]))

    g0 = frac(float(P.get("goff", 0.0)))

    def u(x, t):
        xi = (frac(float(x)) - g0) / s
        return float(poly_eval(P["q1"], xi) + frac(float(p[0])) + (frac(float(t)) - t0) / ts * poly_eval(P["q2"], xi))
    E = np.array([[u(x, t) for t in tobs] for x in go])
    nodal = np.array([[u(x, times[-1])] for x in gs])
    if len(tobs) == 1:
        E = E[:, 0]
        nodal = nodal[:, 0]
    o = np.asarray(ob["obs"][1], dtype=float)
    what = "grid scale 2^%d, time scale 2^%d, grid_obs = grid_sol %s, time_obs = %s" % (P["s_exp"], P["t_exp"], P["pert"], P["tpert"])
    if not rel_tol_close(o, E, POLY_TOL):
        return ("%s: observe() = %s but the exactly polynomial solution at (grid_obs, time_obs) is %s (max error %.3g; interpolation used: %s)" % (
            what, o.ravel().tolist()[:6], E.ravel().tolist()[:6], float(np.max(np.abs(o - E))) if o.shape == E.shape else float("nan"), ob["ninterp"] > 0),
            "TimeDependentLinearPDE.observe")
    coincide = all(idx_of(x, gs) is not None for x in go) and all(idx_of(t, times) is not None for t in tobs)
    if not coincide and ob["ninterp"] == 0:
        return ("%s: grid_obs differs from grid_sol or time_obs from the final time (max |grid difference| %.3g, |T - time_obs| %.3g) but observe() did not "
                "interpolate: it returns the final nodal values, off by %.3g from the exact solution there" % (
                    what, max([abs(a - b) for a, b in zip(gs, go)] + [0.0]), abs(times[-1] - tobs[-1]),
                    float(np.max(np.abs(nodal - E))) if nodal.shape == E.shape else float("nan")), "TimeDependentLinearPDE.observe")
    if same and final and ob["ninterp"] > 0:
        return ("%s: grids and final time coincide but observe() interpolated instead of restricting" % what, "TimeDependentLinearPDE.observe")
    return None


_oracle_td_std, _oracle_ss_std = oracle_td, oracle_ss


def oracle_td(cfg, p, ob, q):
    f = _oracle_td_std(cfg, p, ob, q)
    return f or (oracle_poly_td(cfg, p, ob) if "poly" in cfg else None)


def oracle_ss(cfg, p, ob, assembled=True):
    f = _oracle_ss_std(cfg, p, ob, assembled)
    return f or (oracle_poly_ss(cfg, p, ob) if ("poly" in cfg and assembled) else None)


# ------------------------------------------------------------------------------------------------
# exactness guard: may the floats of a correct implementation be compared bit-for-bit with the model?
# ------------------------------------------------------------------------------------------------
def dyadic_ok(x):
    """dyadic with denominator <= 2^24 and |x| < 2^20: products with the small step operators and their partial sums
    then stay below 53 bits, whatever the summation order of the BLAS"""
    d = x.denominator
    return d & (d - 1) == 0 and d.bit_length() <= 25 and abs(x) < 2 ** 20


def exact_safe_td(cfg, p):
    if not cfg["solver"].startswith("fake") and cfg["method"].lower() == "backward_euler":
        return False
    vs = Fr(2) ** cfg.get("vexp", 0)
    try:
        af, times = cfg["af"], [frac(float(t)) for t in cfg["times"]]
        if not times:
            return True
        _, _, u = fr_form(af, p, times[0])
        allv = list(u)
        for k in range(len(times) - 1):
            dt = times[k + 1] - times[k]
            if cfg["method"].lower() == "forward_euler":
                A, b, _ = fr_form(af, p, times[k])
                Au = fr_matvec(A, u)
                u = [u[i] + dt * (Au[i] + b[i]) for i in range(len(u))]
            else:
                A, b, _ = fr_form(af, p, times[k + 1])
                r = [u[i] + dt * b[i] for i in range(len(u))]
                Ar = fr_matvec(A, r)
                allv += r
                u = [r[i] + dt * Ar[i] for i in range(len(u))]
            allv += u
        return all(dyadic_ok(v / vs) for v in allv)
    except Exception:
        return False


# ------------------------------------------------------------------------------------------------
# state of the tree w.r.t. the three degenerate-configuration defects (witness replays)
# ------------------------------------------------------------------------------------------------
_W_AF = {"A0": [[-2, 1, 0, 0], [1, -2, 1, 0], [0, 1, -2, 1], [0, 0, 1, -2]], "At": [[0] * 4] * 4, "Ap": [], "b0": [0] * 4, "bt": [0] * 4,
         "Bp": [[0] * 4] * 4, "c0": [0] * 4, "ct": [0] * 4, "Cp": [[1, 0, 0, 0], [0, 1, 0, 0], [0, 0, 1, 0], [0, 0, 0, 1]]}
_W_BASE = {"af": _W_AF, "times": [0, 0.25, 0.5, 1.0], "method": "forward_euler", "solver": "fake", "tag": 0, "gsol": [0, 0.5, 1.0, 1.5],
           "gobs": None, "tobs": "final", "omap": ["none"]}


def witness_runs(cuqi):
    p = [1.0, 2.0, 3.0, 4.0]
    out = {}
    c = dict(_W_BASE, method="Forward_Euler")
    ob = drive_td_direct(cuqi, c, p)
    out[SIG_CASE] = (ob["stage"] == "solve", "TimeDependentLinearPDE(..., method='Forward_Euler') is constructed, solve() -> %s" % (ob.get("err") or "ok"))
    c = dict(_W_BASE, method="backward_euler", times=[0.0])
    ob = drive_td_direct(cuqi, c, p)
    out[SIG_SINGLE] = (ob["stage"] == "solve", "backward_euler, time_steps=[0.]: solve() -> %s" % (ob.get("err") or "ok"))
    c = dict(_W_BASE, tobs=[1.0, 1.0])
    ob = drive_td_direct(cuqi, c, p)
    shp = np.shape(ob["obs"][1]) if ob["stage"] == "run" and ob["obs"][0] == "ok" else None
    out[SIG_TOBS] = (shp == (4,), "time_steps end at 1.0, time_obs=[1.0, 1.0], equal grids: observe() shape %s (two observation times requested)" % (shp,))
    c = dict(_W_BASE, times=[0, 0.25, 0.5], tobs="all")
    ob = drive_td_direct(cuqi, c, p)
    bad = ob["stage"] == "run" and ob["obs"][0] == "err"
    out[SIG_SPL] = (bad, "3 time levels, time_obs='all', equal grids: observe() -> %s" % (ob["obs"][1] if bad else "ok"))
    c = dict(_W_BASE, times=[0, 0.25, 0.5], gobs=[0.5, 1.0])
    ob = drive_td_direct(cuqi, c, p)
    bad = ob["stage"] == "run" and ob["obs"][0] == "err"
    out[SIG_SPL2] = (bad, "3 time levels, time_obs='final', grid_obs = two of the four solution nodes: observe() -> %s" % (ob["obs"][1] if bad else "ok"))
    Ac = 1j * np.array(_W_AF["A0"], dtype=float)
    pde = cuqi.pde.TimeDependentLinearPDE(lambda par, t: (Ac, np.zeros(4), par), np.array([0.0, 0.25, 0.5]))
    pde.assemble(np.array([1.0, 2.0, 3.0, 4.0], dtype=complex))
    u = pde.solve()[0]
    want = np.array([1.0, 2.0, 3.0, 4.0], dtype=complex)
    for _ in range(2):
        want = want + 0.25 * (Ac @ want)
    bad = not (np.shape(u) == (4, 3) and np.allclose(u[:, -1], want, rtol=1e-12, atol=0))
    out[SIG_CPLX] = (bad, "forward Euler for u' = i*Lap u (complex operator and initial condition): final level %s, the recurrence gives %s" % (
        np.asarray(u)[:, -1].tolist(), want.tolist()))
    # final-time restriction of a solution with two space axes (n1, n2, nt): the stored last level, shape (n1, n2)
    pde = cuqi.pde.TimeDependentLinearPDE(lambda par, t: (np.eye(3), np.zeros(3), par), np.array([0.0, 0.5, 1.0]), grid_sol=np.arange(3.0))
    sol = np.arange(3 * 2 * 3, dtype=float).reshape(3, 2, 3)
    try:
        o = pde.observe(sol)
        bad, what = not (np.shape(o) == (3, 2) and np.array_equal(o, sol[..., -1])), "shape %s" % (np.shape(o),)
    except Exception as e:
        bad, what = True, "%s: %s" % (type(e).__name__, e)
    out[SIG_2DSQ] = (bad, "observe() of a (3, 2, 3) solution at the final time on equal grids -> %s (the last stored level has shape (3, 2))" % what)
    return out


def tree_quirks(cuqi):
    w = witness_runs(cuqi)
    return {"case": w[SIG_CASE][0], "single": w[SIG_SINGLE][0], "tobs": w[SIG_TOBS][0], "spline": w[SIG_SPL][0], "subgrid": w[SIG_SPL2][0]}, w


def known_witnesses(ctx):
    import cuqi
    return witness_runs(cuqi)


# ------------------------------------------------------------------------------------------------
# generators
# ------------------------------------------------------------------------------------------------
def rint(rng, lo, hi):
    return rng.randint(lo, hi)


def gen_af(rng, n, npar, role, tdep, steady=False):
    """role: which part of the PDE form the parameter enters (ic | source | operator | all)"""
    lap = [[(-2 if i == j else 1 if abs(i - j) == 1 else 0) for j in range(n)] for i in range(n)]
    A0 = [[lap[i][j] + (rng.choice([0, 0, 0, 1, -1]) if rng.random() < 0.3 else 0) for j in range(n)] for i in range(n)]
    if steady:
        A0 = [[(6 if i == j else 0) + A0[i][j] for j in range(n)] for i in range(n)]
    Z = [[0] * n for _ in range(n)]
    At = [[rng.choice([0, 0, 1, -1]) if (tdep and abs(i - j) <= 1) else 0 for j in range(n)] for i in range(n)] if tdep else Z
    bt = [rng.choice([0, 1, -1, 2]) for _ in range(n)] if tdep else [0] * n
    ct = [rng.choice([0, 1, -1]) for _ in range(n)] if tdep else [0] * n
    b0 = [rint(rng, -2, 2) for _ in range(n)]
    c0 = [rint(rng, -3, 3) for _ in range(n)]
    Zp = [[0] * npar for _ in range(n)]
    Ap, Bp, Cp = [], Zp, Zp
    if role in ("operator", "all"):
        Ap = [[[(rng.choice([1, -1]) if (i == j and (i % npar) == k) else 0) for j in range(n)] for i in range(n)] for k in range(npar)]
    if role in ("source", "all"):
        Bp = [[rng.choice([0, 1, -1, 2]) if (i % npar == k or rng.random() < 0.2) else 0 for k in range(npar)] for i in range(n)]
    if role in ("ic", "all"):
        Cp = [[(1 if i % npar == k else 0) + (rng.choice([1, -1]) if rng.random() < 0.15 else 0) for k in range(npar)] for i in range(n)]
    return {"A0": A0, "At": At, "Ap": Ap, "b0": b0, "bt": bt, "Bp": Bp, "c0": c0, "ct": ct, "Cp": Cp}


def gen_times(rng, kind, nt):
    t0 = rng.choice([0.0, 0.0, 0.5, -0.25])
    if kind == "uniform":
        dt = rng.choice([0.25, 0.125, 0.5])
        return [t0 + k * dt for k in range(nt)]
    ts = [t0]
    while len(ts) < nt:
        ts.append(ts[-1] + rng.choice([0.125, 0.25, 0.375, 0.5]))
    if len(set(np.diff(ts))) == 1 and nt > 2:
        ts[-1] += 0.125
    return ts


def gen_grid(rng, n):
    x0 = rng.choice([0.0, 0.5, -1.0])
    if rng.random() < 0.5:
        h = rng.choice([0.5, 0.25, 1.0])
        return [x0 + i * h for i in range(n)]
    g = [x0]
    while len(g) < n:
        g.append(g[-1] + rng.choice([0.25, 0.5, 0.75]))
    return g


GRID_RELS = ["none_none", "sol_only", "equal_copy", "subgrid", "same_len_shifted", "offnodes", "obs_only"]


def gen_grids(rng, n, rel):
    gs = gen_grid(rng, n)
    if rel == "none_none":
        return None, None
    if rel == "sol_only":
        return gs, None
    if rel == "equal_copy":
        return gs, list(gs)
    if rel == "subgrid":
        k = rng.randint(1, n - 1)
        return gs, sorted(rng.sample(gs, k))
    if rel == "same_len_shifted":
        go = list(gs)
        i = rng.randrange(n - 1)
        go[i] = (gs[i] + gs[i + 1]) / 2
        return gs, go
    if rel == "offnodes":
        k = rng.randint(1, 3)
        return gs, sorted((gs[i] + gs[i + 1]) / 2 if rng.random() < 0.7 else gs[i] for i in rng.sample(range(n - 1), min(k, n - 1)))
    if rel == "obs_only":
        return None, gs
    raise ValueError(rel)


TOBS_KINDS = ["final", "FINAL", "all", "All", "arr_final", "list_final", "arr_nodes", "arr_offnodes", "arr_mixed",
              "arr_final_twice", "arr_empty", "arr_one_node", "arr_unsorted", "badstr", "none"]


def gen_tobs(rng, kind, times):
    T = times[-1] if times else 0.0
    if kind in ("final", "FINAL", "all", "All"):
        return kind, True
    if kind == "Final":
        return "Final", True
    if kind == "arr_final":
        return [T], True
    if kind == "list_final":
        return [T], False
    if kind == "arr_nodes":
        k = rng.randint(2, max(2, len(times)))
        return sorted(rng.sample(times, min(k, len(times)))), True
    if kind == "arr_unsorted":
        k = rng.randint(2, max(2, len(times)))
        return sorted(rng.sample(times, min(k, len(times))), reverse=True), True
    if kind == "arr_one_node":
        return [rng.choice(times[:-1] if len(times) > 1 else times)], True
    if kind == "arr_offnodes":
        if len(times) < 2:
            return [T], True
        k = rng.randint(1, 2)
        return sorted((times[i] + times[i + 1]) / 2 for i in rng.sample(range(len(times) - 1), min(k, len(times) - 1))), True
    if kind == "arr_mixed":
        if len(times) < 2:
            return [T], True
        i = rng.randrange(len(times) - 1)
        return sorted({(times[i] + times[i + 1]) / 2, T}), True
    if kind == "arr_final_twice":
        return [T, T], True
    if kind == "arr_empty":
        return [], True
    if kind == "badstr":
        return rng.choice(["last", "finall", ""]), True
    if kind == "none":
        return None, True
    raise ValueError(kind)


def gen_omap(rng, kind, n):
    if kind == "scale":
        return ["scale", rng.choice([2.0, -0.5, 3.0])]
    if kind == "from":
        return ["from", rng.randint(1, 2)]
    if kind == "mat":
        return ["mat", "placeholder"]
    return [kind]


def fix_omap(rng, om, nrows):
    if om[0] == "mat":
        k = rng.randint(1, 2)
        return ["mat", [[rng.randint(-2, 2) for _ in range(nrows)] for _ in range(k)]]
    return om


def gen_p(rng, npar):
    return [rng.choice([-2, -1.5, -1, -0.5, 0.5, 1, 1.5, 2, 3]) for _ in range(npar)]


def well_conditioned(cfg, p):
    """real solvers: every system they will be handed must be comfortably regular"""
    try:
        if cfg.get("steady"):
            A, _, _ = fr_form(cfg["af"], p, 0.0)
            return np.linalg.cond(np.array(A, dtype=float)) < 1e3
        ts = cfg["times"]
        for k in range(1, len(ts)):
            A, _, _ = fr_form(cfg["af"], p, ts[k])
            M = np.eye(len(A)) - (ts[k] - ts[k - 1]) * np.array(A, dtype=float)
            if np.linalg.cond(M) > 1e3:
                return False
        return True
    except Exception:
        return False


# ---- value scale: the same problem with source and initial condition (hence the solution) multiplied by 2^vexp ----
VSCALES = [-60, -30, 30, 60]


def scale_af(af, vexp):
    f = 2.0 ** vexp
    out = dict(af)
    for k in ("b0", "bt", "c0", "ct"):
        out[k] = [f * v for v in af[k]]
    for k in ("Bp", "Cp"):
        out[k] = [[f * v for v in r] for r in af[k]]
    return out


def scalar_source_af(rng, af, npar):
    """the same form with a source that is one number (to be broadcast over the nodes)"""
    out = dict(af)
    out["b0"], out["bt"] = [rng.randint(-2, 2)], [rng.choice([0, 1, -1])]
    out["Bp"] = [[rng.choice([0, 1, -1]) for _ in range(npar)]]
    return out


def spd_af(rng, n, npar, steady):
    """symmetric operator: steady 4I - lap (positive definite), time dependent lap (negative definite), parameter in the source"""
    lap = [[(-2 if i == j else 1 if abs(i - j) == 1 else 0) for j in range(n)] for i in range(n)]
    A0 = [[(6 if i == j else 0) + lap[i][j] for j in range(n)] for i in range(n)] if steady else lap
    Z = [[0] * n for _ in range(n)]
    return {"A0": A0, "At": Z, "Ap": [], "b0": [rng.randint(-2, 2) for _ in range(n)], "bt": [rng.choice([0, 1, -1]) for _ in range(n)],
            "Bp": [[rng.choice([0, 1, -1]) for _ in range(npar)] for _ in range(n)], "c0": [rng.randint(-3, 3) for _ in range(n)], "ct": [0] * n,
            "Cp": [[1 if i % npar == k else 0 for k in range(npar)] for i in range(n)]}


# ---- DTYPE: the same integer / 0-1 valued data declared as int64, int32, bool, float32, float64, list, complex ----
def dtype_af(rng, n, npar, binary, steady):
    """integer-valued (binary: 0/1 valued) time-independent data, so that every component can be declared with any dtype"""
    if binary:
        A0 = [[1 if (abs(i - j) == 1 or (steady and i == j)) else 0 for j in range(n)] for i in range(n)]
        if steady:
            A0 = [[1 if j >= i else 0 for j in range(n)] for i in range(n)]           # unit upper triangular: regular, 0/1 valued
        b0 = [rng.choice([0, 1]) for _ in range(n)]
        c0 = [1 if n // 3 <= i < n - 1 else 0 for i in range(n)]                      # ((grid > a) & (grid < b)) style indicator
        Bp = [[0] * npar for _ in range(n)]
        Cp = [[0] * npar for _ in range(n)]
    else:
        lap = [[(-2 if i == j else 1 if abs(i - j) == 1 else 0) for j in range(n)] for i in range(n)]
        A0 = [[(6 if (steady and i == j) else 0) + lap[i][j] + (rng.choice([0, 1, -1]) if rng.random() < 0.2 else 0) for j in range(n)] for i in range(n)]
        b0 = [rng.randint(-3, 3) for _ in range(n)]
        c0 = [rng.randint(-4, 4) for _ in range(n)]
        Bp = [[rng.choice([0, 1, -1]) for _ in range(npar)] for _ in range(n)]
        Cp = [[1 if i % npar == k else 0 for k in range(npar)] for i in range(n)]
    Z = [[0] * n for _ in range(n)]
    return {"A0": A0, "At": Z, "Ap": [], "b0": b0, "bt": [0] * n, "Bp": Bp, "c0": c0, "ct": [0] * n, "Cp": Cp}


# ---- grid scale x grid perturbation (same length, different positions / same values in another array or dtype) ----
SCALES = [-40, -30, -20, -10, 0, 10, 20]
PERTS = [("rel", 10, "all"), ("rel", 20, "all"), ("rel", 30, "all"), ("rel", 20, "one"), ("rel", 30, "one"), ("abs", 30, "all"), ("abs", 40, "all"),
         ("copy",), ("float32",), ("int",)]
TSCALES = [-30, -10, 0, 10]
TPERTS = [20, 31, 40]


def pert_name(pt):
    return "-".join(str(x) for x in pt)


def scaled_grids(n, h, s_exp, pt, goff=0.0):
    """grid_sol = goff + 2^s_exp * (1, 1+h, ...); grid_obs per perturbation kind; None if the perturbation is not representable/inside"""
    s = 2.0 ** s_exp
    gs = [goff + s * (1 + i * h) for i in range(n)]
    dtype = None
    if pt[0] == "copy":
        go = list(gs)
    elif pt[0] == "float32":
        go, dtype = list(gs), "float32"
    elif pt[0] == "int":
        if s_exp < 0 or h != 1:
            go, dtype = list(gs), "float32"
        else:
            go, dtype = list(gs), "int64"
    else:
        go = list(gs)
        idx = range(n) if pt[2] == "all" else [n // 2]
        for i in idx:
            d = (gs[i] - goff) * 2.0 ** -pt[1] if pt[0] == "rel" else 2.0 ** -pt[1]
            go[i] = gs[i] - d if i == n - 1 else gs[i] + d
        if any(not (gs[0] <= v <= gs[-1]) for v in go) or any(b <= a for a, b in zip(go, go[1:])) or go == gs:
            return None
        if max(abs(a - b) for a, b in zip(gs, go)) > 0.25 * s * h:
            return None
    return gs, go, dtype


def poly_ss_cfg(rng, n, s_exp, pt, solver, goff=0.0):
    h = rng.choice([1, 0.5])
    g = scaled_grids(n, h, s_exp, pt, goff)
    if g is None:
        return None
    gs, go, dtype = g
    q = [rng.randint(-3, 3), rng.randint(-3, 3), rng.choice([-2, -1, 1, 2])]
    xi = [Fr(1) + Fr(h) * i for i in range(n)]
    I = [[1 if i == j else 0 for j in range(n)] for i in range(n)]
    Z = [[0] * n for _ in range(n)]
    af = {"A0": I, "At": Z, "Ap": [], "b0": [float(poly_eval(q, x)) for x in xi], "bt": [0] * n, "Bp": [[1]] * n, "c0": [0] * n, "ct": [0] * n,
          "Cp": [[0]] * n}
    return {"steady": True, "af": af, "solver": solver, "tag": 3, "gsol": gs, "gobs": go, "gobs_dtype": dtype, "omap": ["none"],
            "poly": {"s_exp": s_exp, "q": q, "pert": pert_name(pt), "goff": goff}}


def poly_td_cfg(rng, n, nt, s_exp, t_exp, pt, tp, method, solver, goff=0.0, toff=0.0):
    """A = 0, source q2(x/s)/ts constant in time, initial condition q1(x/s) + p_0: both Euler methods give
    u(x, t) = q1 + p_0 + (t - t0)/ts q2 exactly"""
    h = rng.choice([1, 0.5])
    g = scaled_grids(n, h, s_exp, pt, goff)
    if g is None:
        return None
    gs, go, dtype = g
    ts = 2.0 ** t_exp
    dts = [rng.choice([0.25, 0.5, 0.125]) for _ in range(nt - 1)]
    times = [0.0]
    for d in dts:
        times.append(times[-1] + d)
    times = [toff + ts * t for t in times]
    T, span = times[-1], times[-1] - times[0]
    if tp is None:
        tobs, tname = "final", "final"
    elif tp == "two":
        tobs, tname = [(times[1] + times[2]) / 2, T], "[mid, T]"
    else:
        tobs, tname = [T - span * 2.0 ** -tp], "[T - span*2^-%d]" % tp
        if tobs[0] == T:
            return None
    q1 = [rng.randint(-3, 3), rng.randint(-2, 2), rng.randint(-2, 2), rng.choice([-1, 1])]
    q2 = [rng.randint(-3, 3), rng.randint(-2, 2), rng.choice([-1, 0, 1]), rng.choice([-1, 1])]
    xi = [Fr(1) + Fr(h) * i for i in range(n)]
    Z = [[0] * n for _ in range(n)]
    af = {"A0": Z, "At": Z, "Ap": [], "b0": [float(poly_eval(q2, x) / Fr(ts)) for x in xi], "bt": [0] * n, "Bp": [[0]] * n,
          "c0": [float(poly_eval(q1, x)) for x in xi], "ct": [0] * n, "Cp": [[1]] * n}
    return {"af": af, "times": times, "method": method, "solver": solver, "tag": 3, "gsol": gs, "gobs": go, "gobs_dtype": dtype, "tobs": tobs,
            "omap": ["none"], "poly": {"s_exp": s_exp, "t_exp": t_exp, "q1": q1, "q2": q2, "pert": pert_name(pt), "tpert": tname, "goff": goff}}


# ------------------------------------------------------------------------------------------------
# case construction
# ------------------------------------------------------------------------------------------------
def enc_i2(rec):
    ent = []
    for e in rec.i2:
        if e["gs"] is None:
            continue
        out = e.get("out", ("err", "Unknown"))
        ent.append("(mkI2 %s %s %s %s %s %s)" % (
            qcv(e["gs"]), qcv(e["ts"]), clist([qcv(col) for col in np.asarray(e["sol"], dtype=float).T]) if np.ndim(e["sol"]) == 2 else "[]",
            qcv(e.get("go", [])), qcv(e.get("to", [])), cres(out, qcm)))
    return clist(ent)


def enc_i1(rec):
    ent = []
    for e in rec.i1:
        out = e.get("out", ("err", "Unknown"))
        ent.append("(mkI1 %s %s %s %s)" % (qcv(e["gs"]), qcv(e["sol"]), qcv(e.get("go", [])), cres(out, qcv)))
    return clist(ent)


def interp_args_ok(rec):
    """the interpolation must be the documented one: quadratic interp1d, default (cubic, s=0) RectBivariateSpline"""
    for e in rec.i1:
        if e["ctor_extra"] != ["()", "[('kind', 'quadratic')]"]:
            return False
    for e in rec.i2:
        if e["ctor_extra"] != ["()", "[]"] or e.get("call_extra", ["()", "[]"]) != ["()", "[]"]:
            return False
    return True


def solver_args_ok(cfg, rec):
    want = ["tag"] if cfg["solver"] in ("real_tuple", "fake_tuple") else ["rtol"] if cfg["solver"] == "cg_tuple" else []
    return all(c["extra_args"] == 0 and c["kw"] == want for c in rec.solver_calls)


def obs_tol(cfg, tol):
    """observation maps that multiply floats round; pure selections (none / u[0] / u[k:]) do not"""
    if cfg["omap"][0] in ("square", "scale", "mat"):
        return "12" if tol in ("0", "12") else tol
    return tol


def fill_interp_args(cfg, rec):
    """an interpolant whose CONSTRUCTOR refused never saw the evaluation points: they are what the object holds"""
    go = cfg["gobs"] if cfg.get("gobs") is not None else cfg.get("gsol")
    for e in rec.i1 + rec.i2:
        if "go" not in e and go is not None:
            e["go"] = list(go)
    for e in rec.i2:
        if "to" not in e:
            tob = cfg.get("tobs")
            times = cfg.get("times") or []
            e["to"] = [times[-1]] if (isinstance(tob, str) and tob.lower() == "final" and times) else list(times) if isinstance(tob, str) else list(tob or [])


def td_cfg_term(cfg, q, rec, tol, form_term=None):
    fill_interp_args(cfg, rec)
    return "(mkTD %s %s %s %s %s %s %s %s %s %s %s %s)" % (
        cquirks(q), form_term or cform(cfg["af"]), qcv(cfg["times"]), cmethod(cfg["method"]),
        csolver(cfg["solver"], cfg.get("tag", 0), rec.solver_calls), cgrid(cfg["gsol"]), cgrid(cfg["gobs"]), ctobs(cfg["tobs"]),
        comap(cfg["omap"]), enc_i2(rec), ctol(tol), ctol(obs_tol(cfg, tol)))


def ss_cfg_term(cfg, rec, tol, form_term=None):
    fill_interp_args(cfg, rec)
    return "(mkSC %s %s %s %s %s %s %s %s)" % (
        form_term or cform(cfg["af"]), csolver(cfg["solver"], cfg.get("tag", 0), rec.solver_calls), cgrid(cfg["gsol"]), cgrid(cfg["gobs"]),
        comap(cfg["omap"]), enc_i1(rec), ctol(tol), ctol(obs_tol(cfg, tol)))


def td_obs_term(ob):
    if ob["stage"] == "init":
        return "(TInitErr %s)" % ecode(ob["err"])
    if ob["stage"] == "solve":
        return "(TSolveErr %s)" % ecode(ob["err"])
    o = ob["obs"]
    ot = "(Ok (%s, %s))" % (cbool(ob["ninterp"] > 0), carr(o[1])) if o[0] == "ok" else "(Er %s)" % ecode(o[1])
    return "(TRun %s %s %s)" % (qcols(ob["u"]), cinfo(ob["info"]), ot)


def ss_obs_term(ob):
    if ob["stage"] == "solve":
        return "(SSolveErr %s)" % ecode(ob["err"])
    o = ob["obs"]
    ot = "(Ok (%s, %s))" % (cbool(ob["ninterp"] > 0), carr(o[1])) if o[0] == "ok" else "(Er %s)" % ecode(o[1])
    return "(SRun %s %s %s)" % (qcv(ob["sol"]), cinfo(ob["info"]), ot)


def td_tol(cfg, p):
    if cfg.get("tol"):
        return cfg["tol"]
    if exact_safe_td(cfg, p):
        return "0"
    return "12" if not cfg["solver"].startswith("fake") else "9"


def case_td_direct(cuqi, cfg, p, q, cell, trivial=False):
    ob = drive_td_direct(cuqi, cfg, p)
    tol = td_tol(cfg, p)
    rec = ob["rec"]
    ok_args = interp_args_ok(rec) and solver_args_ok(cfg, rec)
    dtype_ok, dmsg = result_dtype_ok(ob)
    expr = "check_td %s %s %s && %s && %s" % (td_cfg_term(cfg, q, rec, tol), qcv(p), td_obs_term(ob), cbool(ok_args), cbool(dtype_ok))
    f = oracle_td(cfg, p, ob, q)
    if f is None and not dtype_ok:
        f = (dmsg, "TimeDependentLinearPDE.solve")
    if f is None and not ok_args:
        f = ("solver/interpolation called with other arguments than documented: %s %s" % (
            [c["kw"] for c in rec.solver_calls][:2], [e["ctor_extra"] for e in rec.i1 + rec.i2][:2]), "LinearPDE.external-call-arguments")
    meta = {"kind": "td_direct", "cfg": cfg, "p": p}
    return Case(expr=expr, meta=meta, cell=cell, trivial=trivial or ob["stage"] == "init", kind="EXACT" if tol == "0" else "DECISION" if ob["stage"] != "run" else "EXACT",
                impl_fail=f[0] if f else None, signature=f[1] if f else "")


def result_dtype_ok(ob):
    """DECISION: the array of stored levels must be of a floating (or complex with zero imaginary part) dtype whenever the
    recurrence leaves the integers; an integer/bool array is acceptable only if every level is integer valued"""
    if ob["stage"] != "run":
        return True, ""
    u = ob["u"]
    integral = bool(np.all(u == np.round(u)))
    if ob["udtype"] not in "fc" and not integral:
        return False, "stored levels have dtype kind %r although they are not integers" % ob["udtype"]
    if ob["udtype"] not in "fc" and u.shape[1] > 1:
        return False, "stored levels have the non-floating dtype kind %r: later levels of the Euler recurrence cannot be represented (%s)" % (ob["udtype"], u[:, -1].tolist())
    if ob.get("uimag", 0.0) != 0.0:
        return False, "stored levels carry a non-zero imaginary part for real data"
    return True, ""


def model_output(r):
    if r[0] == "err":
        return r
    return ("ok", np.asarray(np.real(r[1]), dtype=float))


def cases_td_forward(cuqi, cfg, plist, a, d, q, cell):
    """PDEModel.forward, several calls on ONE model/PDE object; each call is a case.  cfg["reuse_input"]: the caller passes the
    same array object every time, overwritten in place between the calls"""
    out = []
    xbuf = np.zeros(len(plist[0]))
    rec = Recorder()
    with Patches(rec):
        r = outcome(lambda: mk_td(cuqi, cfg, rec))
        if r[0] == "err":       # these configurations are all valid: a refusing constructor is a failing input
            return [Case(expr="false", meta={"kind": "td_forward", "cfg": cfg, "plist": plist, "a": a, "d": d, "pos": 0}, cell=cell,
                         impl_fail="TimeDependentLinearPDE(method=%r, time_obs=%r, ...) refused by the constructor: %s" % (cfg["method"], cfg["tobs"], r[1]),
                         signature="TimeDependentLinearPDE.__init__")]
        pde = r[1]
        model = mk_model(cuqi, pde, len(plist[0]), a, d, swap=bool(cfg.get("swap_pde")))
        models = [(model, a, d)]
        if cfg.get("two_models"):       # a second model (other domain map) around the SAME PDE object, used in turn
            models.append((mk_model(cuqi, pde, len(plist[0]), 2, 1), 2, 1))
        prev = None
        alive = []
        for ci, x in enumerate(plist):
            model, a, d = models[ci % len(models)]
            rec.reset()
            if cfg.get("reuse_input"):
                xbuf[:] = x
                xin = xbuf
            else:
                xin = cast_par(cfg, x)
            raw = outcome(lambda: call_forward(model, xin, cfg.get("call_style")))
            o = model_output(raw)
            alive.append((len(out), raw[1] if raw[0] == "ok" and isinstance(raw[1], np.ndarray) else None,
                          np.array(raw[1], copy=True) if raw[0] == "ok" and isinstance(raw[1], np.ndarray) else None, np.array(xin, copy=True), cast_par(cfg, x)))
            pf = [a * v + d for v in x]
            tol = td_tol(cfg, pf)
            ok_args = interp_args_ok(rec) and solver_args_ok(cfg, rec)
            expr = "check_td_forward %s %s %s %s %s %s && %s" % (
                td_cfg_term(cfg, q, rec, tol), qcs(a), qcs(d), "None" if prev is None else "(Some %s)" % qcv(prev), qcv(x), cres(o, carr), cbool(ok_args))
            # oracle: a fresh PDE object driven by hand on par2fun(x)
            fail = None
            ob = drive_td_direct_unpatched(cuqi, cfg, pf)
            if ob["stage"] != "run" or ob["obs"][0] == "err":
                if o[0] != "err":
                    fail = "forward returned a value although assemble-solve-observe by hand fails"
            elif o[0] == "err" or not arr_close(o[1], ob["obs"][1], 1e-12):
                fail = "forward(x) = %s but observe(solve(assemble(par2fun(x)))) on a fresh object = %s (previous parameter %s)" % (
                    o[1] if o[0] == "err" else np.asarray(o[1]).ravel()[:8].tolist(), np.asarray(ob["obs"][1]).ravel()[:8].tolist(), prev)
            if fail is None and not ok_args:
                fail = "solver/interpolation called with other arguments than documented"
            sig = ""
            if fail:
                sig = "PDEModel._forward_func"
            else:
                f2 = oracle_td(cfg, pf, ob, q)
                if f2:
                    fail, sig = f2
            out.append(Case(expr=expr, meta={"kind": "td_forward", "cfg": cfg, "plist": plist, "a": a, "d": d, "pos": len(out)}, cell=cell,
                            impl_fail=fail, signature=sig))
            prev = pf
        keep_alive(out, alive)
    return out


def keep_alive(out, alive):
    """every output handed out by an earlier forward call, and every input array, is re-read after all later calls"""
    for pos, obj, copy, xin, xcopy in alive:
        if pos >= len(out) or out[pos].impl_fail:
            continue
        if obj is not None and not (obj.shape == copy.shape and np.array_equal(obj, copy, equal_nan=True)):
            out[pos].impl_fail = "the array returned by forward call %d was changed by a later call: %s -> %s" % (pos, copy.ravel()[:6].tolist(), obj.ravel()[:6].tolist())
            out[pos].signature = "PDEModel._forward_func"
        elif not np.array_equal(np.asarray(xin), np.asarray(xcopy)):
            out[pos].impl_fail = "forward call %d altered its input array: %s -> %s" % (pos, xcopy.tolist(), xin.tolist())
            out[pos].signature = "PDEModel._forward_func"


def drive_td_direct_unpatched(cuqi, cfg, p):
    """same as drive_td_direct but usable while an outer Patches context is active (restores it afterwards)"""
    saved = (scipy.linalg.solve, scipy.interpolate.RectBivariateSpline)
    import cuqi.pde._pde as pm
    s3 = pm.interp1d
    try:
        scipy.linalg.solve, scipy.interpolate.RectBivariateSpline, pm.interp1d = REAL_SOLVE, REAL_RBS, REAL_INTERP1D
        return drive_td_direct(cuqi, cfg, p)
    finally:
        scipy.linalg.solve, scipy.interpolate.RectBivariateSpline = saved
        pm.interp1d = s3


def drive_ss_direct_unpatched(cuqi, cfg, p):
    saved = (scipy.linalg.solve, scipy.interpolate.RectBivariateSpline)
    import cuqi.pde._pde as pm
    s3 = pm.interp1d
    try:
        scipy.linalg.solve, scipy.interpolate.RectBivariateSpline, pm.interp1d = REAL_SOLVE, REAL_RBS, REAL_INTERP1D
        return drive_ss_direct(cuqi, cfg, p)
    finally:
        scipy.linalg.solve, scipy.interpolate.RectBivariateSpline = saved
        pm.interp1d = s3


def case_ss_direct(cuqi, cfg, p, cell, assembled=True):
    ob = drive_ss_direct(cuqi, cfg, p, assemble=assembled)
    tol = "0" if cfg["solver"].startswith("fake") else "12"
    rec = ob["rec"]
    ok_args = interp_args_ok(rec) and solver_args_ok(cfg, rec)
    expr = "check_ss %s %s %s %s && %s" % (ss_cfg_term(cfg, rec, tol), cbool(assembled), qcv(p), ss_obs_term(ob), cbool(ok_args))
    f = oracle_ss(cfg, p, ob, assembled)
    if f is None and not ok_args:
        f = ("solver/interpolation called with other arguments than documented", "LinearPDE.external-call-arguments")
    return Case(expr=expr, meta={"kind": "ss_direct", "cfg": cfg, "p": p, "assembled": assembled}, cell=cell, trivial=not assembled,
                impl_fail=f[0] if f else None, signature=f[1] if f else "")


def cases_ss_forward(cuqi, cfg, plist, a, d, cell):
    out = []
    xbuf = np.zeros(len(plist[0]))
    rec = Recorder()
    with Patches(rec):
        pde = mk_ss(cuqi, cfg, rec)
        model = mk_model(cuqi, pde, len(plist[0]), a, d, swap=bool(cfg.get("swap_pde")))
        models = [(model, a, d)]
        if cfg.get("two_models"):
            models.append((mk_model(cuqi, pde, len(plist[0]), 2, 1), 2, 1))
        prev = None
        alive = []
        for ci, x in enumerate(plist):
            model, a, d = models[ci % len(models)]
            rec.reset()
            if cfg.get("reuse_input"):
                xbuf[:] = x
                xin = xbuf
            else:
                xin = cast_par(cfg, x)
            raw = outcome(lambda: call_forward(model, xin, cfg.get("call_style")))
            o = model_output(raw)
            own = raw[0] == "ok" and isinstance(raw[1], np.ndarray) and cfg["solver"] != "real_buffer"
            alive.append((len(out), raw[1] if own else None, np.array(raw[1], copy=True) if own else None, np.array(xin, copy=True), cast_par(cfg, x)))
            pf = [a * v + d for v in x]
            tol = cfg.get("tol") or ("0" if cfg["solver"].startswith("fake") else "12")
            ok_args = interp_args_ok(rec) and solver_args_ok(cfg, rec)
            expr = "check_ss_forward %s %s %s %s %s %s && %s" % (
                ss_cfg_term(cfg, rec, tol), qcs(a), qcs(d), "None" if prev is None else "(Some %s)" % qcv(prev), qcv(x), cres(o, carr), cbool(ok_args))
            ob = drive_ss_direct_unpatched(cuqi, cfg, pf)
            fail, sig = None, ""
            if ob["stage"] != "run" or ob["obs"][0] == "err":
                if o[0] != "err":
                    fail = "forward returned a value although assemble-solve-observe by hand fails"
            elif o[0] == "err" or not arr_close(o[1], ob["obs"][1], 1e-12):
                fail = "forward(x) = %s but observe(solve(assemble(par2fun(x)))) on a fresh object = %s (previous parameter %s)" % (
                    o[1] if o[0] == "err" else np.asarray(o[1]).ravel()[:8].tolist(), np.asarray(ob["obs"][1]).ravel()[:8].tolist(), prev)
            if fail:
                sig = "PDEModel._forward_func"
            else:
                f2 = oracle_ss(cfg, pf, ob)
                if f2:
                    fail, sig = f2
            out.append(Case(expr=expr, meta={"kind": "ss_forward", "cfg": cfg, "plist": plist, "a": a, "d": d, "pos": len(out)}, cell=cell,
                            impl_fail=fail, signature=sig))
            prev = pf
        keep_alive(out, alive)
    return out


# ---------------- observe() alone on exactly bicubic data; the oracle laws of scipy's interpolants ----------------
def bicubic(rng):
    return [[rng.randint(-2, 2) if (a + b) <= 4 else rng.choice([0, 1, -1]) for b in range(4)] for a in range(4)]


def bicubic_eval(C, x, t):
    x, t = frac(float(x)), frac(float(t))
    return sum(Fr(C[a][b]) * x ** a * t ** b for a in range(4) for b in range(4))


def case_observe_poly(cuqi, rng, q, rel, tkind, om0):
    """the caller hands observe() samples of a polynomial of degree <= 3 in x and in t: a bicubic interpolating spline reproduces
    it, so the exact answer at any (grid_obs, time_obs) is known"""
    n, nt = rng.randint(4, 6), rng.randint(4, 6)
    times = gen_times(rng, rng.choice(["uniform", "nonuniform"]), nt)
    gs, go = gen_grids(rng, n, rel)
    tobs, as_arr = gen_tobs(rng, tkind, times)
    om = fix_omap(rng, gen_omap(rng, om0, n), n if go is None else len(go))
    C = bicubic(rng)
    U = np.array([[float(bicubic_eval(C, x, t)) for t in times] for x in gs])
    cfg = {"af": None, "times": times, "method": "forward_euler", "solver": "default", "tag": 0, "gsol": gs, "gobs": go, "tobs": tobs, "tobs_as_array": as_arr, "omap": om}
    rec = Recorder()
    with Patches(rec):
        pde = mk_td(cuqi, cfg, rec, form=lambda p, t: (np.eye(n), np.zeros(n), np.zeros(n)))
        keep = U.copy()
        o = outcome(lambda: pde.observe(U))
    tl = [times[-1]] if isinstance(tobs, str) and tobs.lower() == "final" else list(times) if isinstance(tobs, str) else list(tobs)
    gl = gs if go is None else go
    fail = None
    coincide = all(idx_of(x, gs) is not None for x in gl) and all(idx_of(t, times) is not None for t in tl)
    unsorted_ = any(b < a for a, b in zip(tl, tl[1:])) or any(b < a for a, b in zip(gl, gl[1:]))
    if o[0] == "ok":
        E = np.array([[float(bicubic_eval(C, x, t)) for t in tl] for x in gl])
        pm = pymap(om)
        try:
            if len(tl) == 1:
                E = np.asarray(pm(E[:, 0]) if pm else E[:, 0], dtype=float)
            else:
                E = np.asarray(pm(E) if pm else E, dtype=float)
            if not arr_close(o[1], E, 1e-10, obs_floor(cfg, U)):
                fail = ("observe() of samples of a bicubic polynomial on a %dx%d grid: got %s, the polynomial at (grid_obs, time_obs) is %s" % (
                    n, nt, np.asarray(o[1]).ravel()[:6].tolist(), E.ravel()[:6].tolist()), "TimeDependentLinearPDE.observe")
        except Exception:
            pass
    elif coincide:
        fail = ("observe() raised %s although every observation node and time is a stored one" % o[1], SIG_SPL if grids_identical(gs, go) else SIG_SPL2)
    elif not unsorted_:
        fail = ("observe() raised %s on a %dx%d grid" % (o[1], n, nt), "TimeDependentLinearPDE.observe")
    if not np.array_equal(U, keep):
        fail = ("observe() altered the solution array it was given", "TimeDependentLinearPDE.observe")
    ot = "(Ok (%s, %s))" % (cbool(len(rec.i2) > 0), carr(o[1])) if o[0] == "ok" else "(Er %s)" % ecode(o[1])
    expr = "check_td_observe %s %s %s %s %s %s %s %s %s %s && %s" % (cquirks(q), cgrid(gs), cgrid(go), qcv(times), ctobs(tobs), comap(om), enc_i2(rec), ctol("12"),
                                                                  qcols(U), ot, cbool(interp_args_ok(rec)))
    return Case(expr=expr, meta={"kind": "observe_poly", "rel": rel, "tkind": tkind, "omap": om, "times": times, "gsol": gs, "gobs": go, "tobs": tobs, "C": C},
                cell="td/observe-bicubic/%s/%s/%s" % (rel, tkind, om[0]), impl_fail=fail[0] if fail else None, signature=fail[1] if fail else "")


def case_oracle_law(rng, which):
    """the laws the model assumes of scipy's interpolants, checked on scipy itself on every run (independent of cuqi):
    RectBivariateSpline (default kx=ky=3, s=0) reproduces polynomials of degree <= 3 in each variable on >= 4x4 grids, is exact
    at the nodes, and equals the tensor product of two one-dimensional interpolating cubic splines (own B-spline code);
    interp1d(kind='quadratic') reproduces quadratics on >= 3 nodes and is exact at the nodes"""
    fail = None
    if which == "rbs":
        n, nt = rng.randint(4, 7), rng.randint(4, 7)
        x, t = gen_grid(rng, n), gen_times(rng, "nonuniform", nt)
        C = bicubic(rng)
        U = np.array([[float(bicubic_eval(C, a, b)) for b in t] for a in x])
        xo = sorted(rng.uniform(x[0], x[-1]) for _ in range(3)) + [x[1]]
        to = sorted(rng.uniform(t[0], t[-1]) for _ in range(2)) + [t[-1]]
        xo, to = sorted(xo), sorted(to)
        R = REAL_RBS(x, t, U)(xo, to)
        E = np.array([[float(bicubic_eval(C, a, b)) for b in to] for a in xo])
        W = np.array([[rng.randint(-9, 9) for _ in t] for _ in x], dtype=float)      # arbitrary data: node exactness + tensor structure
        RW = REAL_RBS(x, t, W)
        T = spline_interp(t, spline_interp(x, W, 3, xo).T, 3, to).T
        m = float(np.max(np.abs(U)))
        if not np.all(np.abs(R - E) <= 1e-10 * m):
            fail = "RectBivariateSpline does not reproduce a bicubic polynomial on a %dx%d grid (max error %.3g)" % (n, nt, float(np.max(np.abs(R - E))))
        elif not np.all(np.abs(RW(x, t) - W) <= 1e-10 * 9):
            fail = "RectBivariateSpline is not exact at its nodes"
        elif not np.all(np.abs(RW(xo, to) - T) <= 1e-9 * 9):
            fail = "RectBivariateSpline differs from the tensor product of two 1-d interpolating cubic splines"
        meta = {"kind": "law", "which": which, "x": x, "t": t}
    else:
        n = rng.randint(3, 7)
        x = gen_grid(rng, n)
        q2 = [rng.randint(-3, 3) for _ in range(3)]
        y = np.array([float(poly_eval(q2, frac(a))) for a in x])
        xo = [rng.uniform(x[0], x[-1]) for _ in range(4)]                              # any order
        R = REAL_INTERP1D(x, y, kind="quadratic")(xo)
        E = np.array([float(poly_eval(q2, frac(float(a)))) for a in xo])
        w = np.array([rng.randint(-9, 9) for _ in x], dtype=float)
        if not np.all(np.abs(R - E) <= 1e-10 * float(np.max(np.abs(y)) + 1e-300)):
            fail = "interp1d(kind='quadratic') does not reproduce a quadratic on %d nodes" % n
        elif not np.all(np.abs(REAL_INTERP1D(x, w, kind="quadratic")(x) - w) <= 1e-10 * 9):
            fail = "interp1d(kind='quadratic') is not exact at its nodes"
        meta = {"kind": "law", "which": which, "x": x}
    return Case(expr="true", meta=meta, cell="oracle-law/%s" % which, kind="DECISION", impl_fail=fail, signature="scipy-oracle-law|%s" % which if fail else "")


# ---------------- round-4 lesson families ----------------
def finish_td(pde, rec):
    """solve() + observe() on an existing object -> observation record (as drive_td_direct)"""
    r = outcome(pde.solve)
    if r[0] == "err":
        return {"stage": "solve", "err": r[1], "rec": rec}
    u_raw, info = r[1]
    u = np.array(np.real(u_raw), dtype=float)
    o = outcome(lambda: pde.observe(u_raw))
    if o[0] == "ok":
        o = ("ok", np.real(o[1]))
    return {"stage": "run", "u": u, "udtype": np.asarray(u_raw).dtype.kind, "uimag": 0.0, "info": info_list(info), "obs": o, "ninterp": len(rec.i2), "rec": rec,
            "time_obs": tobs_of(pde), "grids_equal": bool(pde.grids_equal)}


def case_lifecycle_td(cuqi, rng, q, sk):
    """L14: the refusals (solve before assemble, invalid method) in every life-cycle state, and the state they leave behind"""
    n, npar = rng.randint(3, 4), 2
    for attempt in range(20):
        cfg = {"af": gen_af(rng, n, npar, "all", True), "times": gen_times(rng, "nonuniform", 4), "method": "forward_euler", "solver": sk, "tag": 3,
               "gsol": None, "gobs": None, "tobs": "final", "omap": ["none"]}
        cfg2 = dict(cfg, method="backward_euler")
        p = gen_p(rng, npar)
        if sk.startswith("fake") or well_conditioned(cfg2, p):
            break
    rec = Recorder()
    notes = []
    with Patches(rec):
        pde = mk_td(cuqi, cfg, rec)
        r0 = outcome(pde.solve)                                      # fresh: refused
        notes.append(("solve() on a fresh object", r0 == ("err", "AttributeError")))
        pde.assemble(np.array(p))
        ob1 = finish_td(pde, rec)
        rb = outcome(lambda: setattr(pde, "method", "euler"))       # refused in the state "after solve"
        notes.append(("method='euler' after a solve is refused with ValueError", rb == ("err", "ValueError")))
        notes.append(("the refused assignment left method unchanged", pde.method == "forward_euler"))
        rec.reset()
        ob2 = finish_td(pde, rec)
        notes.append(("solve() after the refused assignment repeats the forward-Euler levels",
                      ob1["stage"] == "run" and ob2["stage"] == "run" and np.array_equal(ob1["u"], ob2["u"])))
        pde.method = "backward_euler"                                  # accepted: the next solve is backward Euler
        rb2 = outcome(lambda: setattr(pde, "method", ""))
        notes.append(("method='' after a change is refused", rb2 == ("err", "ValueError") and pde.method == "backward_euler"))
        rec.reset()
        ob3 = finish_td(pde, rec)
    bad = [m for m, ok in notes if not ok]
    tol2, tol3 = td_tol(cfg, p), td_tol(cfg2, p)
    expr = "check_td %s %s %s && check_td %s %s %s && %s" % (td_cfg_term(cfg, q, Recorder(), tol2), qcv(p), td_obs_term(ob2),
                                                           td_cfg_term(cfg2, q, rec, tol3), qcv(p), td_obs_term(ob3), cbool(not bad))
    f = oracle_td(cfg, p, ob2, q) or oracle_td(cfg2, p, ob3, q)
    if f is None and bad:
        f = ("life cycle of a TimeDependentLinearPDE object: " + "; ".join(bad), "TimeDependentLinearPDE.method")
    return Case(expr=expr, meta={"kind": "lifecycle", "cfg": cfg, "p": p}, cell="td/lifecycle/%s" % sk, impl_fail=f[0] if f else None, signature=f[1] if f else "")


def case_lifecycle_ss(cuqi, rng, sk):
    n, npar = rng.randint(3, 4), 2
    for attempt in range(20):
        cfg = {"steady": True, "af": gen_af(rng, n, npar, "all", False, steady=True), "solver": sk, "tag": 3, "gsol": None, "gobs": None, "omap": ["none"]}
        p1, p2 = gen_p(rng, npar), gen_p(rng, npar)
        if sk.startswith("fake") or (well_conditioned(cfg, p1) and well_conditioned(cfg, p2)):
            break
    rec = Recorder()
    notes = []
    with Patches(rec):
        pde = mk_ss(cuqi, cfg, rec)
        notes.append(("solve() on a fresh object is refused", outcome(pde.solve) == ("err", "Exception")))
        notes.append(("a second solve() on the still unassembled object is refused too", outcome(pde.solve) == ("err", "Exception")))
        pde.assemble(np.array(p1))
        pde.solve()
        pde.assemble(np.array(p2))
        rec.reset()
        r = outcome(pde.solve)
        sol, info = r[1]
        sol = np.array(sol, dtype=float)
        ob = {"stage": "run", "sol": sol, "info": info_list(info), "obs": outcome(lambda: pde.observe(sol)), "ninterp": len(rec.i1), "rec": rec}
    bad = [m for m, ok in notes if not ok]
    tol = "0" if sk.startswith("fake") else "12"
    expr = "check_ss %s true %s %s && %s" % (ss_cfg_term(cfg, rec, tol), qcv(p2), ss_obs_term(ob), cbool(not bad))
    f = oracle_ss(cfg, p2, ob, True)
    if f is None and bad:
        f = ("life cycle of a SteadyStateLinearPDE object: " + "; ".join(bad), "SteadyStateLinearPDE.solve")
    return Case(expr=expr, meta={"kind": "lifecycle_ss", "cfg": cfg, "p": p2}, cell="ss/lifecycle/%s" % sk, impl_fail=f[0] if f else None, signature=f[1] if f else "")


def case_gradient_reused(cuqi, rng, have_g, have_j, instance_attr):
    """L15 / L23: gradient called repeatedly with the SAME direction and wrt array objects, overwritten in place between the calls;
    the PDE's gradient callables given as class attributes or as attributes of the instance"""
    nout, npar = rng.choice([(3, 3), (4, 2), (2, 4)])
    mk = lambda: [[rng.randint(-2, 2) for _ in range(npar)] for _ in range(nout)]
    G, J = (mk(), mk()), (mk(), mk())
    gfun = lambda direction, wrt: np.asarray(direction) @ (np.array(G[0], float) + wrt[0] * np.array(G[1], float))
    jfun = lambda wrt: np.array(J[0], float) + wrt[0] * np.array(J[1], float)
    ns = {}
    if not instance_attr:
        if have_g:
            ns["gradient_wrt_parameter"] = lambda self, direction, wrt: gfun(direction, wrt)
        if have_j:
            ns["jacobian_wrt_parameter"] = lambda self, wrt: jfun(wrt)
    cls = type("UserPDE", (cuqi.pde.SteadyStateLinearPDE,), ns)
    pde = cls(lambda p: (np.eye(nout), np.ones(nout)))
    if instance_attr:
        if have_g:
            pde.gradient_wrt_parameter = gfun
        if have_j:
            pde.jacobian_wrt_parameter = jfun
    model = cuqi.model.PDEModel(pde, cuqi.geometry.Continuous1D(nout), cuqi.geometry.Continuous1D(npar))
    dbuf, wbuf = np.zeros(nout), np.zeros(npar)
    exprs, fail = [], None
    enc = lambda M: "None" if M is None else "(Some (%s, %s))" % (qcm(M[0]), qcm(M[1]))
    w0 = [rng.choice([-1, 0.5, 1, 2]) for _ in range(npar)]
    seq = [([rng.choice([-1, 0.5, 1, 2]) for _ in range(nout)], w0), ([rng.choice([-1, 0.5, 1, 2]) for _ in range(nout)], [w0[0] + 1] + w0[1:]),
           ([rng.choice([-1, 0.5, 1, 2]) for _ in range(nout)], w0)]
    for d_, w_ in seq:
        dbuf[:] = d_
        wbuf[:] = w_
        o = outcome(lambda: np.array(model.gradient(dbuf, wbuf), dtype=float))
        want = ("ok", gfun(d_, np.array(w_))) if have_g else ("ok", np.array(d_) @ jfun(np.array(w_))) if have_j else ("err", "NotImplementedError")
        if fail is None and (want[0] != o[0] or (want[0] == "err" and o[1] != want[1]) or (want[0] == "ok" and not arr_close(o[1], want[1], 1e-12))):
            fail = "gradient(direction=%s, wrt=%s) with reused argument arrays = %s, the PDE's own direction-Jacobian product is %s" % (
                d_, w_, o[1] if o[0] == "err" else o[1].tolist(), want[1] if want[0] == "err" else want[1].tolist())
        if not (np.array_equal(dbuf, d_) and np.array_equal(wbuf, w_)):
            fail = fail or "gradient() altered its argument arrays"
        exprs.append("check_gradient %s %s %s %s %s %s %s" % (enc(G if have_g else None), enc(J if have_j else None), qcs(1), qcs(0), qcv(d_), qcv(w_), cres(o, qcv)))
    return Case(expr=" && ".join(exprs), meta={"kind": "gradient_reused", "have_g": have_g, "have_j": have_j, "instance": instance_attr, "G": G, "J": J, "seq": seq},
                cell="gradient/reused-arguments/%s%s/%s" % ("g" if have_g else "-", "j" if have_j else "-", "instance-attr" if instance_attr else "class-attr"),
                impl_fail=fail, signature="PDEModel._gradient_func" if fail else "")


def cases_forward_samples(cuqi, rng, sk, ns, kind):
    """L16 / L21: the model applied to a composite input -- a Samples object of ns parameter vectors (ns = 1 included; two columns nearly
    identical) or a CUQIarray: every column is the assemble-solve-observe pipeline of that column"""
    n, npar = rng.randint(3, 4), 2
    for attempt in range(30):
        cfg = {"steady": True, "af": gen_af(rng, n, npar, "all", False, steady=True), "solver": sk, "tag": 0, "gsol": None, "gobs": None, "omap": ["none"], "tol": "12"}
        cols = [gen_p(rng, npar) for _ in range(ns)]
        if ns >= 3:
            cols[2] = [cols[1][0] * (1 + 2.0 ** -20), cols[1][1]]
        if sk.startswith("fake") or all(well_conditioned(cfg, c) for c in cols):
            break
    rec = Recorder()
    with Patches(rec):
        pde = mk_ss(cuqi, cfg, rec)
        dom = cuqi.geometry.Continuous1D(npar)
        model = cuqi.model.PDEModel(pde, cuqi.geometry.Continuous1D(n), dom)
        X = np.array(cols, dtype=float).T
        if kind == "samples":
            r = outcome(lambda: model.forward(cuqi.samples.Samples(X.copy(), geometry=dom)))
            outs = ("ok", np.asarray(r[1].samples, dtype=float)) if r[0] == "ok" and isinstance(r[1], cuqi.samples.Samples) else ("err", r[1] if r[0] == "err" else "NotSamples")
        else:
            r = outcome(lambda: model.forward(cuqi.array.CUQIarray(X[:, 0].copy(), geometry=dom)))
            outs = ("ok", np.asarray(r[1], dtype=float).reshape(-1, 1)) if r[0] == "ok" and isinstance(r[1], cuqi.array.CUQIarray) else ("err", r[1] if r[0] == "err" else "NotCUQIarray")
        calls = list(rec.solver_calls)
    out = []
    ncol = ns if kind == "samples" else 1
    for j in range(ncol):
        recj = Recorder()
        recj.solver_calls = calls[j:j + 1] if not sk.startswith("fake") else []
        o = ("ok", outs[1][:, j]) if outs[0] == "ok" and outs[1].shape == (n, ncol) else ("err", outs[1] if outs[0] == "err" else "WrongShape")
        expr = "check_ss_forward %s %s %s None %s %s" % (ss_cfg_term(cfg, recj, "0" if sk.startswith("fake") else "12"), qcs(1), qcs(0), qcv(cols[j]), cres(o, carr))
        ob = drive_ss_direct(cuqi, cfg, cols[j])
        fail, sig = None, ""
        if o[0] == "err" or ob["stage"] != "run" or not arr_close(o[1], ob["obs"][1], 1e-13):
            fail = "forward(%s of %d parameter vectors): column %d = %s, the pipeline for that column gives %s" % (
                kind, ncol, j, o[1] if o[0] == "err" else o[1].tolist(), ob["obs"][1].tolist() if ob["stage"] == "run" else ob.get("err"))
            sig = "PDEModel._forward_func"
        else:
            f2 = oracle_ss(cfg, cols[j], ob)
            if f2:
                fail, sig = f2
        out.append(Case(expr=expr, meta={"kind": "forward_samples", "cfg": cfg, "cols": cols, "col": j, "input": kind}, cell="ss/forward-%s/Ns=%d/%s" % (kind, ncol, sk),
                        impl_fail=fail, signature=sig))
    return out


def case_custom_pde(cuqi, rng):
    """L24: a user PDE that derives directly from cuqi.pde.PDE (not from LinearPDE): PDEModel's output and gradient are those of ITS
    assemble / solve / observe and of ITS Jacobian"""
    n, npar = rng.randint(3, 5), rng.randint(2, 3)
    Mm = np.array([[rng.randint(-2, 2) for _ in range(npar)] for _ in range(n)], dtype=float)
    c = np.array([rng.randint(-2, 2) for _ in range(n)], dtype=float)
    idx = sorted(rng.sample(range(n), rng.randint(1, n)))
    log = []

    class UserPDE(cuqi.pde.PDE):
        def assemble(self, parameter):
            log.append("assemble")
            self._rhs = Mm @ np.asarray(parameter) + c

        def solve(self):
            log.append("solve")
            return 2 * self._rhs, ("user-info",)

        def observe(self, solution):
            log.append("observe")
            return solution[idx]

        def jacobian_wrt_parameter(self, wrt):
            return 2 * Mm[idx] * (1 + wrt[0])
    pde = UserPDE(None)
    model = cuqi.model.PDEModel(pde, cuqi.geometry.Continuous1D(len(idx)), cuqi.geometry.Continuous1D(npar))
    fail = None
    for x in [gen_p(rng, npar), gen_p(rng, npar)]:
        del log[:]
        o = outcome(lambda: np.asarray(model.forward(np.array(x)), dtype=float))
        want = (2 * (Mm @ np.array(x) + c))[idx]
        if o[0] != "ok" or not np.array_equal(o[1], want) or log != ["assemble", "solve", "observe"]:
            fail = fail or "PDEModel around a direct subclass of cuqi.pde.PDE: forward(%s) = %s with calls %s; its assemble-solve-observe gives %s" % (x, o[1] if o[0] == "err" else o[1].tolist(), log, want.tolist())
        d_ = [rng.choice([-1, 0.5, 2]) for _ in idx]
        g = outcome(lambda: np.asarray(model.gradient(np.array(d_), np.array(x)), dtype=float))
        wantg = np.array(d_) @ (2 * Mm[idx] * (1 + x[0]))
        if g[0] != "ok" or not arr_close(g[1], wantg, 1e-13):
            fail = fail or "PDEModel around a direct subclass of cuqi.pde.PDE: gradient = %s, direction @ its Jacobian = %s" % (g[1] if g[0] == "err" else g[1].tolist(), wantg.tolist())
    return Case(expr="true", meta={"kind": "custom_pde", "M": Mm.tolist(), "idx": idx}, cell="custom-PDE-subclass", kind="DECISION", impl_fail=fail,
                signature="PDEModel._forward_func" if fail else "")


def case_tp_defaults(cuqi, which):
    """L22: the shipped defaults of the PDE test problems (dim=128, endpoint=1, max_time=0.2), not only the small sizes of the other cells"""
    fail = None
    with ScriptedRandom(seed=1):
        if which == "Heat1D":
            tp = cuqi.testproblem.Heat1D()
            N = 128
            dx = 1.0 / (N + 1)
            Dxx = (np.diag(-2 * np.ones(N)) + np.diag(np.ones(N - 1), -1) + np.diag(np.ones(N - 1), 1)) / dx ** 2
            t = np.linspace(0, 0.2, int(0.2 / (5 / 11 * dx ** 2)) + 1)
            x = np.sin(np.pi * np.linspace(dx, 1, N, endpoint=False)) + 0.25
            u = x.copy()
            for k in range(len(t) - 1):
                u = u + (t[k + 1] - t[k]) * (Dxx @ u)
            want = u
        else:
            tp = cuqi.testproblem.Poisson1D()
            N = 127
            dx = 1.0 / N
            Dx = -np.diag(np.ones(N), 0) + np.diag(np.ones(N - 1), 1)
            e0 = np.zeros(N)
            e0[0] = 1
            Dx = np.concatenate([e0.reshape(1, -1), Dx], axis=0) / dx
            x = 1.0 + 0.5 * np.cos(3 * np.linspace(0, 1, 128))
            want = REAL_SOLVE(Dx.T @ np.diag(x) @ Dx, 10 * np.exp(-((np.linspace(dx, 1, N, endpoint=False) - 0.5) ** 2) / 0.02))
    o = outcome(lambda: np.asarray(tp.model.forward(x), dtype=float))
    if o[0] != "ok" or not arr_close(o[1], want, 1e-9):
        fail = "%s() with its shipped defaults: model.forward differs from the documented discretisation (%s)" % (
            which, o[1] if o[0] == "err" else "max deviation %.3g of %.3g" % (float(np.max(np.abs(o[1] - want))) if np.shape(o[1]) == np.shape(want) else float("nan"), float(np.max(np.abs(want)))))
    return Case(expr="true", meta={"kind": "tp_defaults", "which": which}, cell="testproblem/%s/shipped-defaults" % which, kind="DECISION", impl_fail=fail,
                signature="%s.model" % which if fail else "")


def case_observe_int(cuqi, rng, q, tkind):
    """L20: observe() handed an INTEGER-dtype solution array (integer grids and times), interpolated at half-integer points"""
    n, nt = rng.randint(4, 6), rng.randint(4, 6)
    gs, times = [float(i) for i in range(n)], [float(k) for k in range(nt)]
    go = [g + 0.5 for g in gs[:-1]]
    tobs = "final" if tkind == "final" else [times[1] + 0.5, times[-1]]
    C = bicubic(rng)
    U = np.array([[int(bicubic_eval(C, x, t)) for t in times] for x in gs], dtype=np.int64)
    cfg = {"af": None, "times": times, "method": "forward_euler", "solver": "default", "tag": 0, "gsol": gs, "gobs": go, "tobs": tobs, "omap": ["none"]}
    rec = Recorder()
    with Patches(rec):
        pde = mk_td(cuqi, cfg, rec, form=lambda p, t: (np.eye(n), np.zeros(n), np.zeros(n)))
        o = outcome(lambda: np.asarray(pde.observe(U)))
    tl = [times[-1]] if tobs == "final" else tobs
    E = np.array([[float(bicubic_eval(C, x, t)) for t in tl] for x in go])
    if len(tl) == 1:
        E = E[:, 0]
    fail = None
    if o[0] != "ok" or o[1].dtype.kind != "f" or not arr_close(o[1], E, 1e-10, float(np.max(np.abs(U)))):
        fail = "observe() of an int64 solution array at half-integer points: %s (dtype %s), the bicubic polynomial there is %s" % (
            o[1] if o[0] == "err" else o[1].ravel()[:6].tolist(), getattr(o[1], "dtype", None), E.ravel()[:6].tolist())
    ot = "(Ok (%s, %s))" % (cbool(len(rec.i2) > 0), carr(o[1])) if o[0] == "ok" else "(Er %s)" % ecode(o[1])
    expr = "check_td_observe %s %s %s %s %s OMNone %s %s %s %s" % (cquirks(q), cgrid(gs), cgrid(go), qcv(times), ctobs(tobs), enc_i2(rec), ctol("12"), qcols(U.astype(float)), ot)
    return Case(expr=expr, meta={"kind": "observe_int", "C": C, "n": n, "nt": nt, "tkind": tkind}, cell="td/observe-int-solution/%s" % tkind,
                impl_fail=fail, signature="TimeDependentLinearPDE.observe" if fail else "")


# ---------------- complex-valued problems, modelled through the real embedding z -> (Re z, Im z) ----------------
def emb_m(M):
    M = np.asarray(M, dtype=complex)
    return np.block([[M.real, -M.imag], [M.imag, M.real]])


def emb_v(v):
    v = np.asarray(v, dtype=complex).ravel()
    return np.concatenate([v.real, v.imag])


def case_complex(cuqi, rng, q, steady, method, sk):
    n, npar = rng.randint(2, 4), 2
    ri = lambda lo, hi: rng.randint(lo, hi)
    lap = np.array([[(-2 if i == j else 1 if abs(i - j) == 1 else 0) for j in range(n)] for i in range(n)], dtype=float)
    A0 = (lap + (6 * np.eye(n) if steady else 0)) + 1j * np.array([[ri(-1, 1) if abs(i - j) <= 1 else 0 for j in range(n)] for i in range(n)])
    At = np.zeros((n, n)) if steady else np.array([[rng.choice([0, 0, 1]) if i == j else 0 for j in range(n)] for i in range(n)]) * (1 + 1j)
    b0 = np.array([ri(-2, 2) + 1j * ri(-2, 2) for _ in range(n)])
    Bp = np.array([[ri(-1, 1) + 1j * ri(-1, 1) for _ in range(npar)] for _ in range(n)])
    c0 = np.array([ri(-2, 2) + 1j * ri(-2, 2) for _ in range(n)])
    Cp = np.array([[(1 if i % npar == k else 0) * (1 + 0j) for k in range(npar)] for i in range(n)])
    p = [rng.choice([-1.0, 0.5, 1.0, 2.0]) for _ in range(npar)]
    times = [0.0] if steady else gen_times(rng, rng.choice(["uniform", "nonuniform"]), rng.randint(2, 4))

    def form(par, t):
        par = np.asarray(par, dtype=float)
        return (A0 + t * At, b0 + Bp @ par, c0 + Cp @ par)
    cfg = {"solver": sk, "tag": 8, "method": method, "times": times, "steady": steady}
    rec = Recorder()
    with Patches(rec):
        if steady:
            pde = cuqi.pde.SteadyStateLinearPDE(lambda par: form(par, 0.0)[:2], **mk_solver_args(cfg, rec))
        else:
            pde = cuqi.pde.TimeDependentLinearPDE(form, np.array(times), method=method, **mk_solver_args(cfg, rec))
        pde.assemble(np.array(p))
        r = outcome(pde.solve)
        if r[0] == "ok":
            u_raw, info = r[1]
            o = outcome(lambda: pde.observe(u_raw))
    meta = {"kind": "complex", "steady": steady, "method": method, "solver": sk, "n": n, "times": times, "p": p,
            "A0": [[str(v) for v in row] for row in A0.tolist()], "At": [[str(v) for v in row] for row in At.tolist()]}
    cell = "%s/complex/%s/%s" % ("ss" if steady else "td", method or "steady", sk)
    if r[0] == "err" or o[0] == "err":
        return Case(expr="false", meta=meta, cell=cell, impl_fail="complex-valued problem: %s raised %s" % ("solve()" if r[0] == "err" else "observe()", r[1] if r[0] == "err" else o[1]),
                    signature="TimeDependentLinearPDE.solve" if not steady else "SteadyStateLinearPDE.solve")
    # the real embedding of everything, handed to the (real) model
    af = {"A0": emb_m(A0), "At": emb_m(At), "Ap": [], "b0": emb_v(b0), "bt": np.zeros(2 * n), "Bp": np.vstack([Bp.real, Bp.imag]),
          "c0": emb_v(c0), "ct": np.zeros(2 * n), "Cp": np.vstack([Cp.real, Cp.imag])}
    calls = [{"A": emb_m(c["A"]), "b": emb_v(c["b"]), "x": emb_v(c["x"]), "info": c["info"]} for c in rec.solver_calls]
    tol = "0" if (sk.startswith("fake") or (not steady and method == "forward_euler")) else "12"
    solver_t = csolver(sk, 8, calls)
    info_t = cinfo(info_list(info))
    fail = None
    if steady:
        sol = np.asarray(u_raw)
        A, b, _ = form(p, 0.0)
        scale = float(np.max(np.abs(b))) + n * float(np.max(np.abs(A))) * float(np.max(np.abs(sol)))
        target = (2 * np.eye(n) - A) @ b if sk.startswith("fake") else None
        if sol.shape != (n,) or (target is None and float(np.max(np.abs(A @ sol - b))) > 1e-9 * scale) or \
                (target is not None and not np.array_equal(sol, target)):
            fail = ("steady complex system: the returned solution is not the solver's answer for (A(p), b(p)) / violates A(p) u = b(p)", "SteadyStateLinearPDE.solve")
        cfg_t = "(mkSC %s %s None None OMNone [] %s %s)" % (cform(af), solver_t, ctol(tol), ctol(tol))
        obs_t = "(SRun %s %s (Ok (false, (A1 %s))))" % (qcv(emb_v(sol)), info_t, qcv(emb_v(o[1])))
        expr = "check_ss %s true %s %s" % (cfg_t, qcv(p), obs_t)
    else:
        u = np.asarray(u_raw)
        E = [np.asarray(form(p, times[0])[2], dtype=complex)]
        nt = len(times)
        if u.shape != (n, nt):
            fail = ("stored levels have shape %s" % (u.shape,), "TimeDependentLinearPDE.solve")
        else:
            for k in range(nt - 1):
                dt = times[k + 1] - times[k]
                if method == "forward_euler":
                    A, b, _ = form(p, times[k])
                    res = u[:, k + 1] - (u[:, k] + dt * (A @ u[:, k] + b))
                else:
                    A, b, _ = form(p, times[k + 1])
                    if sk.startswith("fake"):
                        rr = u[:, k] + dt * b
                        res = u[:, k + 1] - (rr + dt * (A @ rr))
                    else:
                        res = u[:, k + 1] - dt * (A @ u[:, k + 1]) - (u[:, k] + dt * b)
                sc = max(float(np.max(np.abs(u[:, k:k + 2]))), float(np.max(np.abs(dt * b))))
                if float(np.max(np.abs(res))) > 1e-9 * sc or not np.allclose(u[:, 0], E[0], rtol=1e-12, atol=0):
                    fail = ("complex-valued problem (%s, operator with imaginary part): level %d violates the Euler recurrence, residual %s; dtype of the stored "
                            "levels is %s%s" % (method, k + 1, np.round(res, 6).tolist(), u.dtype,
                                                " - the imaginary part is discarded when a level is stored" if not np.iscomplexobj(u) else ""), SIG_CPLX)
                    break
        cfg_t = "(mkTD %s %s %s %s %s None None TOFinal OMNone [] %s %s)" % (cquirks(q), cform(af), qcv(times), cmethod(method), solver_t, ctol(tol), ctol(tol))
        obs_t = "(TRun %s %s (Ok (false, (A1 %s))))" % (clist([qcv(emb_v(u[:, k])) for k in range(u.shape[1])]) if u.ndim == 2 else "[]", info_t, qcv(emb_v(o[1])))
        expr = "check_td %s %s %s" % (cfg_t, qcv(p), obs_t)
    return Case(expr=expr, meta=meta, cell=cell, impl_fail=fail[0] if fail else None, signature=fail[1] if fail else "")


# ---------------- solutions with two space axes: solution.ndim = 3 ----------------
def case_observe_3d(cuqi, rng, q, gkind, tkind):
    n1, n2, nt = rng.randint(2, 3), rng.randint(2, 3), rng.randint(3, 5)
    times = gen_times(rng, "nonuniform", nt)
    tobs, _ = gen_tobs(rng, tkind, times)
    g = [0.5 * i for i in range(n1)]
    gs, go = {"none": (None, None), "equal": (g, list(g)), "differ": (g, [v + 0.25 for v in g[:-1]] + [g[-1]])}[gkind]
    sol = np.array([[[rng.randint(-9, 9) for _ in range(nt)] for _ in range(n2)] for _ in range(n1)], dtype=float)
    pde = cuqi.pde.TimeDependentLinearPDE(lambda p, t: (np.eye(n1), np.zeros(n1), p), np.array(times), time_obs=np.array(tobs) if isinstance(tobs, list) else tobs,
                                          grid_sol=aslist(gs), grid_obs=aslist(go))
    keep = sol.copy()
    o = outcome(lambda: np.asarray(pde.observe(sol), dtype=float))
    tl = [times[-1]] if isinstance(tobs, str) and tobs.lower() == "final" else list(times) if isinstance(tobs, str) else list(tobs)
    same = go is None or gs is None or gs == go
    final = tl == [times[-1]]
    ti = [idx_of(t, times) for t in tl]
    fail = None
    if o[0] == "ok":
        a = o[1]
        mats = [a] if a.ndim == 2 else [a[..., j] for j in range(a.shape[-1])] if a.ndim == 3 else None
        enc = "(Ok %s)" % clist([qcm(m) for m in mats]) if mats is not None else "(Er EOther)"
        if not same or any(i is None for i in ti):
            fail = "observe() returned a value for a solution with two space axes where an interpolation would be needed"
        else:
            E = sol[..., ti]
            if len(tl) == 1:
                E = E[..., 0]          # only the time axis is dropped (a space axis of length 1 stays)
            if a.shape != E.shape or not np.array_equal(a, E):
                fail = "observe() on a (n1, n2, nt) solution: got shape %s, the stored slices at the requested times have shape %s" % (a.shape, E.shape)
    else:
        enc = "(Er %s)" % ecode(o[1])
        if same and final:
            fail = "observe() raised %s for (equal grids, final time) on a solution with two space axes" % o[1]
    if not np.array_equal(sol, keep):
        fail = "observe() altered the solution array it was given"
    expr = "check_observe_2dspace %s %s %s %s %s %s %s" % (cquirks(q), cgrid(gs), cgrid(go), qcv(times), ctobs(tobs),
                                                       clist([qcm(sol[..., k]) for k in range(nt)]), enc)
    return Case(expr=expr, meta={"kind": "observe3d", "gkind": gkind, "tkind": tkind, "times": times, "tobs": tobs, "sol": sol.tolist()},
                cell="td/observe-2dspace/%s/%s" % (gkind, tkind), kind="DECISION", impl_fail=fail, signature="TimeDependentLinearPDE.observe" if fail else "")


# ---------------- round 5 (deepen3): the interpolation routines inside the model, solver conventions, 3 space axes ----------------
SS_OBS_VARIANTS = ["quadratic", "general", "nodes-mixed", "unsorted-sol-grid", "unsorted-obs", "three-nodes", "all-nodes-permuted",
                   "too-few-nodes", "out-of-range", "duplicate-node", "equal-grids", "empty-obs"]


def ss_observe_inputs(rng, variant, om0):
    n = 3 if variant == "three-nodes" else rng.randint(4, 6)
    gs = [v / 8.0 for v in sorted(rng.sample(range(0, 41), n))]            # dyadic nodes, sorted
    coef = None
    if variant in ("quadratic", "three-nodes", "unsorted-sol-grid") and rng.random() < 0.7 or variant == "quadratic":
        coef = [rng.randint(-8, 8) / 2.0, rng.randint(-8, 8) / 2.0, rng.randint(-4, 4) / 2.0]
    lo, hi = gs[0], gs[-1]
    m = rng.randint(1, 5)
    go = sorted(lo + (hi - lo) * rng.randint(0, 64) / 64.0 for _ in range(m))
    if variant in ("nodes-mixed", "unsorted-obs", "unsorted-sol-grid"):
        go = sorted(set(go[: max(1, m // 2)] + rng.sample(gs, rng.randint(1, 2))))
    if variant == "unsorted-obs":
        rng.shuffle(go)
        if len(go) > 1 and go == sorted(go):
            go.reverse()
    if variant == "all-nodes-permuted":
        go = list(gs)
        while go == gs:
            rng.shuffle(go)
    if variant == "unsorted-sol-grid":
        while gs == sorted(gs):
            rng.shuffle(gs)
    if variant == "too-few-nodes":
        gs = gs[: rng.randint(1, 2)]
        go = [gs[0]] if len(gs) == 1 else [gs[0], (gs[0] + gs[1]) / 2]
        go = [v + 0.0625 for v in go] if len(gs) == 1 else go
    if variant == "out-of-range":
        go[rng.randrange(len(go))] = rng.choice([hi + 0.125, lo - 0.125, hi + 2.0 ** -40 * max(1.0, abs(hi))])
    if variant == "duplicate-node":
        j = rng.randrange(1, len(gs))
        gs[j] = gs[j - 1]
    if variant == "equal-grids":
        go = list(gs)
    if variant == "empty-obs":
        go = []
    if coef is not None:
        sol = [coef[0] + coef[1] * x + coef[2] * x * x for x in gs]          # exact in binary (dyadic data)
    else:
        sol = [rng.randint(-20, 20) / 4.0 for _ in gs]
    om = fix_omap(rng, gen_omap(rng, om0, len(go)), len(go))
    return gs, go, sol, coef, om


def case_ss_observe(cuqi, rng, variant, om0, inputs=None):
    """SteadyStateLinearPDE.observe alone on a solution the caller hands in: the model interpolates by its own exact quadratic
    spline (Model/C18_Spline.v).  Independent oracles: the exact polynomial (quadratic data), the node values (coinciding nodes),
    and the harness's own Cox-de Boor B-spline code (general data)."""
    gs, go, sol, coef, om = inputs or ss_observe_inputs(rng, variant, om0)
    n = len(gs)
    rec = Recorder()
    with Patches(rec):
        pde = cuqi.pde.SteadyStateLinearPDE(lambda p: (np.eye(n), p), grid_sol=np.array(gs), grid_obs=np.array(go),
                                            observation_map=pymap(om))
        U = np.array(sol, dtype=float)
        keep = U.copy()
        o = outcome(lambda: np.asarray(pde.observe(U), dtype=float))
    fail = None
    sig = "SteadyStateLinearPDE.observe"
    same = (len(gs) == len(go) and all(a == b for a, b in zip(gs, go)))
    legal = same or (len(set(gs)) == len(gs) >= 3 and all(min(gs) <= x <= max(gs) for x in go))
    if o[0] == "ok":
        pm = pymap(om)
        scale = max([abs(v) for v in sol] + [0.0])
        E = None
        if same:
            E = np.array(sol, dtype=float)
        elif not legal:
            fail = "observe() returned a value although interp1d must refuse (fewer than 3 nodes / repeated node / point outside the grid)"
        elif coef is not None:
            E = np.array([float(frac(coef[0]) + frac(coef[1]) * frac(x) + frac(coef[2]) * frac(x) * frac(x)) for x in go])
        else:
            order = sorted(range(n), key=lambda i: gs[i])
            srt = sorted(go)
            Es = spline_interp([gs[i] for i in order], np.array([[sol[i]] for i in order]), 2, srt)[:, 0] if go else np.zeros(0)
            E = np.array([Es[srt.index(x)] for x in go])
        if E is not None:
            for i, x in enumerate(go):                                 # exactly at coinciding nodes (before the map)
                a = idx_of(x, gs)
                if a is not None and not same:
                    E[i] = sol[a]
            try:
                Em = np.asarray(pm(E) if pm else E, dtype=float)
                if not arr_close(o[1], Em, 1e-10 if coef is not None or same else 1e-8,
                                 {"square": scale * scale, "scale": abs(om[1]) * scale if om[0] == "scale" else 0, "mat": n * 2 * scale}.get(om[0], scale)):
                    fail = "observe() on grid_sol=%s solution=%s at grid_obs=%s: got %s, expected %s (%s)" % (
                        gs, sol, go, np.asarray(o[1]).ravel()[:6].tolist(), Em.ravel()[:6].tolist(),
                        "the quadratic itself" if coef is not None else "restriction" if same else "interpolating quadratic spline, node values at coinciding nodes")
            except Exception:
                pass
    elif legal:
        # a legal request may only be refused by the observation map itself (u[0] of an empty vector ...)
        pm = pymap(om)
        probe = outcome(lambda: pm(np.zeros(len(go))) if pm else 0)
        if probe[0] == "ok":
            fail = "observe() raised %s on a legal request (grid_sol=%s, grid_obs=%s)" % (o[1], gs, go)
    if not np.array_equal(U, keep):
        fail = "observe() altered the solution array it was given"
    ot = "(Ok (%s, %s))" % (cbool(len(rec.i1) > 0), carr(o[1])) if o[0] == "ok" else "(Er %s)" % ecode(o[1])
    expr = "check_ss_observe %s %s %s %s %s %s && %s && forallb i1_model_ok %s" % (
        cgrid(gs), cgrid(go), comap(om), ctol("12"), qcv(sol), ot, cbool(interp_args_ok(rec)), enc_i1(rec))
    return Case(expr=expr, meta={"kind": "ss_observe", "variant": variant, "inputs": [gs, go, sol, coef, om]},
                cell="ss/observe-alone/%s/%s" % (variant, om[0]), kind="EXACT" if o[0] == "ok" else "DECISION",
                impl_fail=fail, signature=sig if fail else "")


RET_CONVENTIONS = ["plain", "tuple1", "tuple2", "tuple4", "namedtuple", "list", "empty-tuple"]


def case_solver_convention(cuqi, rng, conv, steady):
    """LinearPDE._solve_linear_system for every shape of answer a linalg_solve can give: a value, a tuple with 1, 2, 4 entries,
    a tuple subclass, a list (NOT a tuple: taken as the solution itself) and the empty tuple (refused: IndexError).
    The oracle is the documented rule itself: x, val1, val2, ... = linalg_solve(A, b) / x = linalg_solve(A, b)."""
    import collections
    n = rng.randint(2, 4)
    A = np.eye(n) * 2.0
    b = np.array([float(rng.randint(-8, 8)) for _ in range(n)])
    x = b / 2.0
    extras = {"plain": None, "tuple1": [], "tuple2": [rng.randint(0, 9)], "tuple4": [rng.randint(0, 9) for _ in range(3)],
              "namedtuple": [rng.randint(0, 9)], "list": None, "empty-tuple": None}[conv]

    def solver(A_, b_):
        xx = np.linalg.solve(A_, b_)
        if conv == "plain":
            return xx
        if conv == "namedtuple":
            return collections.namedtuple("R", ["x", "it"])(xx, extras[0])
        if conv == "list":
            return [float(v) for v in xx]
        if conv == "empty-tuple":
            return ()
        return (xx,) + tuple(extras)

    def go():
        if steady:
            pde = cuqi.pde.SteadyStateLinearPDE(lambda p: (A, p), linalg_solve=solver)
            pde.assemble(b)
            sol, info = pde.solve()
        else:
            # one backward-Euler step with dt = 1, operator -I: (I + I) u1 = u0
            pde = cuqi.pde.TimeDependentLinearPDE(lambda p, t: (-np.eye(n), np.zeros(n), p), np.array([0.0, 1.0]), method="backward_euler",
                                                  linalg_solve=solver)
            pde.assemble(b)
            u, info = pde.solve()
            sol = u[:, -1]
        return (np.asarray(sol, dtype=float), None if info is None else [int(v) for v in info])
    o = outcome(go)
    fail = None
    if conv == "empty-tuple":
        if o[0] == "ok":
            fail = "an empty tuple from linalg_solve was accepted: %s" % (o[1],)
    elif o[0] != "ok":
        fail = "linalg_solve returning %s was refused with %s" % (conv, o[1])
    else:
        if not np.array_equal(o[1][0], x):
            fail = "solution %s is not the solver's vector %s" % (o[1][0].tolist(), x.tolist())
        if o[1][1] != extras:
            fail = "info %s is not the solver's extra return values %s" % (o[1][1], extras)
    model = "None" if conv == "empty-tuple" else "(Some %s)" % csret(x, extras)
    obs = "(Ok (%s, %s))" % (qcv(o[1][0]), cinfo(o[1][1])) if o[0] == "ok" else "(Er %s)" % ecode(o[1])
    return Case(expr="check_solve_ret %s %s" % (model, obs), meta={"kind": "solver_convention", "conv": conv, "steady": steady},
                cell="%s/solver-convention/%s" % ("ss" if steady else "td", conv), kind="DECISION",
                impl_fail=fail, signature="LinearPDE._solve_linear_system" if fail else "")


def case_observe_4d(cuqi, rng, q, gkind, tkind):
    """three space axes (solution.ndim = 4), also space axes of length 1: the model sees every time level flattened to a matrix
    (n1, n2*n3) -- the route never looks at the space shape --; the oracle is plain indexing of the stored array"""
    n1, n2, n3, nt = rng.randint(1, 3), rng.randint(1, 2), rng.randint(1, 2), rng.randint(3, 5)
    times = gen_times(rng, "nonuniform", nt)
    tobs, _ = gen_tobs(rng, tkind, times)
    g = [0.5 * i for i in range(n1)]
    gs, go = {"none": (None, None), "equal": (g, list(g)), "differ": (g, [v + 0.25 for v in g])}[gkind]
    sol = np.array(np.reshape([rng.randint(-9, 9) for _ in range(n1 * n2 * n3 * nt)], (n1, n2, n3, nt)), dtype=float)
    pde = cuqi.pde.TimeDependentLinearPDE(lambda p, t: (np.eye(n1), np.zeros(n1), p), np.array(times), time_obs=np.array(tobs) if isinstance(tobs, list) else tobs,
                                          grid_sol=aslist(gs), grid_obs=aslist(go))
    keep = sol.copy()
    o = outcome(lambda: np.asarray(pde.observe(sol), dtype=float))
    tl = [times[-1]] if isinstance(tobs, str) and tobs.lower() == "final" else list(times) if isinstance(tobs, str) else list(tobs)
    same = go is None or gs is None or gs == go
    final = tl == [times[-1]]
    ti = [idx_of(t, times) for t in tl]
    fail = None
    if o[0] == "ok":
        a = o[1]
        mats = [a.reshape(n1, n2 * n3)] if a.shape == (n1, n2, n3) else [a[..., j].reshape(n1, n2 * n3) for j in range(a.shape[-1])] if a.shape[:-1] == (n1, n2, n3) else None
        enc = "(Ok %s)" % clist([qcm(m) for m in mats]) if mats is not None else "(Er EOther)"
        if not same or any(i is None for i in ti):
            fail = "observe() returned a value for a solution with three space axes where an interpolation would be needed"
        else:
            E = sol[..., ti]
            if len(tl) == 1:
                E = E[..., 0]          # only the time axis is dropped (space axes of length 1 stay)
            if a.shape != E.shape or not np.array_equal(a, E):
                fail = "observe() on a %s solution at times %s: got shape %s, the stored slices have shape %s" % (sol.shape, tl, a.shape, E.shape)
    else:
        enc = "(Er %s)" % ecode(o[1])
        if same and all(i is not None for i in ti) and (final or not q["spline"]):
            fail = "observe() raised %s for (equal grids, stored times %s) on a solution with three space axes" % (o[1], tl)
    if not np.array_equal(sol, keep):
        fail = "observe() altered the solution array it was given"
    expr = "check_observe_2dspace %s %s %s %s %s %s %s" % (cquirks(q), cgrid(gs), cgrid(go), qcv(times), ctobs(tobs),
                                                       clist([qcm(sol[..., k].reshape(n1, n2 * n3)) for k in range(nt)]), enc)
    return Case(expr=expr, meta={"kind": "observe4d", "gkind": gkind, "tkind": tkind, "times": times, "tobs": tobs, "sol": sol.tolist()},
                cell="td/observe-3dspace/%s/%s" % (gkind, tkind), kind="DECISION", impl_fail=fail, signature="TimeDependentLinearPDE.observe" if fail else "")


def case_observe_outside(cuqi, rng, q, where, om0):
    """observation nodes / times OUTSIDE the data rectangle on the spline route, samples of a bicubic polynomial: fitpack evaluates
    at the nearest boundary point, so the answer is the polynomial at the clamped point (C18_interp2_cubic_reproduces_bicubics).
    where: 'space' | 'time' | 'both' | 'far'"""
    n, nt = rng.randint(4, 6), rng.randint(4, 6)
    times = gen_times(rng, rng.choice(["uniform", "nonuniform"]), nt)
    gs = [v / 4.0 for v in sorted(rng.sample(range(0, 21), n))]
    dx, dtm = (8.0, 8.0) if where == "far" else (rng.choice([0.125, 2.0 ** -30]), rng.choice([0.125, 2.0 ** -30]))
    go = sorted({gs[0] + (gs[-1] - gs[0]) * rng.randint(1, 31) / 32.0 for _ in range(rng.randint(1, 3))})
    tobs = sorted({times[0] + (times[-1] - times[0]) * rng.randint(1, 31) / 32.0 for _ in range(rng.randint(1, 3))})
    if where in ("space", "both", "far"):
        go = [gs[0] - dx] + go + [gs[-1] + dx] if rng.random() < 0.6 else go + [gs[-1] + dx]
    if where in ("time", "both", "far"):
        tobs = [times[0] - dtm] + tobs + [times[-1] + dtm] if rng.random() < 0.6 else [times[0] - dtm] + tobs
    om = fix_omap(rng, gen_omap(rng, om0, len(go)), len(go))
    C = bicubic(rng)
    U = np.array([[float(bicubic_eval(C, x, t)) for t in times] for x in gs])
    cfg = {"af": None, "times": times, "method": "forward_euler", "solver": "default", "tag": 0, "gsol": gs, "gobs": go, "tobs": tobs, "tobs_as_array": True, "omap": om}
    rec = Recorder()
    with Patches(rec):
        pde = mk_td(cuqi, cfg, rec, form=lambda p, t: (np.eye(n), np.zeros(n), np.zeros(n)))
        o = outcome(lambda: pde.observe(U))
    fail = None
    clampv = lambda v, lo, hi: min(max(v, lo), hi)
    if o[0] == "ok":
        E = np.array([[float(bicubic_eval(C, clampv(x, gs[0], gs[-1]), clampv(t, times[0], times[-1]))) for t in tobs] for x in go])
        pm = pymap(om)
        try:
            E = np.asarray(pm(E[:, 0]) if (pm and len(tobs) == 1) else E[:, 0] if len(tobs) == 1 else pm(E) if pm else E, dtype=float)
            if not arr_close(o[1], E, 1e-9, obs_floor(cfg, U)):
                fail = ("observe() of samples of a bicubic polynomial at points outside the data rectangle (grid_obs=%s, time_obs=%s; nodes %s..%s, times %s..%s): "
                        "got %s, the polynomial at the nearest boundary points is %s" % (go, tobs, gs[0], gs[-1], times[0], times[-1],
                                                                                      np.asarray(o[1]).ravel()[:6].tolist(), E.ravel()[:6].tolist()))
        except Exception:
            pass
    else:
        probe = outcome(lambda: pymap(om)(np.zeros((len(go), len(tobs)))) if pymap(om) else 0)
        if probe[0] == "ok":
            fail = "observe() raised %s for observation points outside the data rectangle (scipy evaluates them at the boundary)" % o[1]
    ot = "(Ok (%s, %s))" % (cbool(len(rec.i2) > 0), carr(o[1])) if o[0] == "ok" else "(Er %s)" % ecode(o[1])
    expr = "check_td_observe %s %s %s %s %s %s %s %s %s %s && %s" % (cquirks(q), cgrid(gs), cgrid(go), qcv(times), ctobs(tobs), comap(om), enc_i2(rec), ctol("12"),
                                                                  qcols(U), ot, cbool(interp_args_ok(rec)))
    return Case(expr=expr, meta={"kind": "observe_outside", "where": where, "omap": om, "times": times, "gsol": gs, "gobs": go, "tobs": tobs, "C": C},
                cell="td/observe-outside/%s/%s" % (where, om[0]), impl_fail=fail, signature="TimeDependentLinearPDE.observe" if fail else "")


# ---------------- grids bookkeeping ----------------
def case_grids(cuqi, rng, n):
    def rg():
        r = rng.random()
        if r < 0.25:
            return None
        g = [0.5 * i for i in range(rng.choice([n, n, n - 1]))]
        if rng.random() < 0.3:
            g[rng.randrange(len(g))] += 0.25
        return g
    gs, go = rg(), rg()
    pde = cuqi.pde.SteadyStateLinearPDE(lambda p: (np.eye(2), p), grid_sol=aslist(gs), grid_obs=aslist(go))
    observed = [bool(pde.grids_equal)]
    ops, want = [], []
    cur_s, cur_o = gs, (go if go is not None else gs)

    def cmp(a, b):
        return a is None or b is None or (len(a) == len(b) and all(x == y for x, y in zip(a, b)))
    want.append(cmp(cur_s, cur_o))
    for _ in range(rng.randint(1, 4)):
        v = rg()
        if rng.random() < 0.5:
            pde.grid_sol = aslist(v)
            ops.append(("SetSol", v))
            cur_s = v
        else:
            pde.grid_obs = aslist(v)
            ops.append(("SetObs", v))
            cur_o = v if v is not None else cur_s
        observed.append(bool(pde.grids_equal))
        want.append(cmp(cur_s, cur_o))
    fail = None if observed == want else "grids_equal after %s: %s, but the current grids compare as %s" % (ops, observed, want)
    expr = "check_grids %s %s %s %s" % (cgrid(gs), cgrid(go), clist(["(%s %s)" % (k, cgrid(v)) for k, v in ops]), clist([cbool(b) for b in observed]))
    return Case(expr=expr, meta={"kind": "grids", "gs": gs, "go": go, "ops": ops}, cell="grids/setters", kind="DECISION",
                impl_fail=fail, signature="PDE.grids_equal" if fail else "")


# ---------------- gradient dispatch ----------------
def case_gradient(cuqi, rng, have_g, have_j, steady, shape=None):
    """shape = (number of observations, number of parameters): square non-symmetric, tall and wide Jacobians"""
    n = 4
    nout, npar = shape or (4, rng.randint(2, 4))
    mk = lambda: [[rng.randint(-2, 2) for _ in range(npar)] for _ in range(nout)]
    G, J = (mk(), mk()), (mk(), mk())
    a, d = rng.choice([(1, 0), (2, 1), (1, 0), (-1, 0.5)])
    base = cuqi.pde.SteadyStateLinearPDE if steady else cuqi.pde.TimeDependentLinearPDE
    ns = {}
    if have_g:
        ns["gradient_wrt_parameter"] = lambda self, direction, wrt: np.asarray(direction) @ (np.array(G[0], float) + wrt[0] * np.array(G[1], float))
    if have_j:
        ns["jacobian_wrt_parameter"] = lambda self, wrt: np.array(J[0], float) + wrt[0] * np.array(J[1], float)
    cls = type("UserPDE", (base,), ns)
    if shape and shape[0] == shape[1]:
        while np.array_equal(np.array(J[0]), np.array(J[0]).T) or np.array_equal(np.array(G[0]), np.array(G[0]).T):
            G, J = (mk(), mk()), (mk(), mk())          # square Jacobians are never symmetric
    if steady:
        pde = cls(lambda p: (np.eye(n), np.ones(n)))
    else:
        pde = cls(lambda p, t: (np.zeros((n, n)), np.zeros(n), np.ones(n)), np.array([0.0, 0.5]))
    dom = cuqi.geometry.Continuous1D(npar)
    if (a, d) != (1, 0):
        class MG(cuqi.geometry.MappedGeometry):
            def gradient(self, direction, wrt):           # chain rule of the affine map, so Model.gradient accepts the geometry
                return a * direction
        dom = MG(dom, map=lambda x: a * x + d, imap=lambda f: (f - d) / a)
    model = cuqi.model.PDEModel(pde, cuqi.geometry.Continuous1D(nout), dom)
    direction = [rng.choice([-1, 0.5, 1, 2]) for _ in range(nout)]
    wrt = [rng.choice([-1, 0.5, 1, 2]) for _ in range(npar)]
    o = outcome(lambda: np.asarray(model.gradient(np.array(direction, float), np.array(wrt, float)), dtype=float))
    # model-level gradient = a * _gradient_func(direction, par2fun(wrt)) when the geometry has `gradient`
    if o[0] == "ok" and (a, d) != (1, 0):
        o = ("ok", o[1] / a)
    w = [a * v + d for v in wrt]
    if have_g:
        want = ("ok", np.array(direction) @ (np.array(G[0], float) + w[0] * np.array(G[1], float)))
    elif have_j:
        want = ("ok", np.array(direction) @ (np.array(J[0], float) + w[0] * np.array(J[1], float)))
    else:
        want = ("err", "NotImplementedError")
    fail = None
    if want[0] != o[0] or (want[0] == "err" and o[1] != want[1]) or (want[0] == "ok" and not arr_close(o[1], want[1], 1e-12)):
        fail = "gradient(direction, wrt) = %s, the PDE's own direction-Jacobian product is %s" % (o[1] if o[0] == "err" else o[1].tolist(), want[1] if want[0] == "err" else want[1].tolist())
    enc = lambda M: "None" if M is None else "(Some (%s, %s))" % (qcm(M[0]), qcm(M[1]))
    expr = "check_gradient %s %s %s %s %s %s %s" % (enc(G if have_g else None), enc(J if have_j else None), qcs(a), qcs(d), qcv(direction), qcv(wrt),
                                                 cres(o, qcv))
    return Case(expr=expr, meta={"kind": "gradient", "have_g": have_g, "have_j": have_j, "steady": steady, "G": G, "J": J, "a": a, "d": d,
                                 "direction": direction, "wrt": wrt},
                cell="gradient/%s%s/%s/%s" % ("g" if have_g else "-", "j" if have_j else "-", "steady" if steady else "td", "%dx%d" % tuple(shape) if shape else "any"),
                kind="EXACT", impl_fail=fail, signature="PDEModel._gradient_func" if fail else "")


# ---------------- the shipped PDE test problems as users ----------------
def tp_field_kwargs(field):
    if field == "Step":
        return {"field_type": "Step", "field_params": {"n_steps": 3}}
    if field == "exp":
        return {"map": np.exp, "imap": np.log}
    if field == "KL":
        return {"field_type": "KL", "field_params": {"num_modes": 3}}
    if field == "KL_Full":
        return {"field_type": "KL_Full", "field_params": {"std": 1.0, "cor_len": 0.3, "nu": 2.0}}
    if field == "CustomKL":
        return {"field_type": "CustomKL", "field_params": {"mean": 1.0, "std": 0.5, "trunc_term": 3}}
    if field == "KL+exp":
        return {"field_type": "KL", "field_params": {"num_modes": 3}, "map": np.exp, "imap": np.log}
    return {}


def case_tp_poisson(cuqi, q, dim, ogm, x, field=None):
    """Poisson1D: steady; its PDE form is tabulated by calling the problem's own PDE_form independently (on the
    function values par2fun(x) of the problem's own domain geometry)"""
    meta = {"kind": "tp_poisson", "dim": dim, "ogm": ogm, "x": x, "field": field}
    rec = Recorder()
    with Patches(rec), ScriptedRandom(seed=1):      # the default solver is bound when the PDE object is constructed
        r = outcome(lambda: cuqi.testproblem.Poisson1D(dim=dim, endpoint=1, observation_grid_map=(lambda g: g[1:-1]) if ogm else None,
                                                       **tp_field_kwargs(field)))
        if r[0] == "err":
            return Case(expr="false", meta=meta, cell="testproblem/Poisson1D", impl_fail="Poisson1D(dim=%d) cannot be constructed: %s" % (dim, r[1]),
                        signature="Poisson1D.model")
        tp = r[1]
        pde = tp.model.pde
        x = x[:tp.model.domain_dim]
        rec.reset()
        o = model_output(outcome(lambda: tp.model.forward(np.array(x))))
    xf = np.asarray(tp.model.domain_geometry.par2fun(np.array(x)), dtype=float)
    A, b = pde.PDE_form(xf)
    cfg = {"steady": True, "solver": "default", "tag": 0, "gsol": np.asarray(pde.grid_sol).tolist(), "gobs": np.asarray(pde.grid_obs).tolist(),
           "omap": ["none"]}
    fterm = ctform([(0.0, np.asarray(A, float), np.asarray(b, float), np.zeros(len(b)))])
    expr = "check_ss_forward %s %s %s None %s %s" % (ss_cfg_term(cfg, rec, "12", fterm), qcs(1), qcs(0), qcv(xf), cres(o, carr))
    # oracle: residual of the problem's own assembled system, observation by restriction / own quadratic spline
    fail = None
    try:
        # the documented discretisation, rebuilt here (nothing read back from the problem object)
        N = dim - 1
        dxp = 1.0 / N
        Dx = -np.diag(np.ones(N), 0) + np.diag(np.ones(N - 1), 1)
        e0 = np.zeros(N)
        e0[0] = 1
        Dx = np.concatenate([e0.reshape(1, -1), Dx], axis=0) / dxp
        src_grid = np.linspace(dxp, 1, N, endpoint=False)
        A_ref = Dx.T @ np.diag(xf) @ Dx
        b_ref = 10 * np.exp(-((src_grid - 0.5) ** 2) / 0.02)
        gs = np.linspace(1.0 / (dim - 1), 1, dim - 1, endpoint=False)
        go = gs[1:-1] if ogm else gs
        if not (np.array_equal(np.asarray(A, float), A_ref) and np.array_equal(np.asarray(b, float), b_ref)
                and np.array_equal(np.asarray(pde.grid_sol, float), gs) and np.array_equal(np.asarray(pde.grid_obs, float), go)):
            fail = "Poisson1D(dim=%d): the PDE form / grids of the problem object are not its documented discretisation Dx^T diag(x) Dx u = source" % dim
        sol = REAL_SOLVE(A_ref, b_ref)
        xi = [idx_of(v, gs) for v in go]
        E = np.array([sol[i] for i in xi]) if all(i is not None for i in xi) else spline_interp(gs, sol.reshape(-1, 1), 2, go)[:, 0]
        if fail is None and (o[0] != "ok" or not arr_close(o[1], E, 1e-7)):
            fail = "Poisson1D(dim=%d).model.forward(%s) = %s differs from solving its own assembled system and observing it: %s" % (
                dim, x, o[1] if o[0] == "err" else np.asarray(o[1]).tolist(), E.tolist())
    except Exception as e:
        fail = "oracle failed: %r" % e
    return Case(expr=expr, meta=meta, cell="testproblem/Poisson1D/%s" % (field or "default"), impl_fail=fail, signature="Poisson1D.model" if fail else "")


def case_tp_heat(cuqi, q, dim, mt, ogm, x, field=None):
    meta = {"kind": "tp_heat", "dim": dim, "max_time": mt, "ogm": ogm, "x": x, "field": field}
    with ScriptedRandom(seed=1):
        r = outcome(lambda: cuqi.testproblem.Heat1D(dim=dim, endpoint=1, max_time=mt, observation_grid_map=(lambda g: g[:-1]) if ogm else None,
                                                    **tp_field_kwargs(field)))
    if r[0] == "err":
        return Case(expr="false", meta=meta, cell="testproblem/Heat1D", impl_fail="Heat1D(dim=%d, max_time=%s) cannot be constructed: %s" % (dim, mt, r[1]),
                    signature="Heat1D.model")
    tp = r[1]
    pde = tp.model.pde
    x = x[:tp.model.domain_dim]
    times = np.asarray(pde.time_steps, float).tolist()
    tb = []
    xf = np.asarray(tp.model.domain_geometry.par2fun(np.array(x)), dtype=float)
    for t in times:
        A, b, c = pde.PDE_form(xf, t)
        tb.append((t, np.asarray(A, float), np.asarray(b, float), np.asarray(c, float)))
    cfg = {"times": times, "method": pde.method, "solver": "default", "tag": 0, "gsol": np.asarray(pde.grid_sol).tolist(),
           "gobs": np.asarray(pde.grid_obs).tolist(), "tobs": np.asarray(pde._time_obs, float).tolist(), "omap": ["none"]}
    rec = Recorder()
    with Patches(rec):
        o = model_output(outcome(lambda: tp.model.forward(np.array(x))))
    expr = "check_td_forward %s %s %s None %s %s" % (td_cfg_term(cfg, q, rec, "9", ctform(tb)), qcs(1), qcs(0), qcv(xf), cres(o, carr))
    fail = None
    try:
        # the documented discretisation, rebuilt here (nothing read back from the problem object)
        N = dim
        dxh = 1.0 / (N + 1)
        Dxx = (np.diag(-2 * np.ones(N)) + np.diag(np.ones(N - 1), -1) + np.diag(np.ones(N - 1), 1)) / dxh ** 2
        t_ref = np.linspace(0, mt, int(mt / (5 / 11 * dxh ** 2)) + 1, endpoint=True)
        gs = np.linspace(dxh, 1, N, endpoint=False)
        go = gs[:-1] if ogm else gs
        if not (np.array_equal(np.asarray(times), t_ref) and all(np.array_equal(e[1], Dxx) and not np.any(e[2]) and np.array_equal(e[3], xf) for e in tb)
                and np.array_equal(np.asarray(pde.grid_sol, float), gs) and np.array_equal(np.asarray(pde.grid_obs, float), go) and pde.method == "forward_euler"):
            fail = "Heat1D(dim=%d, max_time=%s): time steps / PDE form / grids of the problem object are not its documented discretisation" % (dim, mt)
        u = np.array(xf, float)
        U = [u]
        for k in range(len(t_ref) - 1):
            dt = t_ref[k + 1] - t_ref[k]
            u = u + dt * (Dxx @ u)
            U.append(u)
        U = np.array(U).T
        times = t_ref.tolist()
        xi = [idx_of(v, gs) for v in go]
        if all(i is not None for i in xi):
            E = U[xi, -1]
        elif len(gs) >= 4 and len(times) >= 4:
            E = spline_interp(times, spline_interp(gs, U, 3, go).T, 3, [times[-1]]).T[:, 0]
        else:
            E = None
        if E is None:
            if o[0] == "ok":
                fail = "Heat1D forward returned a value where no interpolation exists"
        elif fail is None and (o[0] != "ok" or not arr_close(o[1], E, 1e-7)):
            fail = "Heat1D(dim=%d, max_time=%s).model.forward(%s) = %s differs from forward Euler on its own PDE form + final-time observation: %s" % (
                dim, mt, x, o[1] if o[0] == "err" else np.asarray(o[1]).tolist(), E.tolist())
    except Exception as e:
        fail = "oracle failed: %r" % e
    return Case(expr=expr, meta=meta, cell="testproblem/Heat1D/%s" % (field or "default"), impl_fail=fail, signature="Heat1D.model" if fail else "")


def cases_testproblems(cuqi, ctx, q, cases):
    """x is generated longer than needed and cut to the problem's parameter dimension (KL modes, steps, nodes)"""
    rng = ctx.rng
    for dim, ogm, field in [(5, None, None), (6, None, None), (6, "sub", None), (7, None, "Step"), (5, "sub", "exp"), (8, None, "KL+exp"),
                            (8, "sub", "CustomKL"), (7, None, "KL_Full")] + (
            [(9, None, None), (8, "sub", None), (10, "sub", "Step"), (7, None, "exp"), (10, "sub", "KL+exp"), (9, None, "CustomKL")] if ctx.thorough else []):
        x = [rng.choice([0.5, 1.0, 0.25, 1.5] if field in ("exp", "KL+exp", "CustomKL", "KL_Full") else [1.0, 1.5, 2.0, 3.0]) for _ in range(16)]
        if field == "KL_Full":
            x = [0.125 * v for v in x]
            x[0] = 0.0
        cases.add("testproblem/Poisson1D", "tp_poisson", lambda: case_tp_poisson(cuqi, q, dim, ogm, x, field), dim=dim, ogm=ogm, x=x, field=field)
    for dim, mt, ogm, field in [(3, 0.1, None, None), (4, 0.08, None, None), (5, 0.08, "sub", None), (6, 0.02, None, "Step"), (4, 0.06, None, "exp"),
                                (6, 0.02, None, "KL"), (6, 0.02, None, "KL_Full"), (8, 0.02, None, "CustomKL"), (6, 0.03, "sub", "KL+exp")] + (
            [(6, 0.03, None, None), (7, 0.04, "sub", None), (7, 0.04, "sub", "Step"), (9, 0.01, None, "KL"), (7, 0.04, "sub", "CustomKL")] if ctx.thorough else []):
        x = [rng.choice([0.5, 1.0, 1.5, 2.0, -1.0]) for _ in range(16)]
        cases.add("testproblem/Heat1D", "tp_heat", lambda: case_tp_heat(cuqi, q, dim, mt, ogm, x, field), dim=dim, max_time=mt, ogm=ogm, x=x, field=field)


# ------------------------------------------------------------------------------------------------
class CaseList(list):
    """cases; a driver/encoder exception on one input becomes a disagreeing case for that input (never a crash of the
    whole run): bin/check then asks oracle() about exactly that input"""

    def add(self, cell, kind, fn, **meta):
        import traceback
        try:
            r = fn()
            self.extend(r if isinstance(r, list) else [r])
        except Exception:
            m = dict(meta, kind=kind, harness_exception=traceback.format_exc()[-1200:])
            self.append(Case(expr="false", meta=m, cell=cell, kind="DECISION"))


def run(ctx):
    import cuqi
    rng = ctx.rng
    q, wit = tree_quirks(cuqi)
    ctx.note("tree state (true = defect present): %s" % q)
    cases = CaseList()
    nmax = ctx.n(6, 7)
    reps = ctx.n(1, 8)

    # ---- 1. time-dependent, direct API: method x time grid x solver (solve-focused; observation 'final', equal grids) -------
    solvers = ["default", "real", "real_tuple", "real_tuple1", "fake", "fake_tuple"]
    for _ in range(reps):
        for method in ["forward_euler", "backward_euler"]:
            for tk in ["uniform", "nonuniform", "two", "single"]:
                for sk in solvers:
                    if method == "forward_euler" and sk not in ("default", "fake_tuple"):
                        continue
                    for role in ["ic", "source", "operator", "all"]:
                        n = rng.randint(3, nmax)
                        npar = rng.randint(1, n)
                        nt = {"two": 2, "single": 1}.get(tk, rng.randint(3, nmax))
                        tdep = rng.random() < 0.7
                        for attempt in range(20):
                            cfg = {"af": gen_af(rng, n, npar, role, tdep), "times": gen_times(rng, "uniform" if tk == "uniform" else "nonuniform", nt),
                                   "method": method, "solver": sk, "tag": rng.randint(1, 99), "gsol": None, "gobs": None, "tobs": "final",
                                   "omap": ["none"]}
                            p = gen_p(rng, npar)
                            if sk.startswith("fake") or method == "forward_euler" or well_conditioned(cfg, p):
                                break
                        cell = "td/solve/%s/%s/%s/%s" % (method, tk, sk, role)
                        cases.add(cell, "td_direct", lambda: case_td_direct(cuqi, cfg, p, q, cell, trivial=(tk == "single")), cfg=cfg, p=p)

    # ---- 2. time-dependent, direct API: observation lattice (grid relation x time_obs form x map) ---------------------------
    omaps = ["none", "square", "scale", "first", "from", "mat"]
    k = 0
    for _ in range(reps):
        for rel in GRID_RELS:
            for tkind in TOBS_KINDS:
                k += 1
                method = ["forward_euler", "backward_euler"][k % 2]
                sk = "fake" if method == "backward_euler" else "default"
                n = rng.randint(4, nmax)
                nt = rng.choice([3, 4, 4, 5, nmax])
                npar = rng.randint(1, n)
                times = gen_times(rng, rng.choice(["uniform", "nonuniform"]), nt)
                gs, go = gen_grids(rng, n, rel)
                tobs, as_arr = gen_tobs(rng, tkind, times)
                nrows = n if (go is None or gs is None) else len(go)
                om = fix_omap(rng, gen_omap(rng, omaps[k % len(omaps)], n), nrows)
                cfg = {"af": gen_af(rng, n, npar, "all", True), "times": times, "method": method, "solver": sk, "tag": 0, "gsol": gs, "gobs": go,
                       "tobs": tobs, "tobs_as_array": as_arr, "omap": om}
                cell, p = "td/observe/%s/%s/%s" % (rel, tkind, om[0]), gen_p(rng, npar)
                cases.add(cell, "td_direct", lambda: case_td_direct(cuqi, cfg, p, q, cell), cfg=cfg, p=p)
        # small grids / few levels where a spline cannot exist, and extra observation maps on every branch
        for rel in ["sol_only", "subgrid", "offnodes"]:
            for tkind in ["final", "all", "arr_nodes", "arr_offnodes", "arr_one_node"]:
                for om0 in omaps:
                    k += 1
                    n = rng.choice([3, 4, 5])
                    nt = rng.choice([2, 3, 4, 5])
                    times = gen_times(rng, "nonuniform", nt)
                    gs, go = gen_grids(rng, n, rel)
                    tobs, as_arr = gen_tobs(rng, tkind, times)
                    om = fix_omap(rng, gen_omap(rng, om0, n), n if go is None else len(go))
                    cfg = {"af": gen_af(rng, n, 2, "ic", False), "times": times, "method": "forward_euler", "solver": "default", "tag": 0,
                           "gsol": gs, "gobs": go, "tobs": tobs, "tobs_as_array": as_arr, "omap": om}
                    cell, p = "td/observe-small/%s/%s/%s" % (rel, tkind, om0), gen_p(rng, 2)
                    cases.add(cell, "td_direct", lambda: case_td_direct(cuqi, cfg, p, q, cell), cfg=cfg, p=p)

    # ---- 3. method strings, malformed systems, solve before assemble -----------------------------------------------------
    for _ in range(reps):
        for mstr in ["Forward_Euler", "BACKWARD_EULER", "Backward_euler", "euler", "crank_nicolson", "forward euler"]:
            for nt in [1, 3]:
                n = rng.randint(3, 5)
                cfg = {"af": gen_af(rng, n, 2, "ic", True), "times": gen_times(rng, "uniform", nt), "method": mstr, "solver": "fake_tuple", "tag": 7,
                       "gsol": None, "gobs": None, "tobs": "final", "omap": ["none"]}
                cell, p = "td/method-string/%s" % cmethod(mstr), gen_p(rng, 2)
                cases.add(cell, "td_direct", lambda: case_td_direct(cuqi, cfg, p, q, cell, trivial=(nt == 1)), cfg=cfg, p=p)
        for method in ["forward_euler", "backward_euler"]:
            n = rng.randint(3, 5)
            af = gen_af(rng, n, 2, "ic", False)
            bad = dict(af)
            if rng.random() < 0.5:
                bad["b0"] = af["b0"] + [1, 1]
                bad["bt"] = af["bt"] + [0, 0]
                bad["Bp"] = af["Bp"] + [[0, 0], [0, 0]]
            else:
                m = n + 2
                bad["A0"] = [[1 if i == j else 0 for j in range(m)] for i in range(m)]
                bad["At"] = [[0] * m for _ in range(m)]
            cfg = {"af": bad, "times": gen_times(rng, "uniform", 3), "method": method, "solver": "fake", "tag": 0, "gsol": None, "gobs": None,
                   "tobs": "final", "omap": ["none"], "malformed": True}
            cell, p = "td/malformed-system/%s" % method, gen_p(rng, 2)
            cases.add(cell, "td_direct", lambda: case_td_direct(cuqi, cfg, p, q, cell), cfg=cfg, p=p)

    # ---- 4. PDEModel.forward on time-dependent PDEs: sequences of calls on one object, domain geometry map ------------------
    for _ in range(reps):
        for method, sk in [("forward_euler", "default"), ("backward_euler", "fake"), ("backward_euler", "real_tuple"), ("backward_euler", "default")]:
            for rel, tkind in [("sol_only", "final"), ("equal_copy", "arr_final"), ("subgrid", "final"), ("sol_only", "all"), ("offnodes", "arr_offnodes"),
                               ("none_none", "final"), ("sol_only", "arr_nodes")]:
                for role in ["ic", "all"]:
                    n = rng.randint(4, nmax)
                    nt = rng.randint(4, nmax)
                    npar = rng.randint(2, n)
                    a, d = rng.choice([(1, 0), (2, 1), (0.5, -1)])
                    for attempt in range(20):
                        times = gen_times(rng, rng.choice(["uniform", "nonuniform"]), nt)
                        gs, go = gen_grids(rng, n, rel)
                        tobs, as_arr = gen_tobs(rng, tkind, times)
                        om = fix_omap(rng, gen_omap(rng, rng.choice(omaps), n), n if (go is None or gs is None) else len(go))
                        cfg = {"af": gen_af(rng, n, npar, role, rng.random() < 0.6), "times": times, "method": method, "solver": sk, "tag": 5,
                               "gsol": gs, "gobs": go, "tobs": tobs, "tobs_as_array": as_arr, "omap": om}
                        plist = [gen_p(rng, npar) for _ in range(3)]
                        if sk.startswith("fake") or method == "forward_euler" or all(well_conditioned(cfg, [a * v + d for v in x]) for x in plist):
                            break
                    cell = "td/forward/%s/%s/%s/%s/%s" % (method, sk, rel, tkind, role)
                    cases.add(cell, "td_forward", lambda: cases_td_forward(cuqi, cfg, plist, a, d, q, cell), cfg=cfg, plist=plist, a=a, d=d)

    # ---- 5. steady state: solver kinds x grid relation x observation map; forward sequences ------------------------------
    k = 0
    for _ in range(reps):
        for sk in solvers:
            for rel in GRID_RELS:
                for role in ["source", "operator"]:
                    k += 1
                    n = rng.randint(3, nmax)
                    npar = rng.randint(1, n)
                    gs, go = gen_grids(rng, n, rel)
                    om = fix_omap(rng, gen_omap(rng, omaps[k % len(omaps)], n), n if (go is None or gs is None) else len(go))
                    for attempt in range(20):
                        cfg = {"steady": True, "af": gen_af(rng, n, npar, role, False, steady=True), "solver": sk, "tag": rng.randint(1, 99), "gsol": gs,
                               "gobs": go, "omap": om}
                        plist = [gen_p(rng, npar) for _ in range(2)]
                        if sk.startswith("fake") or all(well_conditioned(cfg, x) for x in plist + [[2 * v + 1 for v in x] for x in plist]):
                            break
                    cell = "ss/direct/%s/%s/%s" % (sk, rel, om[0])
                    cases.add(cell, "ss_direct", lambda: case_ss_direct(cuqi, cfg, plist[0], cell), cfg=cfg, p=plist[0], assembled=True)
                    if k % 3 == 0:
                        a, d = rng.choice([(1, 0), (2, 1)])
                        cell = "ss/forward/%s/%s" % (sk, rel)
                        cases.add(cell, "ss_forward", lambda: cases_ss_forward(cuqi, cfg, plist, a, d, cell), cfg=cfg, plist=plist, a=a, d=d)
        cfg = {"steady": True, "af": gen_af(rng, 3, 2, "source", False, steady=True), "solver": "fake", "tag": 0, "gsol": None, "gobs": None, "omap": ["none"]}
        p = gen_p(rng, 2)
        cases.add("ss/not-assembled", "ss_direct", lambda: case_ss_direct(cuqi, cfg, p, "ss/not-assembled", assembled=False), cfg=cfg, p=p, assembled=False)

    # ---- 5b. grid SCALE x grid PERTURBATION x time perturbation on exactly polynomial solutions (branch = DECISION, values vs exact) ----
    k = 0
    for _ in range(reps if not ctx.thorough else 3):
        for s_exp in SCALES:
            for pt in PERTS:
                k += 1
                n = rng.randint(4, nmax)
                cfg = poly_ss_cfg(rng, n, s_exp, pt, ["default", "fake", "real_tuple"][k % 3])
                if cfg is not None:
                    p = [rng.choice([0.0, 1.0, -2.0, 0.5])]
                    cell = "ss/scale-pert/%s" % pert_name(pt)
                    cases.add(cell, "ss_direct", lambda: case_ss_direct(cuqi, cfg, p, cell), cfg=cfg, p=p, assembled=True)
                    if k % 3 == 0:
                        a, d = rng.choice([(1, 0), (2, 1)])
                        plist = [p, [rng.choice([1.0, -1.0, 2.0])]]
                        cell = "ss/scale-pert-forward/%s" % pert_name(pt)
                        cases.add(cell, "ss_forward", lambda: cases_ss_forward(cuqi, cfg, plist, a, d, cell), cfg=cfg, plist=plist, a=a, d=d)
                method, sk = [("forward_euler", "default"), ("backward_euler", "default"), ("backward_euler", "fake")][k % 3]
                cfg = poly_td_cfg(rng, rng.randint(4, nmax), rng.randint(4, nmax), s_exp, TSCALES[k % len(TSCALES)], pt, None if k % 4 else "two", method, sk)
                if cfg is not None:
                    p = [rng.choice([0.0, 1.0, -2.0, 0.5])]
                    cell = "td/scale-pert/%s" % pert_name(pt)
                    cases.add(cell, "td_direct", lambda: case_td_direct(cuqi, cfg, p, q, cell), cfg=cfg, p=p)
                    if k % 3 == 1:
                        a, d = rng.choice([(1, 0), (2, 1)])
                        plist = [p, [rng.choice([1.0, -1.0, 2.0])]]
                        cell = "td/scale-pert-forward/%s" % pert_name(pt)
                        cases.add(cell, "td_forward", lambda: cases_td_forward(cuqi, cfg, plist, a, d, q, cell), cfg=cfg, plist=plist, a=a, d=d)
        for t_exp in TSCALES:
            for tp in TPERTS:
                for pt in [("copy",), ("float32",), ("rel", 30, "one")]:
                    k += 1
                    method, sk = [("forward_euler", "default"), ("backward_euler", "default"), ("backward_euler", "fake")][k % 3]
                    cfg = poly_td_cfg(rng, rng.randint(4, nmax), rng.randint(4, nmax), SCALES[k % len(SCALES)], t_exp, pt, tp, method, sk)
                    if cfg is None:
                        continue
                    if pt[0] == "copy" and k % 2:
                        cfg["gobs"] = None
                    p = [rng.choice([0.0, 1.0, -2.0, 0.5])]
                    cell = "td/time-pert/2^-%d/%s" % (tp, pert_name(pt))
                    cases.add(cell, "td_direct", lambda: case_td_direct(cuqi, cfg, p, q, cell), cfg=cfg, p=p)
                    if k % 3 == 0:
                        plist = [p, [rng.choice([1.0, -1.0, 2.0])]]
                        cell = "td/time-pert-forward/2^-%d/%s" % (tp, pert_name(pt))
                        cases.add(cell, "td_forward", lambda: cases_td_forward(cuqi, cfg, plist, 1, 0, q, cell), cfg=cfg, plist=plist, a=1, d=0)

    # ---- 5c. VALUE scale 2^-60..2^60 (source and initial condition scaled; all comparisons purely relative) -----------------------
    k = 0
    for _ in range(reps if not ctx.thorough else 2):
        for vexp in VSCALES:
            for method, sk in [("forward_euler", "default"), ("backward_euler", "fake_tuple"), ("backward_euler", "default"), ("backward_euler", "real_tuple")]:
                for rel, tkind, om0 in [("sol_only", "final", "none"), ("offnodes", "arr_offnodes", "square"), ("subgrid", "all", "scale"), ("sol_only", "arr_mixed", "mat")]:
                    k += 1
                    n, nt = rng.randint(4, nmax), rng.randint(4, nmax)
                    npar = rng.randint(1, n)
                    for attempt in range(20):
                        times = gen_times(rng, rng.choice(["uniform", "nonuniform"]), nt)
                        gs, go = gen_grids(rng, n, rel)
                        tobs, as_arr = gen_tobs(rng, tkind, times)
                        om = fix_omap(rng, gen_omap(rng, om0, n), n if (go is None or gs is None) else len(go))
                        cfg = {"af": scale_af(gen_af(rng, n, npar, "all", True), vexp), "vexp": vexp, "times": times, "method": method, "solver": sk, "tag": 9,
                               "gsol": gs, "gobs": go, "tobs": tobs, "tobs_as_array": as_arr, "omap": om}
                        p = gen_p(rng, npar)
                        if sk.startswith("fake") or method == "forward_euler" or well_conditioned(cfg, p):
                            break
                    cell = "td/value-scale/2^%d/%s/%s/%s" % (vexp, method, sk, tkind)
                    if k % 2:
                        cases.add(cell, "td_direct", lambda: case_td_direct(cuqi, cfg, p, q, cell), cfg=cfg, p=p)
                    else:
                        plist = [p, gen_p(rng, npar)]
                        cases.add(cell, "td_forward", lambda: cases_td_forward(cuqi, cfg, plist, 1, 0, q, cell), cfg=cfg, plist=plist, a=1, d=0)
            for sk in ["default", "fake", "real_tuple"]:
                for rel, om0 in [("sol_only", "none"), ("offnodes", "square"), ("subgrid", "mat")]:
                    k += 1
                    n = rng.randint(3, nmax)
                    npar = rng.randint(1, n)
                    gs, go = gen_grids(rng, n, rel)
                    om = fix_omap(rng, gen_omap(rng, om0, n), n if (go is None or gs is None) else len(go))
                    for attempt in range(20):
                        cfg = {"steady": True, "af": scale_af(gen_af(rng, n, npar, "source", False, steady=True), vexp), "vexp": vexp, "solver": sk, "tag": 4,
                               "gsol": gs, "gobs": go, "omap": om}
                        plist = [gen_p(rng, npar) for _ in range(2)]
                        if sk.startswith("fake") or all(well_conditioned(cfg, x) for x in plist):
                            break
                    cell = "ss/value-scale/2^%d/%s/%s" % (vexp, sk, rel)
                    cases.add(cell, "ss_direct", lambda: case_ss_direct(cuqi, cfg, plist[0], cell), cfg=cfg, p=plist[0], assembled=True)
                    if k % 2:
                        cases.add(cell, "ss_forward", lambda: cases_ss_forward(cuqi, cfg, plist, 1, 0, cell), cfg=cfg, plist=plist, a=1, d=0)

    # ---- 5d. declaration styles of the same objects: sparse operators and the shipped sparse / iterative solver routes, scalar sources,
    #          PDE forms writing into persistent buffers, solvers overwriting their inputs / returning one reused buffer ------------------
    for _ in range(reps if not ctx.thorough else 2):
        for fmt in ["csr", "csc", "dia"]:
            for method, sk in [("forward_euler", "default"), ("backward_euler", "default"), ("backward_euler", "spsolve"), ("backward_euler", "cg_tuple")]:
                n, nt, npar = rng.randint(3, nmax), rng.randint(3, nmax), 2
                for attempt in range(20):
                    af = spd_af(rng, n, npar, False) if sk == "cg_tuple" else gen_af(rng, n, npar, "all", True)     # CG needs symmetry
                    cfg = {"af": af, "style": {"sparse": fmt}, "times": gen_times(rng, "nonuniform", nt), "method": method, "solver": sk,
                           "tag": 0, "gsol": None, "gobs": None, "tobs": "final", "omap": ["none"]}
                    p = gen_p(rng, npar)
                    if method == "forward_euler" or (well_conditioned(cfg, p) and well_conditioned(cfg, [2 * v for v in p])):
                        break
                cell = "td/style/sparse-%s/%s/%s" % (fmt, method, sk)
                cases.add(cell, "td_direct", lambda: case_td_direct(cuqi, cfg, p, q, cell), cfg=cfg, p=p)
                plist = [p, [2 * v for v in p]]
                cases.add(cell, "td_forward", lambda: cases_td_forward(cuqi, cfg, plist, 1, 0, q, cell + "/forward"), cfg=cfg, plist=plist, a=1, d=0)
            for sk in ["spsolve", "cg_tuple"]:
                n, npar = rng.randint(3, nmax), 2
                for attempt in range(20):
                    af = spd_af(rng, n, npar, True) if sk == "cg_tuple" else gen_af(rng, n, npar, "all", False, steady=True)
                    cfg = {"steady": True, "af": af, "style": {"sparse": fmt}, "solver": sk, "tag": 0, "gsol": None, "gobs": None, "omap": ["none"]}
                    plist = [gen_p(rng, npar), gen_p(rng, npar)]
                    if all(well_conditioned(cfg, x) for x in plist):
                        break
                cell = "ss/style/sparse-%s/%s" % (fmt, sk)
                cases.add(cell, "ss_direct", lambda: case_ss_direct(cuqi, cfg, plist[0], cell), cfg=cfg, p=plist[0], assembled=True)
                cases.add(cell, "ss_forward", lambda: cases_ss_forward(cuqi, cfg, plist, 1, 0, cell + "/forward"), cfg=cfg, plist=plist, a=1, d=0)
        for sk in ["cg_tuple", "spsolve"]:          # the same routes on dense operators
            n, npar = rng.randint(3, nmax), 2
            cfg = {"steady": True, "af": spd_af(rng, n, npar, True), "solver": sk, "tag": 0, "gsol": None, "gobs": None, "omap": ["none"]}
            p = gen_p(rng, npar)
            cases.add("ss/style/dense/%s" % sk, "ss_direct", lambda: case_ss_direct(cuqi, cfg, p, "ss/style/dense/%s" % sk), cfg=cfg, p=p, assembled=True)
        for src in ["scalar", "one"]:
            for method, sk in [("forward_euler", "default"), ("backward_euler", "fake"), ("backward_euler", "default")]:
                for nt in [1, 2, 5]:
                    n, npar = rng.randint(2, nmax), 2
                    cfg = {"af": scalar_source_af(rng, gen_af(rng, n, npar, "ic", True), npar), "style": {"src": src}, "times": gen_times(rng, "nonuniform", nt),
                           "method": method, "solver": sk, "tag": 0, "gsol": None, "gobs": None, "tobs": "final", "omap": ["none"]}
                    for attempt in range(20):
                        p = gen_p(rng, npar)
                        if sk == "fake" or method == "forward_euler" or well_conditioned(cfg, p):
                            break
                    cell = "td/style/source-%s/%s/%s" % (src, method, sk)
                    cases.add(cell, "td_direct", lambda: case_td_direct(cuqi, cfg, p, q, cell, trivial=(nt == 1)), cfg=cfg, p=p)
        for method, sk in [("forward_euler", "default"), ("backward_euler", "default"), ("backward_euler", "real_inplace"), ("backward_euler", "real_buffer"),
                           ("backward_euler", "fake")]:
            for buffered in (True, False):
                if not buffered and sk in ("default", "fake"):
                    continue
                n, nt, npar = rng.randint(3, nmax), rng.randint(3, nmax), 3
                for attempt in range(20):
                    cfg = {"af": gen_af(rng, n, npar, "all", True), "style": {"buffered": buffered}, "reuse_input": True,
                           "times": gen_times(rng, "nonuniform", nt), "method": method, "solver": sk, "tag": 0, "gsol": gen_grid(rng, n), "gobs": None, "tobs": rng.choice(["final", "all"]) if nt >= 4 else "final", "omap": ["none"]}
                    plist = [gen_p(rng, npar) for _ in range(3)]
                    if sk == "fake" or method == "forward_euler" or all(well_conditioned(cfg, x) for x in plist):
                        break
                cell = "td/style/%s/%s/%s" % ("buffered-form" if buffered else "fresh-form", method, sk)
                cases.add(cell, "td_forward", lambda: cases_td_forward(cuqi, cfg, plist, 1, 0, q, cell), cfg=cfg, plist=plist, a=1, d=0)
                cases.add(cell, "td_direct", lambda: case_td_direct(cuqi, cfg, plist[0], q, cell), cfg=cfg, p=plist[0])
        for sk in ["default", "real_buffer", "fake"]:
            n, npar = rng.randint(3, nmax), 2
            for attempt in range(20):
                cfg = {"steady": True, "af": gen_af(rng, n, npar, "operator", False, steady=True), "style": {"buffered": True}, "reuse_input": True,
                       "solver": sk, "tag": 0,
                       "gsol": None, "gobs": None, "omap": ["none"]}
                plist = [gen_p(rng, npar) for _ in range(3)]
                if sk == "fake" or all(well_conditioned(cfg, x) for x in plist):
                    break
            cell = "ss/style/buffered-form/%s" % sk
            cases.add(cell, "ss_forward", lambda: cases_ss_forward(cuqi, cfg, plist, 1, 0, cell), cfg=cfg, plist=plist, a=1, d=0)

        # histories of NEARLY identical parameters (relative 2^-12 / 2^-30 and absolute 2^-40 changes, then back): no call may reuse what an
        # earlier call assembled or solved
        for kind, sk, method in [("ss", "fake", None), ("ss", "default", None), ("td", "default", "forward_euler"), ("td", "fake", "backward_euler"),
                                 ("td", "default", "backward_euler")]:
            for role in ["operator", "all"]:
                n, npar = rng.randint(3, nmax), 2
                for attempt in range(20):
                    p0 = gen_p(rng, npar)
                    plist = [p0, [p0[0] * (1 + 2.0 ** -12), p0[1]], [p0[0] * (1 + 2.0 ** -30), p0[1] + 2.0 ** -40], p0, [p0[0], p0[1] * (1 - 2.0 ** -20)]]
                    if kind == "ss":
                        cfg = {"steady": True, "af": gen_af(rng, n, npar, role, False, steady=True), "solver": sk, "tag": 0, "gsol": None, "gobs": None,
                               "omap": ["none"], "tol": "12"}
                    else:
                        cfg = {"af": gen_af(rng, n, npar, role, True), "times": gen_times(rng, "nonuniform", rng.randint(3, 5)), "method": method, "solver": sk,
                               "tag": 0, "gsol": None, "gobs": None, "tobs": "final", "omap": ["none"], "tol": "12"}
                    if sk == "fake" or method == "forward_euler" or all(well_conditioned(cfg, x) for x in plist):
                        break
                cell = "%s/history-near-identical/%s/%s/%s" % (kind, sk, method or "steady", role)
                if kind == "ss":
                    cases.add(cell, "ss_forward", lambda: cases_ss_forward(cuqi, cfg, plist, 1, 0, cell), cfg=cfg, plist=plist, a=1, d=0)
                else:
                    cases.add(cell, "td_forward", lambda: cases_td_forward(cuqi, cfg, plist, 1, 0, q, cell), cfg=cfg, plist=plist, a=1, d=0)

    # ---- 5f. DTYPE of every input: operator / source / initial condition / parameter / grids / time steps as int64, int32, bool, float32,
    #          float64, Python list, complex (zero imaginary part); one component at a time and all together; result dtype = DECISION ---------
    for _ in range(reps if not ctx.thorough else 2):
        for comp in ["dt_ic", "dt_src", "dt_op", "dt_par", "ic_raw_param", "all"]:
            for dt_ in DTYPES:
                if dt_ == "list" and comp in ("dt_src", "dt_op"):
                    continue        # dt*rhs / dt*diff_op is numpy arithmetic: Python lists are not an accepted declaration there (TypeError)
                for method, sk in [("forward_euler", "default"), ("backward_euler", "default"), ("backward_euler", "real_tuple"), ("backward_euler", "fake")]:
                    binary = dt_ == "bool"
                    n = rng.randint(3, 5)
                    npar = n if comp == "ic_raw_param" else 2
                    for attempt in range(30):
                        af = dtype_af(rng, n, npar, binary, False)
                        if comp == "ic_raw_param":
                            af["c0"], af["Cp"] = [0] * n, [[1 if i == k else 0 for k in range(n)] for i in range(n)]
                            af["Bp"] = [[0] * n for _ in range(n)]
                        style = {"ic_raw_param": True, "dt_par": dt_} if comp == "ic_raw_param" else \
                            ({"dt_ic": dt_, "dt_par": dt_} if dt_ == "list" else {"dt_ic": dt_, "dt_src": dt_, "dt_op": dt_, "dt_par": dt_}) if comp == "all" else {comp: dt_}
                        cfg = {"af": af, "style": style, "times": gen_times(rng, rng.choice(["uniform", "nonuniform"]), rng.randint(2, 5)), "method": method,
                               "solver": sk, "tag": 6, "gsol": None, "gobs": None, "tobs": "final", "omap": ["none"]}
                        p = [rng.choice([0, 1]) for _ in range(npar)] if binary else [rng.randint(-3, 3) for _ in range(npar)]
                        if sk == "fake" or method == "forward_euler" or well_conditioned(cfg, p):
                            break
                    cell = "td/dtype/%s/%s/%s/%s" % (comp, dt_, method, sk)
                    if sk == "real_tuple":
                        plist = [p, [1 - v for v in p] if binary else [v + 1 for v in p]]
                        cases.add(cell, "td_forward", lambda: cases_td_forward(cuqi, cfg, plist, 1, 0, q, cell), cfg=cfg, plist=plist, a=1, d=0)
                    else:
                        cases.add(cell, "td_direct", lambda: case_td_direct(cuqi, cfg, p, q, cell), cfg=cfg, p=p)
        for comp in ["dt_src", "dt_op", "dt_par", "all"]:
            for dt_ in DTYPES:
                for sk in ["default", "fake"]:
                    binary = dt_ == "bool"
                    n, npar = rng.randint(3, 5), 2
                    for attempt in range(30):
                        style = {"dt_src": dt_, "dt_op": dt_, "dt_par": dt_} if comp == "all" else {comp: dt_}
                        cfg = {"steady": True, "af": dtype_af(rng, n, npar, binary, True), "style": style, "solver": sk, "tag": 0, "gsol": None, "gobs": None,
                               "omap": ["none"]}
                        plist = [[rng.choice([0, 1]) for _ in range(npar)] if binary else [rng.randint(-3, 3) for _ in range(npar)] for _ in range(2)]
                        if sk == "fake" or all(well_conditioned(cfg, x) for x in plist):
                            break
                    cell = "ss/dtype/%s/%s/%s" % (comp, dt_, sk)
                    cases.add(cell, "ss_direct", lambda: case_ss_direct(cuqi, cfg, plist[0], cell), cfg=cfg, p=plist[0], assembled=True)
                    if sk == "default":
                        cases.add(cell, "ss_forward", lambda: cases_ss_forward(cuqi, cfg, plist, 1, 0, cell + "/forward"), cfg=cfg, plist=plist, a=1, d=0)
        for gdt in ["int64", "int32", "float32", "list"]:
            for which in ["gsol_dtype", "gobs_dtype", "times_dtype"]:
                for kind in ["td", "ss"]:
                    if kind == "ss" and which == "times_dtype":
                        continue
                    n, nt = rng.randint(4, 6), rng.randint(4, 6)
                    gs = [float(i) for i in range(n)]
                    rel = rng.choice(["equal", "sub", "off"])
                    go = list(gs) if rel == "equal" else gs[1:-1] if rel == "sub" else [g + 0.5 for g in gs[:-1]]
                    if which == "gobs_dtype" and rel == "off":
                        go = gs[::2]
                    if kind == "td":
                        times = [float(k) for k in range(nt)] if which == "times_dtype" else gen_times(rng, "nonuniform", nt)
                        cfg = {"af": dtype_af(rng, n, 2, False, False), "times": times, "method": rng.choice(["forward_euler", "backward_euler"]), "solver": "fake",
                               "tag": 0, "gsol": gs, "gobs": go, which: gdt, "tobs": rng.choice(["final", "all"]), "omap": ["none"]}
                        p = [rng.randint(-3, 3) for _ in range(2)]
                        cell = "td/dtype/%s/%s" % (which, gdt)
                        cases.add(cell, "td_direct", lambda: case_td_direct(cuqi, cfg, p, q, cell), cfg=cfg, p=p)
                    else:
                        cfg = {"steady": True, "af": dtype_af(rng, n, 2, False, True), "solver": "fake", "tag": 0, "gsol": gs, "gobs": go, which: gdt, "omap": ["none"]}
                        p = [rng.randint(-3, 3) for _ in range(2)]
                        cell = "ss/dtype/%s/%s" % (which, gdt)
                        cases.add(cell, "ss_direct", lambda: case_ss_direct(cuqi, cfg, p, cell), cfg=cfg, p=p, assembled=True)

    # ---- 5g. genuinely complex-valued problems (operator, source, initial condition with imaginary parts), via the real embedding ---------
    for _ in range(reps if not ctx.thorough else 3):
        for steady, method, sk in [(False, "forward_euler", "default"), (False, "backward_euler", "fake"), (False, "backward_euler", "default"),
                                   (False, "backward_euler", "real_tuple"), (True, None, "default"), (True, None, "fake")]:
            cases.add("complex", "complex", lambda: case_complex(cuqi, rng, q, steady, method, sk))

    # ---- 5h. observe() alone on exactly bicubic data; the assumed laws of scipy's interpolants checked on scipy itself --------------------
    k = 0
    for _ in range(reps):
        for rel in ["sol_only", "equal_copy", "subgrid", "same_len_shifted", "offnodes"]:
            for tkind in ["final", "all", "arr_nodes", "arr_offnodes", "arr_mixed", "arr_one_node", "arr_unsorted"]:
                k += 1
                cases.add("td/observe-bicubic", "observe_poly", lambda: case_observe_poly(cuqi, rng, q, rel, tkind, omaps[k % len(omaps)]))
        for _i in range(ctx.n(6, 40)):
            cases.add("oracle-law/rbs", "law", lambda: case_oracle_law(rng, "rbs"))
            cases.add("oracle-law/interp1d", "law", lambda: case_oracle_law(rng, "interp1d"))

    # ---- 5i. the remaining lessons: memory layout, np.matrix / LinearOperator operators, omitted optional arguments and call styles,
    #          re-assigned attributes, falsy-but-legitimate values, operators without "nice" structure, threshold sizes, unsorted grid_obs ------
    for _ in range(reps if not ctx.thorough else 2):
        for lay in ["fortran", "strided", "reversed", "readonly", "matrix"]:
            for method, sk in [("forward_euler", "default"), ("backward_euler", "default"), ("backward_euler", "fake")]:
                n, nt, npar = rng.randint(3, 5), rng.randint(2, 5), 2
                for attempt in range(20):
                    style = {"dt_op": "matrix"} if lay == "matrix" else {"dt_op": lay if lay in ("fortran", "readonly") else None, "dt_src": None if lay in ("fortran",) else lay,
                                                                          "dt_ic": None if lay == "fortran" else lay, "dt_par": None if lay == "fortran" else lay}
                    cfg = {"af": gen_af(rng, n, npar, "all", True), "style": style, "times": gen_times(rng, "nonuniform", nt), "method": method, "solver": sk, "tag": 0,
                           "gsol": gen_grid(rng, n), "gobs": None, "gsol_dtype": None if lay in ("matrix", "fortran") else lay, "times_dtype": None if lay in ("matrix", "fortran") else lay,
                           "tobs": "final", "omap": ["none"]}
                    plist = [gen_p(rng, npar), gen_p(rng, npar)]
                    if sk == "fake" or method == "forward_euler" or all(well_conditioned(cfg, x) for x in plist):
                        break
                cell = "td/style/layout-%s/%s/%s" % (lay, method, sk)
                cases.add(cell, "td_forward", lambda: cases_td_forward(cuqi, cfg, plist, 1, 0, q, cell), cfg=cfg, plist=plist, a=1, d=0)
            n, npar = rng.randint(3, 5), 2
            style = {"dt_op": "matrix"} if lay == "matrix" else {"dt_op": lay if lay in ("fortran", "readonly") else None, "dt_src": None if lay == "fortran" else lay,
                                                                  "dt_par": None if lay == "fortran" else lay}
            for attempt in range(20):
                cfg = {"steady": True, "af": gen_af(rng, n, npar, "all", False, steady=True), "style": style, "solver": "default", "tag": 0, "gsol": None, "gobs": None,
                       "omap": ["none"]}
                plist = [gen_p(rng, npar), gen_p(rng, npar)]
                if all(well_conditioned(cfg, x) for x in plist):
                    break
            cell = "ss/style/layout-%s" % lay
            cases.add(cell, "ss_forward", lambda: cases_ss_forward(cuqi, cfg, plist, 1, 0, cell), cfg=cfg, plist=plist, a=1, d=0)
        # LinearOperator operator with the iterative route (steady; time stepping needs array arithmetic on the operator)
        n, npar = rng.randint(3, 5), 2
        cfg = {"steady": True, "af": spd_af(rng, n, npar, True), "style": {"linop": True}, "solver": "cg_tuple", "tag": 0, "gsol": None, "gobs": None, "omap": ["none"]}
        p = gen_p(rng, npar)
        cases.add("ss/style/LinearOperator/cg_tuple", "ss_direct", lambda: case_ss_direct(cuqi, cfg, p, "ss/style/LinearOperator/cg_tuple"), cfg=cfg, p=p, assembled=True)
        # optional arguments left out / given as their defaults in the other spelling; call styles of the model; model built around another PDE
        for extra in [{"omit_defaults": True}, {"lskw": "empty"}, {"call_style": "call"}, {"call_style": "kw"}, {"call_style": "is_par"}, {"swap_pde": True},
                      {"reassign": True}, {"reassign": True, "swap_pde": True}]:
            for kind, method, sk in [("td", "forward_euler", "default"), ("td", "backward_euler", "default"), ("td", "backward_euler", "fake_tuple"), ("ss", None, "default"), ("ss", None, "real_tuple")]:
                n, nt, npar = rng.randint(4, 5), rng.randint(4, 5), 2
                for attempt in range(20):
                    if kind == "td":
                        times = gen_times(rng, "nonuniform", nt)
                        rel = rng.choice(["none_none", "sol_only", "offnodes"]) if not extra.get("omit_defaults") else "none_none"
                        gs, go = gen_grids(rng, n, rel)
                        tob = "final" if (extra.get("omit_defaults") or not extra.get("reassign")) else [times[-1]]
                        if extra.get("reassign") and rel == "offnodes":
                            tob = [times[-1], times[-1]] if False else sorted([times[1], times[-1]])
                        cfg = dict({"af": gen_af(rng, n, npar, "all", True), "times": times, "method": method if not extra.get("omit_defaults") else "forward_euler",
                                    "solver": sk if not (extra.get("omit_defaults") and sk != "default") else "default", "tag": 0, "gsol": gs, "gobs": go, "tobs": tob,
                                    "omap": [rng.choice(["none", "square"])] if not extra.get("omit_defaults") else ["none"]}, **extra)
                    else:
                        gs, go = gen_grids(rng, n, rng.choice(["none_none", "sol_only", "offnodes"]) if not extra.get("omit_defaults") else "none_none")
                        cfg = dict({"steady": True, "af": gen_af(rng, n, npar, "all", False, steady=True), "solver": sk if not extra.get("omit_defaults") else "default", "tag": 0,
                                    "gsol": gs, "gobs": go, "omap": [rng.choice(["none", "square"])] if not extra.get("omit_defaults") else ["none"]}, **extra)
                    plist = [gen_p(rng, npar), gen_p(rng, npar)]
                    if cfg["solver"].startswith("fake") or cfg.get("method") == "forward_euler" or all(well_conditioned(cfg, x) for x in plist):
                        break
                cell = "%s/entry-points/%s/%s" % (kind, "+".join("%s=%s" % kv for kv in sorted(extra.items())), cfg["solver"])
                if kind == "td":
                    cases.add(cell, "td_forward", lambda: cases_td_forward(cuqi, cfg, plist, 1, 0, q, cell), cfg=cfg, plist=plist, a=1, d=0)
                    if not extra.get("call_style") and not extra.get("swap_pde"):
                        cases.add(cell, "td_direct", lambda: case_td_direct(cuqi, cfg, plist[0], q, cell), cfg=cfg, p=plist[0])
                else:
                    cases.add(cell, "ss_forward", lambda: cases_ss_forward(cuqi, cfg, plist, 1, 0, cell), cfg=cfg, plist=plist, a=1, d=0)
                    if not extra.get("call_style") and not extra.get("swap_pde"):
                        cases.add(cell, "ss_direct", lambda: case_ss_direct(cuqi, cfg, plist[0], cell), cfg=cfg, p=plist[0], assembled=True)
        # falsy-but-legitimate values: zero parameter and zero data (solution identically 0), a repeated time (dt = 0), zero scaling map,
        # tag / info 0, observation at time 0.0
        for method, sk in [("forward_euler", "default"), ("backward_euler", "real_tuple"), ("backward_euler", "fake_tuple")]:
            n, npar = rng.randint(3, 5), 2
            af = gen_af(rng, n, npar, "all", True)
            af0 = dict(af, b0=[0] * n, bt=[0] * n, c0=[0] * n, ct=[0] * n)
            times = [0.0, 0.25, 0.25, 0.5, 1.0]
            for afx, p, om, tob in [(af0, [0.0, 0.0], ["none"], "final"), (af, [0.0, 0.0], ["scale", 0.0], "final"), (af, gen_p(rng, npar), ["none"], [0.0]),
                                    (af, [0.0, 1.0], ["first"], "final")]:
                for attempt in range(20):
                    cfg = {"af": afx, "times": times, "method": method, "solver": sk, "tag": 0, "gsol": None, "gobs": None, "tobs": tob, "omap": om}
                    if sk.startswith("fake") or method == "forward_euler" or well_conditioned(cfg, p):
                        break
                    afx = dict(gen_af(rng, n, npar, "all", True), **({"b0": [0] * n, "bt": [0] * n, "c0": [0] * n, "ct": [0] * n} if afx is af0 else {}))
                cell = "td/falsy/%s/%s/%s" % (method, sk, om[0] + ("-zero" if p == [0.0, 0.0] else ""))
                cases.add(cell, "td_direct", lambda: case_td_direct(cuqi, cfg, p, q, cell), cfg=cfg, p=p)
        # operators without nice structure: indefinite / negative determinant steady operators, growth operators for backward Euler
        for _j in range(3):
            n, npar = rng.randint(2, 5), 2
            for attempt in range(50):
                A0 = [[rng.randint(-4, 4) for _ in range(n)] for _ in range(n)]
                if abs(np.linalg.det(np.array(A0, float))) > 0.5 and np.linalg.det(np.array(A0, float)) < 0 and np.linalg.cond(np.array(A0, float)) < 200:
                    break
            af = gen_af(rng, n, npar, "source", False, steady=True)
            cfg = {"steady": True, "af": dict(af, A0=A0), "solver": rng.choice(["default", "real_tuple", "fake"]), "tag": 1, "gsol": None, "gobs": None, "omap": ["none"]}
            p = gen_p(rng, npar)
            cases.add("ss/structure/negative-determinant", "ss_direct", lambda: case_ss_direct(cuqi, cfg, p, "ss/structure/negative-determinant"), cfg=cfg, p=p, assembled=True)
            af = gen_af(rng, n, npar, "all", True)
            af = dict(af, A0=[[(8 if i == j else 0) + af["A0"][i][j] for j in range(n)] for i in range(n)])
            for attempt in range(20):
                cfg = {"af": af, "times": gen_times(rng, "nonuniform", 4), "method": "backward_euler", "solver": rng.choice(["default", "real_tuple"]), "tag": 1, "gsol": None,
                       "gobs": None, "tobs": "final", "omap": ["none"]}
                p = gen_p(rng, npar)
                if well_conditioned(cfg, p):
                    break
            cases.add("td/structure/growth-operator", "td_direct", lambda: case_td_direct(cuqi, cfg, p, q, "td/structure/growth-operator"), cfg=cfg, p=p)
        # threshold sizes: 1 and 2 nodes, 2/3 nodes for the quadratic interpolant, 3/4 nodes and levels for the bicubic one
        for n in [1, 2]:
            for method, sk in [("forward_euler", "default"), ("backward_euler", "default"), ("backward_euler", "fake_tuple")]:
                for attempt in range(20):
                    cfg = {"af": gen_af(rng, n, 1, "all", True), "times": gen_times(rng, "nonuniform", 3), "method": method, "solver": sk, "tag": 2, "gsol": None, "gobs": None,
                           "tobs": rng.choice(["final", "all"]) if n > 1 else "final", "omap": [rng.choice(["none", "first"])]}
                    p = gen_p(rng, 1)
                    if sk.startswith("fake") or method == "forward_euler" or well_conditioned(cfg, p):
                        break
                cell = "td/threshold/%d-nodes/%s/%s" % (n, method, sk)
                cases.add(cell, "td_direct", lambda: case_td_direct(cuqi, cfg, p, q, cell), cfg=cfg, p=p)
        for n in [1, 2, 3, 4]:
            gs = gen_grid(rng, n)
            for go in ([[gs[0]]] if n == 1 else [[(gs[0] + gs[1]) / 2], [gs[-1], gs[0]], [gs[0]]]):
                for attempt in range(20):
                    cfg = {"steady": True, "af": gen_af(rng, n, 1, "source", False, steady=True), "solver": "default", "tag": 0, "gsol": gs, "gobs": go, "omap": ["none"]}
                    p = gen_p(rng, 1)
                    if well_conditioned(cfg, p):
                        break
                cell = "ss/threshold/%d-nodes" % n
                cases.add(cell, "ss_direct", lambda: case_ss_direct(cuqi, cfg, p, cell), cfg=cfg, p=p, assembled=True)
        # observation nodes in any order (steady: interp1d accepts unsorted points; coinciding nodes listed right-to-left)
        for kind in ["nodes-reversed", "nodes-shuffled", "offnodes-shuffled", "mixed-shuffled"]:
            for sk in ["default", "fake"]:
                n, npar = rng.randint(4, 6), 2
                gs = gen_grid(rng, n)
                pts = rng.sample(gs, rng.randint(2, n)) if kind.startswith("nodes") else [(gs[i] + gs[i + 1]) / 2 for i in rng.sample(range(n - 1), rng.randint(2, n - 1))]
                if kind == "mixed-shuffled":
                    pts = pts[:2] + rng.sample(gs, 2)
                go = sorted(pts, reverse=True) if kind == "nodes-reversed" else pts
                if go == sorted(go):
                    go = go[::-1]
                for attempt in range(20):
                    cfg = {"steady": True, "af": gen_af(rng, n, npar, "all", False, steady=True), "solver": sk, "tag": 0, "gsol": gs, "gobs": go,
                           "omap": [rng.choice(["none", "first", "square"])]}
                    plist = [gen_p(rng, npar), gen_p(rng, npar)]
                    if sk == "fake" or all(well_conditioned(cfg, x) for x in plist):
                        break
                cell = "ss/unsorted-grid_obs/%s/%s" % (kind, sk)
                cases.add(cell, "ss_direct", lambda: case_ss_direct(cuqi, cfg, plist[0], cell), cfg=cfg, p=plist[0], assembled=True)
                cases.add(cell, "ss_forward", lambda: cases_ss_forward(cuqi, cfg, plist, 1, 0, cell), cfg=cfg, plist=plist, a=1, d=0)

    # ---- 5j. families from the round-4 lessons (L14-L26) ---------------------------------------------------------------------------------
    for _ in range(reps if not ctx.thorough else 2):
        for sk in ["default", "fake_tuple"]:                                                        # L14 refusals in every life-cycle state
            cases.add("td/lifecycle", "lifecycle", lambda: case_lifecycle_td(cuqi, rng, q, sk))
            cases.add("ss/lifecycle", "lifecycle_ss", lambda: case_lifecycle_ss(cuqi, rng, sk))
        for hg, hj in [(True, False), (False, True), (True, True), (False, False)]:                 # L15 over time + L23 instance attributes
            for inst in (False, True):
                cases.add("gradient/reused-arguments", "gradient_reused", lambda: case_gradient_reused(cuqi, rng, hg, hj, inst))
        for sk in ["default", "fake"]:                                                               # L16 composite input kinds, L21 one column
            for ns in [1, 3]:
                cases.add("ss/forward-samples", "forward_samples", lambda: cases_forward_samples(cuqi, rng, sk, ns, "samples"))
            cases.add("ss/forward-cuqiarray", "forward_samples", lambda: cases_forward_samples(cuqi, rng, sk, 1, "cuqiarray"))
        for method, sk in [("forward_euler", "default"), ("backward_euler", "fake"), ("backward_euler", "default")]:   # L18 exact zeros inside generic data
            n, npar = rng.randint(3, 5), 2
            for attempt in range(20):
                af = gen_af(rng, n, npar, "all", False)
                af = dict(af, b0=[0 if i % 2 == 0 else rng.choice([-2, 1, 3]) for i in range(n)], c0=[rng.choice([-1, 2]) if i % 2 == 0 else 0 for i in range(n)])
                cfg = {"af": af, "times": gen_times(rng, "nonuniform", 4), "method": method, "solver": sk, "tag": 0, "gsol": None, "gobs": None, "tobs": "final", "omap": ["none"]}
                plist = [[0.0, 2.0], [1.5, 0.0], [0.0, 2.0]]
                if sk == "fake" or method == "forward_euler" or all(well_conditioned(cfg, x) for x in plist):
                    break
            cell = "td/zeros-inside/%s/%s" % (method, sk)
            cases.add(cell, "td_forward", lambda: cases_td_forward(cuqi, cfg, plist, 1, 0, q, cell), cfg=cfg, plist=plist, a=1, d=0)
        n, npar = rng.randint(3, 5), 2
        for attempt in range(20):
            af = gen_af(rng, n, npar, "all", False, steady=True)
            cfg = {"steady": True, "af": dict(af, b0=[0 if i % 2 == 0 else 2 for i in range(n)]), "solver": "default", "tag": 0, "gsol": None, "gobs": None, "omap": ["none"]}
            plist = [[0.0, 2.0], [1.5, 0.0]]
            if all(well_conditioned(cfg, x) for x in plist):
                break
        cases.add("ss/zeros-inside", "ss_forward", lambda: cases_ss_forward(cuqi, cfg, plist, 1, 0, "ss/zeros-inside"), cfg=cfg, plist=plist, a=1, d=0)
        for ostyle, om0, tkind in [("fortran", "mat", "all"), ("fortran", "square", "arr_offnodes"), ("buffer", "scale", "all"), ("buffer", "mat", "final")]:   # L19
            n, nt, npar = rng.randint(4, 5), rng.randint(4, 5), 2
            times = gen_times(rng, "nonuniform", nt)
            gs, go = gen_grids(rng, n, "offnodes")
            tobs, as_arr = gen_tobs(rng, tkind, times)
            if tkind == "arr_offnodes" and len(tobs) < 2:
                tobs = sorted({(times[0] + times[1]) / 2, (times[1] + times[2]) / 2})
            om = fix_omap(rng, gen_omap(rng, om0, n), len(go))
            cfg = {"af": gen_af(rng, n, npar, "all", True), "times": times, "method": "forward_euler", "solver": "default", "tag": 0, "gsol": gs, "gobs": go, "tobs": tobs,
                   "tobs_as_array": as_arr, "omap": om, "omap_style": ostyle}
            p = gen_p(rng, npar)
            cell = "td/style/omap-%s/%s/%s" % (ostyle, om0, tkind)
            cases.add(cell, "td_direct", lambda: case_td_direct(cuqi, cfg, p, q, cell), cfg=cfg, p=p)
        for kind in ["td", "ss"]:
            for sk in ["real_strided", "real_named"]:                                              # L19 strided answers, L23 tuple subclass
                n, npar = rng.randint(3, 5), 2
                for attempt in range(20):
                    if kind == "td":
                        cfg = {"af": gen_af(rng, n, npar, "all", True), "times": gen_times(rng, "nonuniform", 4), "method": "backward_euler", "solver": sk, "tag": 0,
                               "gsol": None, "gobs": None, "tobs": "all", "tobs_np_str": True, "omap": ["none"]}
                    else:
                        cfg = {"steady": True, "af": gen_af(rng, n, npar, "all", False, steady=True), "solver": sk, "tag": 0, "gsol": None, "gobs": None, "omap": ["none"]}
                    plist = [gen_p(rng, npar), gen_p(rng, npar)]
                    if all(well_conditioned(cfg, x) for x in plist):
                        break
                cell = "%s/style/solver-%s" % (kind, sk)
                if kind == "td":
                    cases.add(cell, "td_direct", lambda: case_td_direct(cuqi, cfg, plist[0], q, cell), cfg=cfg, p=plist[0])
                    cases.add(cell, "td_forward", lambda: cases_td_forward(cuqi, cfg, plist, 1, 0, q, cell), cfg=cfg, plist=plist, a=1, d=0)
                else:
                    cases.add(cell, "ss_forward", lambda: cases_ss_forward(cuqi, cfg, plist, 1, 0, cell), cfg=cfg, plist=plist, a=1, d=0)
        for tkind in ["final", "two"]:                                                             # L20 integer solution array
            cases.add("td/observe-int-solution", "observe_int", lambda: case_observe_int(cuqi, rng, q, tkind))
        cases.add("custom-PDE-subclass", "custom_pde", lambda: case_custom_pde(cuqi, rng))        # L24
        for kind, method, sk in [("td", "forward_euler", "default"), ("td", "backward_euler", "default"), ("ss", None, "default"), ("ss", None, "fake")]:   # L25
            n, npar = rng.randint(3, 5), 2
            for attempt in range(20):
                if kind == "td":
                    cfg = {"af": gen_af(rng, n, npar, "all", True), "times": gen_times(rng, "nonuniform", 4), "method": method, "solver": sk, "tag": 0, "gsol": None,
                           "gobs": None, "tobs": "final", "omap": ["none"], "two_models": True, "tol": "12"}
                else:
                    cfg = {"steady": True, "af": gen_af(rng, n, npar, "all", False, steady=True), "solver": sk, "tag": 0, "gsol": None, "gobs": None, "omap": ["none"],
                           "two_models": True, "tol": "12"}
                x, y = gen_p(rng, npar), gen_p(rng, npar)
                plist = [x, y, x, y, x]
                if sk == "fake" or method == "forward_euler" or all(well_conditioned(cfg, [a_ * v + d_ for v in z]) for z in (x, y) for a_, d_ in ((1, 0), (2, 1))):
                    break
            cell = "%s/two-models-one-pde/%s/%s" % (kind, method or "steady", sk)
            if kind == "td":
                cases.add(cell, "td_forward", lambda: cases_td_forward(cuqi, cfg, plist, 1, 0, q, cell), cfg=cfg, plist=plist, a=1, d=0)
            else:
                cases.add(cell, "ss_forward", lambda: cases_ss_forward(cuqi, cfg, plist, 1, 0, cell), cfg=cfg, plist=plist, a=1, d=0)
        for pt in [("abs", 12, "all"), ("abs", 12, "one"), ("copy",)]:                              # L26 large offsets of grids and times
            kk = rng.randint(0, 2)
            cfg = poly_ss_cfg(rng, rng.randint(4, 6), 0, pt, ["default", "fake", "real_tuple"][kk], goff=2.0 ** 24)
            p = [rng.choice([0.0, 1.0, -2.0])]
            cell = "ss/large-offset/%s" % pert_name(pt)
            if cfg is not None:
                cases.add(cell, "ss_direct", lambda: case_ss_direct(cuqi, cfg, p, cell), cfg=cfg, p=p, assembled=True)
            cfg = poly_td_cfg(rng, rng.randint(4, 6), rng.randint(4, 6), 0, 0, pt, None if pt[0] != "copy" else 30, "forward_euler", "default", goff=2.0 ** 24, toff=2.0 ** 20)
            cell = "td/large-offset/%s" % pert_name(pt)
            if cfg is not None:
                cases.add(cell, "td_direct", lambda: case_td_direct(cuqi, cfg, p, q, cell), cfg=cfg, p=p)
    for which in ["Heat1D", "Poisson1D"]:                                                          # L22 shipped defaults
        cases.add("testproblem/%s/shipped-defaults" % which, "tp_defaults", lambda: case_tp_defaults(cuqi, which))

    # ---- 5e. solutions with two space axes (solution.ndim = 3): restriction route vs the refusing interpolation route -------------------
    for _ in range(reps):
        for gkind in ["none", "equal", "differ"]:
            for tkind in ["final", "arr_final", "arr_one_node", "all", "arr_nodes", "arr_offnodes", "arr_mixed"]:
                cases.add("td/observe-2dspace/%s/%s" % (gkind, tkind), "observe3d", lambda: case_observe_3d(cuqi, rng, q, gkind, tkind))

    # ---- 5f. deepen3: the interpolation routines inside the model; solver conventions; three space axes -------------------------------
    som = ["none", "square", "scale", "first", "from", "mat"]
    kk = 0
    for _ in range(ctx.n(2, 12)):
        for variant in SS_OBS_VARIANTS:
            kk += 1
            om0 = som[kk % len(som)]
            cases.add("ss/observe-alone/%s" % variant, "ss_observe", lambda: case_ss_observe(cuqi, rng, variant, om0))
    for _ in range(ctx.n(1, 6)):
        for where in ["space", "time", "both", "far"]:
            for om0 in ["none", "scale", "first"]:
                cases.add("td/observe-outside/%s" % where, "observe_outside", lambda: case_observe_outside(cuqi, rng, q, where, om0))
    for conv in RET_CONVENTIONS:
        for steady in (True, False):
            cases.add("solver-convention/%s" % conv, "solver_convention", lambda: case_solver_convention(cuqi, rng, conv, steady))
    for _ in range(reps):
        for gkind in ["none", "equal", "differ"]:
            for tkind in ["final", "arr_final", "arr_one_node", "all", "arr_nodes", "arr_unsorted", "arr_final_twice", "arr_offnodes", "arr_mixed", "arr_empty"]:
                cases.add("td/observe-3dspace/%s/%s" % (gkind, tkind), "observe4d", lambda: case_observe_4d(cuqi, rng, q, gkind, tkind))
        for tkind in ["arr_unsorted", "arr_final_twice", "arr_empty"]:
            cases.add("td/observe-2dspace/equal/%s" % tkind, "observe3d", lambda: case_observe_3d(cuqi, rng, q, "equal", tkind))

    # ---- 6. grids bookkeeping, gradient dispatch, shipped test problems ---------------------------------------------------
    for _ in range(ctx.n(40, 400)):
        cases.add("grids/setters", "grids", lambda: case_grids(cuqi, rng, rng.randint(3, 5)))
    for _ in range(ctx.n(3, 25)):
        for hg in (True, False):
            for hj in (True, False):
                for steady in (True, False):
                    cases.add("gradient", "gradient", lambda: case_gradient(cuqi, rng, hg, hj, steady))
    for hg in (True, False):
        for hj in (True, False):
            for shape in [(4, 4), (3, 3), (4, 2), (2, 4), (1, 3), (3, 1)]:
                cases.add("gradient", "gradient", lambda: case_gradient(cuqi, rng, hg, hj, rng.random() < 0.5, shape))
    cases_testproblems(cuqi, ctx, q, cases)
    # the shipped test problems run the in-model splines / Gauss-Jordan on their default grids (one case costs 5-60 s of
    # vm_compute): spread them over the shards (one per shard) instead of leaving them together in the last one
    _all = list(cases)
    _heavy = [c for c in _all if c.cell.startswith("testproblem/")]
    _light = [c for c in _all if not c.cell.startswith("testproblem/")]
    for _j, _c in enumerate(_heavy):
        _light.insert(min(_j * SHARD_SIZE, len(_light)), _c)
    return Result(cases=_light, rule=RULE,
                  extra={"tree_state": q},
                  assumptions=["real linear solvers (scipy.linalg.solve, user solvers) enter the model as the table of the calls they answered; "
                               "the law A x = b is checked on every entry to 1e-9 per component",
                               "scipy.interpolate.interp1d(kind='quadratic') / RectBivariateSpline are MODELLED (exact interpolating splines, truncated-power basis, "
                               "Gauss-Jordan with checked inverse, Model/C18_Spline.v); the table of the calls scipy answered is compared with the in-model routines entry "
                               "by entry (same exception class / values within 1e-9 of the largest solution entry) and node-exactness is checked on every entry; the oracle "
                               "compares with an independent Cox-de Boor B-spline interpolation to 1e-7",
                               "floating rounding is not modelled: cases whose exact arithmetic stays dyadic with denominator <= 2^24 and magnitude < 2^20 are compared bit-for-bit, the others within 1e-9/1e-12 relative to 1+|value| (solution values are O(1)..O(100) by construction; grids and times are always compared exactly, never within a tolerance)"])


# ------------------------------------------------------------------------------------------------
def classify(meta, detail):
    return {"td_direct": "TimeDependentLinearPDE", "td_forward": "PDEModel._forward_func", "ss_direct": "SteadyStateLinearPDE",
            "ss_forward": "PDEModel._forward_func", "grids": "PDE.grids_equal", "gradient": "PDEModel._gradient_func",
            "tp_poisson": "Poisson1D.model", "tp_heat": "Heat1D.model"}.get(meta.get("kind"), "C18")


def oracle(ctx, meta):
    """re-check the property itself on the implementation for one stored case"""
    import cuqi
    q, _ = tree_quirks(cuqi)
    k = meta.get("kind")
    if k == "td_direct":
        f = oracle_td(meta["cfg"], meta["p"], drive_td_direct(cuqi, meta["cfg"], meta["p"]), q)
        return f[0] if f else None
    if k == "ss_direct":
        f = oracle_ss(meta["cfg"], meta["p"], drive_ss_direct(cuqi, meta["cfg"], meta["p"], assemble=meta["assembled"]), meta["assembled"])
        return f[0] if f else None
    cs = []
    if k == "td_forward":
        cs = cases_td_forward(cuqi, meta["cfg"], meta["plist"], meta["a"], meta["d"], q, "oracle")
    elif k == "ss_forward":
        cs = cases_ss_forward(cuqi, meta["cfg"], meta["plist"], meta["a"], meta["d"], "oracle")
    elif k == "tp_poisson":
        cs = [case_tp_poisson(cuqi, q, meta["dim"], meta["ogm"], meta["x"], meta.get("field"))]
    elif k == "tp_heat":
        cs = [case_tp_heat(cuqi, q, meta["dim"], meta["max_time"], meta["ogm"], meta["x"], meta.get("field"))]
    elif k == "ss_observe":
        cs = [case_ss_observe(cuqi, None, meta["variant"], None, inputs=meta["inputs"])]
    elif k == "solver_convention":
        import random
        cs = [case_solver_convention(cuqi, random.Random(0), meta["conv"], meta["steady"])]
    for c in cs:
        if c.impl_fail:
            return c.impl_fail
    return None


def replay(ctx, meta):
    import cuqi
    m = meta.get("meta", meta)
    print(json.dumps({k: v for k, v in meta.items() if k != "meta"}, indent=1, default=str)[:3000])
    k = m.get("kind")
    q, wit = tree_quirks(cuqi)
    if "witness" in m:
        for sig, (fails, detail) in wit.items():
            print("%s: %s -> %s" % (sig, detail, "still fails" if fails else "no longer fails"))
        return 0
    np.set_printoptions(precision=12, linewidth=160)
    if k == "td_direct":
        cfg, p = m["cfg"], m["p"]
        print("configuration:", json.dumps({kk: vv for kk, vv in cfg.items() if kk != "af"}))
        print("PDE form (affine family):", json.dumps(cfg["af"]))
        print("parameter:", p)
        ob = drive_td_direct(cuqi, cfg, p)
        print("implementation: stage=%s %s" % (ob["stage"], ob.get("err", "")))
        if ob["stage"] == "run":
            print(" stored solution (rows = nodes, columns = time levels):\n", ob["u"])
            print(" info:", ob["info"], " interpolation calls:", ob["ninterp"])
            print(" observe():", ob["obs"])
            if cmethod(cfg["method"]) == "MFwd" and not cfg.get("malformed"):
                print("expected levels by the forward-Euler recurrence (exact):\n", np.array([[float(v) for v in l] for l in o_expected_levels(cfg, p)]).T)
        f = oracle_td(cfg, p, ob, q)
        print("independent oracle:", f[0] if f else "property holds on this case")
        c = case_td_direct(cuqi, cfg, p, q, "replay")
        rc, out = eval_in_coq(IMPORTS, c.expr, tag="replay_C18")
        print("model check (true = model agrees with the implementation):", out[-200:])
        return 0
    if k == "ss_direct":
        cfg, p = m["cfg"], m["p"]
        ob = drive_ss_direct(cuqi, cfg, p, assemble=m["assembled"])
        print("configuration:", json.dumps(cfg))
        print("implementation:", {kk: vv for kk, vv in ob.items() if kk != "rec"})
        f = oracle_ss(cfg, p, ob, m["assembled"])
        print("independent oracle:", f[0] if f else "property holds on this case")
        c = case_ss_direct(cuqi, cfg, p, "replay", m["assembled"])
        rc, out = eval_in_coq(IMPORTS, c.expr, tag="replay_C18")
        print("model check (true = model agrees with the implementation):", out[-200:])
        return 0
    if k in ("td_forward", "ss_forward"):
        cfg = m["cfg"]
        print("configuration:", json.dumps(cfg))
        cs = cases_td_forward(cuqi, cfg, m["plist"], m["a"], m["d"], q, "replay") if k == "td_forward" else cases_ss_forward(cuqi, cfg, m["plist"], m["a"], m["d"], "replay")
        for i, c in enumerate(cs):
            rc, out = eval_in_coq(IMPORTS, c.expr, tag="replay_C18")
            print("call %d, x=%s: oracle: %s ; model check: %s" % (i, m["plist"][i], c.impl_fail or "ok", out[-60:].replace("\n", " ")))
        return 0
    if k == "ss_observe":
        gs, go, sol, coef, om = m["inputs"]
        print("SteadyStateLinearPDE(grid_sol=%s, grid_obs=%s, observation_map=%s).observe(%s)" % (gs, go, om, sol))
        if coef is not None:
            print("the solution is the quadratic %s + %s x + %s x^2 on grid_sol" % tuple(coef))
        pde = cuqi.pde.SteadyStateLinearPDE(lambda p: (np.eye(len(gs)), p), grid_sol=np.array(gs), grid_obs=np.array(go), observation_map=pymap(om))
        print("implementation:", outcome(lambda: np.asarray(pde.observe(np.array(sol, dtype=float)))))
        c = case_ss_observe(cuqi, None, m["variant"], None, inputs=m["inputs"])
        print("independent oracle:", c.impl_fail or "property holds on this case")
        rc, out = eval_in_coq(IMPORTS, c.expr, tag="replay_C18")
        print("model check (true = the in-model quadratic spline agrees with the implementation):", out[-200:])
        rc, out = eval_in_coq(IMPORTS, "ss_observe (omap_fun %s) interp1_quad (init_grids %s %s) %s" % (comap(om), cgrid(gs), cgrid(go), qcv(sol)), tag="replay_C18")
        print("model value:", out[-1500:])
        return 0
    if k == "solver_convention":
        import random
        c = case_solver_convention(cuqi, random.Random(0), m["conv"], m["steady"])
        print("linalg_solve answering in the convention %r (%s): expression %s" % (m["conv"], "steady" if m["steady"] else "backward Euler", c.expr))
        print("independent oracle:", c.impl_fail or "property holds on this case")
        rc, out = eval_in_coq(IMPORTS, c.expr, tag="replay_C18")
        print("model check:", out[-200:])
        return 0
    if k in ("observe3d", "observe4d"):
        sol = np.array(m["sol"], dtype=float)
        n1 = sol.shape[0]
        g = [0.5 * i for i in range(n1)]
        gs, go = {"none": (None, None), "equal": (g, list(g))}.get(m["gkind"], (g, [v + 0.25 for v in g]))
        tobs = m["tobs"]
        pde = cuqi.pde.TimeDependentLinearPDE(lambda p, t: (np.eye(n1), np.zeros(n1), p), np.array(m["times"]), time_obs=np.array(tobs) if isinstance(tobs, list) else tobs,
                                              grid_sol=aslist(gs), grid_obs=aslist(go))
        print("solution of shape %s, time_steps=%s, time_obs=%s, grids %s" % (sol.shape, m["times"], tobs, m["gkind"]))
        o = outcome(lambda: np.asarray(pde.observe(sol)))
        print("implementation: observe() ->", o if o[0] == "err" else ("ok, shape %s" % (o[1].shape,), o[1].tolist()))
        ti = [idx_of(t, m["times"]) for t in (tobs if isinstance(tobs, list) else [m["times"][-1]] if tobs.lower() == "final" else m["times"])]
        if all(i is not None for i in ti):
            print("stored slices at the requested times (time axis last):", sol[..., ti].tolist())
        return 0
    if k == "observe_outside":
        gs, go, times, tobs, C, om = m["gsol"], m["gobs"], m["times"], m["tobs"], m["C"], m["omap"]
        U = np.array([[float(bicubic_eval(C, x, t)) for t in times] for x in gs])
        pde = cuqi.pde.TimeDependentLinearPDE(lambda p, t: (np.eye(len(gs)), np.zeros(len(gs)), np.zeros(len(gs))), np.array(times), time_obs=np.array(tobs),
                                              grid_sol=np.array(gs), grid_obs=np.array(go), observation_map=pymap(om))
        print("samples of the bicubic polynomial with coefficients C[a][b] (x^a t^b) = %s on grid_sol=%s x time_steps=%s" % (C, gs, times))
        print("grid_obs=%s time_obs=%s observation_map=%s" % (go, tobs, om))
        print("implementation: observe() ->", outcome(lambda: np.asarray(pde.observe(U)).tolist()))
        cl = lambda v, lo, hi: min(max(v, lo), hi)
        print("the polynomial at the nearest points of the data rectangle (before the observation map):",
              [[float(bicubic_eval(C, cl(x, gs[0], gs[-1]), cl(t, times[0], times[-1]))) for t in tobs] for x in go])
        return 0
    print("re-run the generator with the stored seed to reproduce this case kind:", k)
    return 0
