(* C10 -- the two three-point probes characterised exactly.
     1. what a probe reads: the three values f(1), f(10), f(100) and nothing else (spec + extensionality)
     2. hence the full class of undetected perturbations: f + h (s-1)(s-10)(s-100), ANY h
     3. on the class c * s^k (k any integer) each probe is a decision procedure:  accepted <-> k = +-1 and c in an explicit
        interval around 1
     4. on polynomials of degree <= 2 (as many coefficients as probe points) acceptance forces the map to stay within an
        explicit distance of the identity for EVERY s >= 0; degree 3 is the first degree where this fails (item 2)
   Over Q; closed under the global context. *)
From CV Require Import Base.Tac Base.Cmp Model.C10_Conj Model.C10_Dep Proofs.C10_Valid Proofs.C10_Probe2.
From Coq Require Import QArith Qabs Qminmax Lqa.
Open Scope Q_scope.

Lemma dpown_dpow p : dpown p = dpow p.
Proof. induction p as [|p IH]; cbn [dpown dpow]; [reflexivity | rewrite IH; reflexivity]. Qed.

(* ---------------------------------------------------------------------------------------------- *)
(* 1. what the probes read                                                                         *)
(* ---------------------------------------------------------------------------------------------- *)

(* numpy.allclose(v, x) for x > 0, and math.isclose(v, r) for r > 0, written out *)
Definition id_ok (v x : Q) : Prop := Qabs (v - x) <= np_atol + np_rtol * x.
Definition rec_ok (v r : Q) : Prop := r * (1 - py_reltol) <= v /\ v * (1 - py_reltol) <= r.

Definition id_pass (e : dexp) : Prop := id_ok (deval e 1) 1 /\ id_ok (deval e 10) 10 /\ id_ok (deval e 100) 100.
Definition rec_pass (e : dexp) : Prop :=
  rec_ok (deval e 1) 1 /\ rec_ok (deval e 10) (1 # 10) /\ rec_ok (deval e 100) (1 # 100).

Lemma allclose1_id_ok v x : 0 <= x -> (allclose1 v x = true <-> id_ok v x).
Proof. intros H. unfold id_ok. rewrite allclose1_spec, (Qabs_pos x H). reflexivity. Qed.

(* math.isclose against a positive reference value: exactly  r (1 - tol) <= v  and  v (1 - tol) <= r *)
Lemma isclose1_rec_ok v r : 0 < r -> (isclose1 v r = true <-> rec_ok v r).
Proof.
  intros Hr. split; [apply isclose1_pos_bounds; exact Hr|]. intros [H1 H2].
  assert (Hv : 0 < v) by (unfold py_reltol in *; nra).
  apply isclose1_spec.
  assert (Hvv : Qabs v == v) by (apply Qabs_pos; lra).
  assert (Hrr : Qabs r == r) by (apply Qabs_pos; lra).
  rewrite Hvv, Hrr.
  assert (H0 : 0 <= py_reltol * Qmax v r).
  { apply Qmult_le_0_compat; [unfold py_reltol; lra|]. apply Qle_trans with r; [lra | apply Q.le_max_r]. }
  rewrite (Q.max_l _ 0 H0).
  apply Qabs_Qle_condition.
  destruct (Q.max_spec v r) as [[Hlt Hm]|[Hle Hm]]; rewrite Hm; unfold py_reltol in *; split; lra.
Qed.

Theorem probe_identity_spec f : probe_identity f = true <-> Forall id_pass f.
Proof.
  unfold probe_identity, probe_pts. cbn [forallb]. rewrite andb_true_r, !andb_true_iff, !forallb_forall_iff, Forall_forall.
  unfold id_pass. split.
  - intros (H1 & H10 & H100) e He.
    split; [apply (allclose1_id_ok _ 1); [qpos | auto] | split; [apply (allclose1_id_ok _ 10) | apply (allclose1_id_ok _ 100)]; [qpos | auto | qpos | auto]].
  - intros H. repeat split; intros e He; destruct (H e He) as (A & B & C).
    + apply (allclose1_id_ok _ 1); [qpos | exact A].
    + apply (allclose1_id_ok _ 10); [qpos | exact B].
    + apply (allclose1_id_ok _ 100); [qpos | exact C].
Qed.

Theorem probe_reciprocal_spec f :
  (probe_reciprocal f = PTypeError <-> length f <> 1%nat)
  /\ (forall e, probe_reciprocal [e] = PTrue <-> rec_pass e).
Proof.
  split.
  - destruct f as [|e [|e' r]]; cbn [probe_reciprocal length].
    + split; [lia | reflexivity].
    + split; [|lia]. destruct (forallb _ _); discriminate.
    + split; [lia | reflexivity].
  - intros e. unfold rec_pass. split.
    + intros H. apply probe_reciprocal_single in H as (H1 & H10 & H100).
      split; [exact (proj1 (isclose1_rec_ok _ 1 ltac:(lra)) H1) | split].
      * exact (proj1 (isclose1_rec_ok _ (1 # 10) ltac:(lra)) H10).
      * exact (proj1 (isclose1_rec_ok _ (1 # 100) ltac:(lra)) H100).
    + intros (H1 & H10 & H100). unfold probe_reciprocal, probe_pts. cbn [forallb].
      change (1 / 1) with 1. change (1 / 10) with (1 # 10). change (1 / 100) with (1 # 100).
      rewrite (proj2 (isclose1_rec_ok _ 1 ltac:(lra)) H1), (proj2 (isclose1_rec_ok _ (1 # 10) ltac:(lra)) H10),
              (proj2 (isclose1_rec_ok _ (1 # 100) ltac:(lra)) H100). reflexivity.
Qed.

Lemma rec_pass_single e : probe_reciprocal [e] = PTrue <-> rec_pass e.
Proof. exact (proj2 (probe_reciprocal_spec []) e). Qed.

(* two callables with the same values at 1, 10, 100 get the same verdict from both probes *)
Definition same_at_probe_pts (e e' : dexp) : Prop :=
  deval e 1 == deval e' 1 /\ deval e 10 == deval e' 10 /\ deval e 100 == deval e' 100.

Lemma id_ok_compat v v' x : v == v' -> (id_ok v x <-> id_ok v' x).
Proof. intros H. unfold id_ok. rewrite H. reflexivity. Qed.

Lemma rec_ok_compat v v' r : v == v' -> (rec_ok v r <-> rec_ok v' r).
Proof. intros H. unfold rec_ok. rewrite H. reflexivity. Qed.

Lemma id_pass_compat e e' : same_at_probe_pts e e' -> (id_pass e <-> id_pass e').
Proof.
  intros (H1 & H10 & H100). unfold id_pass.
  rewrite (id_ok_compat _ _ 1 H1), (id_ok_compat _ _ 10 H10), (id_ok_compat _ _ 100 H100). reflexivity.
Qed.

Lemma rec_pass_compat e e' : same_at_probe_pts e e' -> (rec_pass e <-> rec_pass e').
Proof.
  intros (H1 & H10 & H100). unfold rec_pass.
  rewrite (rec_ok_compat _ _ 1 H1), (rec_ok_compat _ _ (1 # 10) H10), (rec_ok_compat _ _ (1 # 100) H100). reflexivity.
Qed.

Theorem probe_identity_ext f f' : Forall2 same_at_probe_pts f f' -> probe_identity f = probe_identity f'.
Proof.
  intros H. apply eq_true_iff_eq. rewrite !probe_identity_spec.
  induction H as [|e e' f f' He Hf IH]; [reflexivity|].
  rewrite !Forall_cons_iff, IH, (id_pass_compat e e' He). reflexivity.
Qed.

Theorem probe_reciprocal_ext e e' : same_at_probe_pts e e' -> probe_reciprocal [e] = probe_reciprocal [e'].
Proof.
  intros H.
  assert (E : probe_reciprocal [e] = PTrue <-> probe_reciprocal [e'] = PTrue).
  { rewrite !rec_pass_single, (rec_pass_compat e e' H). reflexivity. }
  assert (T : forall x, probe_reciprocal [x] <> PTypeError).
  { intros x Hx. apply (proj1 (probe_reciprocal_spec [x])) in Hx. apply Hx. reflexivity. }
  destruct (probe_reciprocal [e]) eqn:A; destruct (probe_reciprocal [e']) eqn:B; try reflexivity;
    try (exfalso; apply (T e); assumption); try (exfalso; apply (T e'); assumption).
  - destruct E as [E _]. specialize (E eq_refl). discriminate.
  - destruct E as [_ E]. specialize (E eq_refl). discriminate.
Qed.

(* ---------------------------------------------------------------------------------------------- *)
(* 2. the undetected perturbations                                                                 *)
(* ---------------------------------------------------------------------------------------------- *)

Lemma dperturb_same e h : same_at_probe_pts (dperturb e h) e.
Proof. unfold same_at_probe_pts, dperturb, vanish3. cbn [deval]. repeat split; ring. Qed.

(* ANY multiple of (s-1)(s-10)(s-100) can be added to ANY callable without changing either verdict *)
Theorem probes_blind_to_vanishing_multiples e h :
  probe_identity [dperturb e h] = probe_identity [e] /\ probe_reciprocal [dperturb e h] = probe_reciprocal [e].
Proof.
  split.
  - apply probe_identity_ext. constructor; [apply dperturb_same | constructor].
  - apply probe_reciprocal_ext, dperturb_same.
Qed.

(* in particular the identity plus h (s-1)(s-10)(s-100) is accepted for every coefficient h, however large, and it
   differs from the identity by 784 h at s = 2 *)
Corollary probe_identity_cubic_family h :
  probe_identity [dperturb DVar (DConst h)] = true /\ deval (dperturb DVar (DConst h)) 2 - 2 == 784 * h.
Proof.
  split.
  - rewrite (proj1 (probes_blind_to_vanishing_multiples DVar (DConst h))). exact (probe_identity_accepts_identity 1).
  - unfold dperturb, vanish3. cbn [deval]. ring.
Qed.

(* ---------------------------------------------------------------------------------------------- *)
(* 3. monomials c * s^k, k any integer: both probes decide                                          *)
(* ---------------------------------------------------------------------------------------------- *)

Lemma dpow_ge_1 p : 1 <= deval (dpow p) 10.
Proof. induction p as [|p IH]; cbn [dpow deval]; [lra | nra]. Qed.

Lemma id_pass_single e : probe_identity [e] = true <-> id_pass e.
Proof. rewrite probe_identity_spec. split; [intros H; inv H; assumption | intros H; constructor; [exact H | constructor]]. Qed.

(* c * s accepted <-> |c - 1| <= 1e-5 + 1e-10 (the bound of probe_identity_monomial is attained: binding point s = 100) *)
Lemma probe_identity_linear c :
  probe_identity [DMul (DConst c) (dpow 1)] = true <-> Qabs (c - 1) <= 100001 # 10000000000.
Proof.
  split; [intros H; apply probe_identity_monomial in H; tauto|].
  intros H. apply Qabs_Qle_condition in H as [Ha Hb]. apply id_pass_single.
  unfold id_pass, id_ok, np_atol, np_rtol. cbn [dpow deval].
  repeat split; apply Qabs_Qle_condition; split; lra.
Qed.

(* c / s^p is never accepted by the identity probe *)
Lemma probe_identity_rejects_inverse_powers c p :
  probe_identity [DMul (DConst c) (DInv (dpow p))] = false.
Proof.
  apply not_true_is_false. intros H. apply id_pass_single in H. destruct H as (H1 & H10 & _).
  unfold id_ok, np_atol, np_rtol in H1, H10. cbn [deval] in H1, H10.
  apply Qabs_Qle_condition in H1 as [H1a H1b]. apply Qabs_Qle_condition in H10 as [H10a H10b].
  assert (P1 : / deval (dpow p) 1 == 1) by (rewrite dpow_1; reflexivity).
  rewrite P1 in H1a, H1b.
  set (t := deval (dpow p) 10) in *.
  assert (Ht : 1 <= t) by apply dpow_ge_1.
  assert (Hu : t * / t == 1) by (apply Qmult_inv_r; lra).
  assert (Hu0 : 0 < / t) by (apply Qinv_lt_0_compat; lra).
  set (u := / t) in *.
  assert (Hu1 : u <= 1) by nra.
  assert (Hc : c * u <= 2) by nra.
  lra.
Qed.

(* c * s^p is never accepted by the reciprocal probe *)
Lemma probe_reciprocal_rejects_powers c p :
  probe_reciprocal [DMul (DConst c) (dpow p)] <> PTrue.
Proof.
  intros H. apply rec_pass_single in H. destruct H as (H1 & H10 & _).
  unfold rec_ok, py_reltol in H1, H10. cbn [deval] in H1, H10.
  rewrite dpow_1 in H1. destruct H1 as [H1a H1b]. destruct H10 as [H10a H10b].
  set (t := deval (dpow p) 10) in *.
  assert (Ht : 1 <= t) by apply dpow_ge_1.
  assert (Hc : 1 # 2 <= c) by lra.
  assert (Hct : 1 # 2 <= c * t) by nra.
  lra.
Qed.

(* c / s accepted by the reciprocal probe <-> 1 - 1e-9 <= c <= 1 / (1 - 1e-9) *)
Lemma probe_reciprocal_linear c :
  probe_reciprocal [DMul (DConst c) (DInv (dpow 1))] = PTrue <-> 1 - py_reltol <= c /\ c * (1 - py_reltol) <= 1.
Proof.
  rewrite rec_pass_single. unfold rec_pass, rec_ok. cbn [dpow deval].
  change (/ (1 * 1)) with 1. change (/ (10 * 1)) with (1 # 10). change (/ (100 * 1)) with (1 # 100).
  unfold py_reltol. split; [intros ((A & B) & _); split; lra | intros (A & B); repeat split; lra].
Qed.

Theorem probe_identity_mono_iff c k :
  probe_identity [dmono c k] = true <-> k = 1%Z /\ Qabs (c - 1) <= 100001 # 10000000000.
Proof.
  destruct k as [|p|p]; unfold dmono; rewrite dpown_dpow.
  - split; [intros H; apply probe_identity_monomial in H; destruct H as [H _]; discriminate | intros [H _]; discriminate].
  - split.
    + intros H. pose proof (probe_identity_monomial _ _ H) as [Hp Hc]. split; [lia | exact Hc].
    + intros [Hk Hc]. inv Hk. apply probe_identity_linear. exact Hc.
  - rewrite probe_identity_rejects_inverse_powers. split; [discriminate | intros [H _]; discriminate].
Qed.

Theorem probe_reciprocal_mono_iff c k :
  probe_reciprocal [dmono c k] = PTrue <-> k = (-1)%Z /\ 1 - py_reltol <= c /\ c * (1 - py_reltol) <= 1.
Proof.
  destruct k as [|p|p]; unfold dmono; rewrite dpown_dpow.
  - split; [intros H; exfalso; exact (probe_reciprocal_rejects_powers _ _ H) | intros [H _]; discriminate].
  - split; [intros H; exfalso; exact (probe_reciprocal_rejects_powers _ _ H) | intros [H _]; discriminate].
  - split.
    + intros H. pose proof (probe_reciprocal_monomial _ _ H) as [Hp _].
      assert (p = 1%positive) by lia. subst p. split; [reflexivity|]. apply probe_reciprocal_linear. exact H.
    + intros [Hk Hc]. inv Hk. apply probe_reciprocal_linear. exact Hc.
Qed.

(* ---------------------------------------------------------------------------------------------- *)
(* 4. polynomials of degree <= 2: as many coefficients as probe points                              *)
(* ---------------------------------------------------------------------------------------------- *)

(* acceptance confines all three coefficients (Lagrange interpolation on 1, 10, 100 with the three tolerances) *)
Theorem probe_identity_quadratic a0 a1 a2 :
  probe_identity [dquad a0 a1 a2] = true ->
  Qabs a0 <= 25 # 1000000 /\ Qabs (a1 - 1) <= 15 # 1000000 /\ Qabs a2 <= 25 # 100000000.
Proof.
  intros H. apply id_pass_single in H. destruct H as (H1 & H10 & H100).
  unfold id_ok, np_atol, np_rtol, dquad in *. cbn [deval] in *.
  apply Qabs_Qle_condition in H1 as [H1a H1b]. apply Qabs_Qle_condition in H10 as [H10a H10b].
  apply Qabs_Qle_condition in H100 as [H100a H100b].
  repeat split; apply Qabs_Qle_condition; split; lra.
Qed.

(* ... hence the accepted map stays near the identity for EVERY s >= 0, not only at the probe points *)
Theorem probe_identity_quadratic_uniform a0 a1 a2 s :
  probe_identity [dquad a0 a1 a2] = true -> 0 <= s ->
  Qabs (deval (dquad a0 a1 a2) s - s) <= (25 # 1000000) + (15 # 1000000) * s + (25 # 100000000) * (s * s).
Proof.
  intros H Hs. apply probe_identity_quadratic in H as (H0 & H1 & H2).
  apply Qabs_Qle_condition in H0 as [H0a H0b]. apply Qabs_Qle_condition in H1 as [H1a H1b].
  apply Qabs_Qle_condition in H2 as [H2a H2b].
  unfold dquad. cbn [deval].
  assert (Hss : 0 <= s * s) by nra.
  apply Qabs_Qle_condition. split; nra.
Qed.

(* an explicit inner box: every such quadratic IS accepted (so the class is not just the identity) *)
Theorem probe_identity_quadratic_inner a0 a1 a2 :
  Qabs a0 <= 3 # 1000000 -> Qabs (a1 - 1) <= 3 # 1000000 -> Qabs a2 <= 3 # 100000000 ->
  probe_identity [dquad a0 a1 a2] = true.
Proof.
  intros H0 H1 H2. apply Qabs_Qle_condition in H0 as [H0a H0b]. apply Qabs_Qle_condition in H1 as [H1a H1b].
  apply Qabs_Qle_condition in H2 as [H2a H2b].
  apply id_pass_single. unfold id_pass, id_ok, np_atol, np_rtol, dquad. cbn [deval].
  repeat split; apply Qabs_Qle_condition; split; lra.
Qed.

(* the mirror for the reciprocal probe: a0 + a1 / s + a2 / s^2 *)
Theorem probe_reciprocal_quadratic a0 a1 a2 :
  probe_reciprocal [drquad a0 a1 a2] = PTrue ->
  Qabs a0 <= 25 # 1000000000000 /\ Qabs (a1 - 1) <= 15 # 10000000000 /\ Qabs a2 <= 25 # 10000000000.
Proof.
  intros H. apply rec_pass_single in H. destruct H as ((H1a & H1b) & (H10a & H10b) & (H100a & H100b)).
  unfold py_reltol, drquad in *. cbn [deval] in *.
  change (/ 1) with 1 in *. change (/ 10) with (1 # 10) in *. change (/ 100) with (1 # 100) in *.
  repeat split; apply Qabs_Qle_condition; split; lra.
Qed.

(* non-vacuity of the two classes *)
Example probe_classes_nonvacuous :
  probe_identity [dmono (100001 # 100000) 1] = true
  /\ probe_reciprocal [dmono (1000000001 # 1000000000) (-1)] = PTrue
  /\ probe_identity [dquad (1 # 1000000) (1000001 # 1000000) (- (1 # 100000000))] = true
  /\ probe_identity [dperturb DVar (DConst 1000)] = true.
Proof. repeat split; vm_compute; reflexivity. Qed.
