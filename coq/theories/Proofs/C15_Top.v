(* C15 -- the statements of Props/C15.v, assembled from Proofs/C15_MAP.v. *)
From CV Require Import Base.Tac Base.LinAlg Base.Cmp Base.QcLin Model.C15_MAP Proofs.C15_Lin Proofs.C15_MAP.
From Coq Require Import QArith Qcanon Lqa.
Local Open Scope Qc_scope.

(* shapes of a linear-Gaussian problem with dense covariances *)
Definition lg_wf (m n : nat) (A Ce Cx : list (list Qc)) (b : list Qc) : Prop :=
  wf_mat n A /\ length A = m /\ wf_mat m Ce /\ length Ce = m /\ wf_mat n Cx /\ length Cx = n /\ length b = m.

(* P is a symmetric positive semi-definite left inverse of the covariance C (its precision) *)
Definition is_prec (k : nat) (C P : list (list Qc)) : Prop :=
  wf_mat k P /\ length P = k /\ (forall v, length v = k -> qmatvec P (qmatvec C v) = v) /\
  q_sym k P /\ (forall v, length v = k -> 0 <= qdot v (qmatvec P v)).

Definition pos_def (k : nat) (P : list (list Qc)) : Prop :=
  forall v, length v = k -> v <> qvzero k -> 0 < qdot v (qmatvec P v).

(* the guard: the repaired code, or no covariance given as a vector of variances (length >= 2) *)
Definition cov_guard (fixed : bool) (ce cx : covform) : Prop :=
  fixed = true \/ (is_plain_vector ce = false /\ is_plain_vector cx = false).

Lemma expand_cov_meant fixed dim c : fixed = true \/ is_plain_vector c = false ->
  expand_cov fixed dim c = NMat (dense_of true dim c).
Proof.
  intros H. unfold expand_cov, dense_of. destruct c as [a|v|M|M]; cbn [cov_size cov_first].
  - reflexivity.
  - destruct (Nat.eqb (length v) 1) eqn:E; [reflexivity|].
    destruct fixed; [reflexivity|]. destruct H as [H|H]; [discriminate|].
    cbn [is_plain_vector] in H. rewrite E in H. discriminate.
  - destruct (Nat.eqb _ 1); reflexivity.
  - destruct (Nat.eqb _ 1); reflexivity.
Qed.

Theorem closed_form_is_posterior_mode fixed m n A b x0 ce cx x :
  cov_guard fixed ce cx ->
  map_direct fixed m n A b x0 (Some ce) (Some cx) = Val x ->
  let Ce := dense_of true m ce in let Cx := dense_of true n cx in
  lg_wf m n A Ce Cx b ->
  length x = n /\
  (exists z, length z = m /\ qmatvec Ce z = qvsub b (qmatvec A x) /\ qmatvec Cx (qmattvec n A z) = qvsub x x0) /\
  forall Pe Px, is_prec m Ce Pe -> is_prec n Cx Px ->
    post_grad n A Pe Px b x0 x = qvzero n /\
    (forall y, length y = n -> post_q A Pe Px b x0 x <= post_q A Pe Px b x0 y) /\
    (pos_def n Px -> forall y, length y = n -> y <> x -> post_q A Pe Px b x0 x < post_q A Pe Px b x0 y).
Proof.
  intros G H Ce Cx (HA & HAm & HCe & HCem & HCx & HCxn & Hb).
  unfold map_direct in H. destruct (sparse_single ce || sparse_single cx); [discriminate|].
  rewrite (expand_cov_meant fixed m ce) in H by (destruct G as [G|[G _]]; [left|right]; exact G).
  rewrite (expand_cov_meant fixed n cx) in H by (destruct G as [G|[_ G]]; [left|right]; exact G).
  fold Ce Cx in H.
  destruct (map_core_balance m n A Ce Cx b x0 HA HAm HCe HCem HCx HCxn Hb x H) as (H0 & Hx & Hz).
  split; [exact Hx|]. split; [exact Hz|].
  intros Pe Px (W1 & W2 & W3 & W4 & W5) (V1 & V2 & V3 & V4 & V5).
  split; [|split].
  - exact (map_core_gradient_zero m n A Ce Cx b x0 HA HAm HCe HCem HCx HCxn Hb Pe Px W3 V3 x H).
  - intros y Hy. exact (map_core_maximiser m n A Ce Cx b x0 HA HAm HCe HCem HCx HCxn Hb Pe Px W3 V3 W1 W2 V1 V2 W4 V4 W5 V5 x y H Hy).
  - intros PD y Hy Hne.
    exact (map_core_unique_maximiser m n A Ce Cx b x0 HA HAm HCe HCem HCx HCxn Hb Pe Px W3 V3 W1 W2 V1 V2 W4 V4 W5 V5 PD x y H Hy Hne).
Qed.

(* outside the guard the unrepaired code returns another point: noise covariance / prior covariance given as a vector *)
Theorem vector_noise_cov_refuted :
  exists m n A b x0 ce cx x y,
    is_plain_vector ce = true /\ is_plain_vector cx = false /\
    map_direct false m n A b x0 (Some ce) (Some cx) = Val x /\
    post_mean_exact m n A b x0 ce cx = Some y /\ x <> y /\
    map_direct true m n A b x0 (Some ce) (Some cx) = Val y.
Proof.
  destruct vector_noise_witness as (x & y & H1 & H2 & H3 & H4).
  exists 2%nat, 3%nat, wA, wb, wx0, wCe, wCx, x, y. repeat split; assumption.
Qed.

Theorem vector_prior_cov_refuted :
  exists m n A b x0 ce cx x y,
    is_plain_vector ce = false /\ is_plain_vector cx = true /\
    map_direct false m n A b x0 (Some ce) (Some cx) = Val x /\
    post_mean_exact m n A b x0 ce cx = Some y /\ x <> y /\
    map_direct true m n A b x0 (Some ce) (Some cx) = Val y.
Proof.
  destruct vector_prior_witness as (x & y & H1 & H2 & H3 & H4).
  exists 2%nat, 2%nat, vA, wb, (qvec [0; 0]%Q), vCe, vCx, x, y. repeat split; assumption.
Qed.

(* the specification side is what it says: post_mean_exact solves the normal equations of the posterior with
   checked inverses of the covariances the user meant *)
Theorem post_mean_exact_spec m n A b x0 ce cx y :
  post_mean_exact m n A b x0 ce cx = Some y ->
  exists Pe Px, qinv (dense_of true m ce) = Some Pe /\ qinv (dense_of true n cx) = Some Px /\
    qmatvec (post_prec n A Pe Px) y = post_rhs n A Pe Px b x0.
Proof.
  unfold post_mean_exact. destruct (qinv (dense_of true m ce)) as [Pe|]; [|discriminate].
  destruct (qinv (dense_of true n cx)) as [Px|]; [|discriminate].
  intros H. apply qsolve_sound in H as [H _]. exists Pe, Px. repeat split; assumption.
Qed.

Lemma atpa_wf n A P : wf_mat n A -> wf_mat n (atpa n A P) /\ length (atpa n A P) = n.
Proof.
  intros HA. split.
  - unfold atpa, wf_mat. apply Forall_forall. intros r Hr. apply in_map_iff in Hr. destruct Hr as [i [<- _]].
    apply q_mattvec_length. exact HA.
  - unfold atpa. rewrite map_length, seq_length. reflexivity.
Qed.

(* ... and with symmetric noise precision these are the normal equations A^T Pe A y + Px y = A^T Pe b + Px x0 *)
Theorem post_mean_exact_normal_eq m n A b x0 ce cx y :
  post_mean_exact m n A b x0 ce cx = Some y ->
  exists Pe Px, qinv (dense_of true m ce) = Some Pe /\ qinv (dense_of true n cx) = Some Px /\
    (wf_mat n A -> length A = m -> wf_mat m Pe -> length Pe = m -> q_sym m Pe -> wf_mat n Px -> length Px = n ->
     length y = n ->
     qvadd (qmattvec n A (qmatvec Pe (qmatvec A y))) (qmatvec Px y) =
     qvadd (qmattvec n A (qmatvec Pe b)) (qmatvec Px x0)).
Proof.
  intros H. destruct (post_mean_exact_spec m n A b x0 ce cx y H) as (Pe & Px & I1 & I2 & E).
  exists Pe, Px. split; [exact I1|]. split; [exact I2|].
  intros HA HAm HPe HPem HS HPx HPxn Hy.
  destruct (atpa_wf n A Pe HA) as [W1 W2].
  unfold post_prec in E. rewrite (q_matvec_qmadd n (atpa n A Pe) Px y W1 HPx) in E by (transitivity n; [exact W2 | symmetry; exact HPxn]).
  rewrite (q_atpa_matvec m n A Pe y HA HAm HPe HPem HS Hy) in E. exact E.
Qed.

(* refusals: a Gaussian created with prec / sqrtcov / sqrtprec (and no compute_cov() since) makes MAP and the direct
   sampler raise NotImplementedError -- never a value; a length-1 mean with n > 1 raises ValueError *)
Theorem refusal fixed m n A b x0 p c other :
  p <> PCov ->
  map_direct fixed m n A b x0 (cov_getter p c None) other = ENotImpl /\
  map_direct fixed m n A b x0 other (cov_getter p c None) = ENotImpl /\
  sample_direct fixed m n A b x0 (cov_getter p c None) other = SErr ENotImpl /\
  sample_direct fixed m n A b x0 other (cov_getter p c None) = SErr ENotImpl.
Proof.
  intros Hp. rewrite (cov_getter_refuses p c Hp). repeat split; try reflexivity; destruct other; reflexivity.
Qed.

Theorem scalar_mean_refused fixed m n A b x0 ce cx :
  length x0 <> n ->
  map_direct fixed m n A b x0 (Some ce) (Some cx) = EValue \/ map_direct fixed m n A b x0 (Some ce) (Some cx) = EAttr.
Proof.
  intros H. unfold map_direct. destruct (sparse_single ce || sparse_single cx); [right; reflexivity|].
  left. apply map_core_scalar_mean_refused. exact H.
Qed.

Theorem sparse_single_refused fixed m n A b x0 ce cx :
  sparse_single ce = true \/ sparse_single cx = true ->
  map_direct fixed m n A b x0 (Some ce) (Some cx) = EAttr /\ sample_direct fixed m n A b x0 (Some ce) (Some cx) = SErr EAttr.
Proof.
  intros H. unfold map_direct, sample_direct.
  assert (E : sparse_single ce || sparse_single cx = true) by (apply orb_true_iff; exact H).
  rewrite E. split; reflexivity.
Qed.

(* a value is only ever returned with both covariances available *)
Theorem value_needs_cov fixed m n A b x0 ce cx x :
  map_direct fixed m n A b x0 ce cx = Val x -> exists ce' cx', ce = Some ce' /\ cx = Some cx'.
Proof. destruct ce as [ce'|], cx as [cx'|]; try discriminate. intros _. eauto. Qed.

(* direct sampler: offset = the closed-form MAP, covariance = checked inverse of the posterior precision built from
   checked inverses of the covariances *)
Theorem cholesky_draw_law fixed m n A b x0 ce cx mu C :
  sample_direct fixed m n A b x0 (Some ce) (Some cx) = SLaw mu C ->
  map_direct fixed m n A b x0 (Some ce) (Some cx) = Val mu /\
  exists CeM CxM Pe Px,
    expand_cov fixed m ce = NMat CeM /\ expand_cov fixed n cx = NMat CxM /\
    qmatmul (length CeM) CeM Pe = qident (length CeM) /\ qmatmul (length CxM) CxM Px = qident (length CxM) /\
    let H := post_prec n A Pe Px in
    qmatmul (length H) H C = qident (length H) /\ qmatmul (length H) C H = qident (length H).
Proof.
  intros HS. destruct (sample_direct_law fixed m n A b x0 ce cx mu C HS) as (HM & CeM & CxM & Pe & Px & E1 & E2 & I1 & I2 & I3).
  split; [exact HM|]. exists CeM, CxM, Pe, Px.
  apply qinv_sound in I1 as [I1 _]. apply qinv_sound in I2 as [I2 _]. apply qinv_sound in I3 as [I3 I3'].
  repeat split; assumption.
Qed.

Lemma nth_skipn_plus {T} k (l : list T) i d : nth i (skipn k l) d = nth (k + i) l d.
Proof. revert l; induction k as [|k IH]; intros [|a l]; simpl; try reflexivity; [destruct i; reflexivity | apply IH]. Qed.

(* the check made on the factor read off from scripted draws is sound: what passes is lower triangular with positive
   diagonal -- exact statement of the two boolean tests *)
Theorem is_lower_spec L : is_lower L = true ->
  forall i j, (i < length L)%nat -> (i < j)%nat -> nth j (nth i L []) 0 = 0.
Proof.
  unfold is_lower. intros H i j Hi Hij. rewrite forallb_forall in H.
  assert (Hin : In (i, nth i L []) (combine (seq 0 (length L)) L)).
  { assert (E : (i, nth i L []) = nth i (combine (seq 0 (length L)) L) (0%nat, [])).
    { rewrite combine_nth by (rewrite seq_length; reflexivity). rewrite seq_nth by exact Hi. reflexivity. }
    rewrite E. apply nth_In. rewrite combine_length, seq_length. lia. }
  specialize (H _ Hin). cbn [fst snd] in H. rewrite forallb_forall in H.
  destruct (Nat.lt_ge_cases j (length (nth i L []))) as [Hj|Hj].
  - assert (Hin2 : In (nth j (nth i L []) 0) (skipn (S i) (nth i L []))).
    { replace j with (S i + (j - S i))%nat by lia. rewrite <- nth_skipn_plus. apply nth_In. rewrite skipn_length. lia. }
    specialize (H _ Hin2). unfold qc_is0 in H. apply qc_eqb_eq in H. exact H.
  - apply nth_overflow. exact Hj.
Qed.

(* ---------------------------------------------------------------------------------------------
   the executable closed form IS the posterior mean of the executable specification (no transcription to trust):
   with checked inverses Pe, Px of the covariances, the returned x solves H x = A^T Pe b + Px x0, and whenever H has a
   checked inverse every solution of these normal equations -- in particular post_mean_exact -- equals x
   --------------------------------------------------------------------------------------------- *)
Lemma post_prec_acts m n A Pe Px v : wf_mat n A -> length A = m -> wf_mat m Pe -> length Pe = m -> q_sym m Pe ->
  wf_mat n Px -> length Px = n -> length v = n ->
  qmatvec (post_prec n A Pe Px) v = qvadd (qmattvec n A (qmatvec Pe (qmatvec A v))) (qmatvec Px v).
Proof.
  intros HA HAm HPe HPem HS HPx HPxn Hv.
  destruct (atpa_wf n A Pe HA) as [W1 W2].
  unfold post_prec. rewrite (q_matvec_qmadd n (atpa n A Pe) Px v W1 HPx) by (transitivity n; [exact W2 | symmetry; exact HPxn]).
  rewrite (q_atpa_matvec m n A Pe v HA HAm HPe HPem HS Hv). reflexivity.
Qed.

Theorem closed_form_solves_normal_equations fixed m n A b x0 ce cx x Pe Px :
  cov_guard fixed ce cx ->
  map_direct fixed m n A b x0 (Some ce) (Some cx) = Val x ->
  let Ce := dense_of true m ce in let Cx := dense_of true n cx in
  lg_wf m n A Ce Cx b ->
  qinv Ce = Some Pe -> qinv Cx = Some Px -> q_sym m Pe ->
  qmatvec (post_prec n A Pe Px) x = post_rhs n A Pe Px b x0.
Proof.
  intros G H Ce Cx (HA & HAm & HCe & HCem & HCx & HCxn & Hb) IPe IPx HS.
  unfold map_direct in H. destruct (sparse_single ce || sparse_single cx); [discriminate|].
  rewrite (expand_cov_meant fixed m ce) in H by (destruct G as [G|[G _]]; [left|right]; exact G).
  rewrite (expand_cov_meant fixed n cx) in H by (destruct G as [G|[_ G]]; [left|right]; exact G).
  fold Ce Cx in H.
  destruct (qinv_sound _ _ IPe) as [_ LPe]. destruct (qinv_sound _ _ IPx) as [_ LPx].
  destruct (qinv_shape _ _ IPe) as [WPe SPe]. destruct (qinv_shape _ _ IPx) as [WPx SPx].
  rewrite HCem in *. rewrite HCxn in *.
  assert (HPe : forall v, length v = m -> qmatvec Pe (qmatvec Ce v) = v).
  { intros v Hv. apply (q_left_inverse m Pe Ce v HCe HCem Hv LPe). }
  assert (HPx : forall v, length v = n -> qmatvec Px (qmatvec Cx v) = v).
  { intros v Hv. apply (q_left_inverse n Px Cx v HCx HCxn Hv LPx). }
  destruct (map_core_balance m n A Ce Cx b x0 HA HAm HCe HCem HCx HCxn Hb x H) as (H0 & Hx & _).
  pose proof (map_core_gradient_zero m n A Ce Cx b x0 HA HAm HCe HCem HCx HCxn Hb Pe Px HPe HPx x H) as G0.
  rewrite (post_prec_acts m n A Pe Px x HA HAm WPe SPe HS WPx SPx Hx).
  unfold post_rhs, post_grad in *.
  (* A^T Pe (b - A x) - Px (x - x0) = 0 *)
  assert (L1 : length (qmatvec A x) = m) by (rewrite q_matvec_length; exact HAm).
  rewrite (q_matvec_vsub Pe b (qmatvec A x) m WPe Hb L1) in G0.
  rewrite (q_mattvec_vsub n A _ _ HA) in G0 by (rewrite !q_matvec_length; reflexivity).
  rewrite (q_matvec_vsub Px x x0 n WPx Hx H0) in G0.
  assert (La : forall u, length (qmattvec n A u) = n) by (intros u; apply q_mattvec_length; exact HA).
  assert (Lp : forall u, length (qmatvec Px u) = n) by (intros u; rewrite q_matvec_length; exact SPx).
  apply q_vec_balance; rewrite ?La, ?Lp; try reflexivity.
  apply q_vsub_zero_eq.
  - rewrite !q_vsub_length; rewrite ?La, ?Lp; reflexivity.
  - rewrite G0. f_equal. rewrite q_vsub_length; rewrite ?La; reflexivity.
Qed.

Theorem normal_equations_unique n H C rhs u v :
  qinv H = Some C -> length H = n -> wf_mat n H -> length u = n -> length v = n ->
  qmatvec H u = rhs -> qmatvec H v = rhs -> u = v.
Proof.
  intros IC HL HW Hu Hv E1 E2. destruct (qinv_sound _ _ IC) as [_ L]. rewrite HL in L.
  rewrite <- (q_left_inverse n C H u HW HL Hu L). rewrite <- (q_left_inverse n C H v HW HL Hv L).
  rewrite E1, E2. reflexivity.
Qed.

Lemma post_prec_shape n A Pe Px : wf_mat n A -> wf_mat n Px -> length Px = n ->
  wf_mat n (post_prec n A Pe Px) /\ length (post_prec n A Pe Px) = n.
Proof.
  intros HA HPx HL. destruct (atpa_wf n A Pe HA) as [W1 W2]. unfold post_prec, qmadd. split.
  - unfold wf_mat. apply Forall_forall. intros r Hr. apply in_map_iff in Hr. destruct Hr as [[r1 r2] [<- Hin]].
    cbn [fst snd]. pose proof (in_combine_l _ _ _ _ Hin) as I1. pose proof (in_combine_r _ _ _ _ Hin) as I2.
    rewrite q_vadd_length.
    + eapply Forall_forall in W1; eauto.
    + eapply Forall_forall in W1; eauto. eapply Forall_forall in HPx; eauto. congruence.
  - rewrite map_length, combine_length. transitivity (Nat.min n n); [f_equal; [exact W2 | exact HL] | apply Nat.min_id].
Qed.

Theorem closed_form_equals_posterior_mean fixed m n A b x0 ce cx x y :
  cov_guard fixed ce cx ->
  map_direct fixed m n A b x0 (Some ce) (Some cx) = Val x ->
  post_mean_exact m n A b x0 ce cx = Some y ->
  let Ce := dense_of true m ce in let Cx := dense_of true n cx in
  lg_wf m n A Ce Cx b ->
  (forall Pe, qinv Ce = Some Pe -> q_sym m Pe) ->
  (forall Pe Px, qinv Ce = Some Pe -> qinv Cx = Some Px -> exists C, qinv (post_prec n A Pe Px) = Some C) ->
  length y = n -> x = y.
Proof.
  intros G H HY Ce Cx W HS HC Hy.
  destruct (post_mean_exact_spec m n A b x0 ce cx y HY) as (Pe & Px & IPe & IPx & EY).
  fold Ce in IPe. fold Cx in IPx.
  pose proof (closed_form_solves_normal_equations fixed m n A b x0 ce cx x Pe Px G H W IPe IPx (HS Pe IPe)) as EX.
  destruct (HC Pe Px IPe IPx) as [C IC].
  destruct W as (HA & HAm & HCe & HCem & HCx & HCxn & Hb).
  destruct (qinv_shape _ _ IPx) as [WPx SPx]. fold Cx in WPx, SPx. rewrite HCxn in *.
  destruct (post_prec_shape n A Pe Px HA WPx SPx) as [WH LH].
  unfold map_direct in H. destruct (sparse_single ce || sparse_single cx); [discriminate|].
  rewrite (expand_cov_meant fixed m ce) in H by (destruct G as [G|[G _]]; [left|right]; exact G).
  rewrite (expand_cov_meant fixed n cx) in H by (destruct G as [G|[_ G]]; [left|right]; exact G).
  destruct (map_core_balance m n A _ _ b x0 HA HAm HCe HCem HCx HCxn Hb x H) as (_ & Hx & _).
  exact (normal_equations_unique n _ C _ x y IC LH WH Hx Hy EX EY).
Qed.

(* symmetry in the sense used above follows from P^T = P (decidable by computation) *)
Lemma q_sym_of_transpose k P : wf_mat k P -> qtranspose k P = P -> q_sym k P.
Proof.
  intros HP HT u v Hu Hv.
  rewrite q_dot_comm. rewrite (q_adjoint k P v u HP Hv).
  rewrite (q_mattvec_as_cols k P u HP).
  assert (E : qmatvec (qtranspose k P) u = map (fun i => qdot (col 0 P i) u) (seq 0 k))
    by (unfold qtranspose, transpose, qmatvec, matvec; rewrite map_map; reflexivity).
  rewrite <- E, HT. apply q_dot_comm.
Qed.

Lemma q_sym_check k P : forallb (fun r => Nat.eqb (length r) k) P = true -> qcll_eqb (qtranspose k P) P = true -> q_sym k P.
Proof.
  intros H1 H2. apply q_sym_of_transpose.
  - unfold wf_mat. apply Forall_forall. intros r Hr. rewrite forallb_forall in H1. apply Nat.eqb_eq. exact (H1 r Hr).
  - apply qcll_eqb_eq. exact H2.
Qed.

(* non-vacuity of closed_form_equals_posterior_mean: a 2x3 problem with full covariance matrices *)
Lemma equals_example :
  exists x y,
    map_direct false 2 3 wA wb (qvec [1; 0; -1]%Q) (Some (CMatrix eCe)) (Some (CMatrix eCx)) = Val x /\
    post_mean_exact 2 3 wA wb (qvec [1; 0; -1]%Q) (CMatrix eCe) (CMatrix eCx) = Some y /\
    cov_guard false (CMatrix eCe) (CMatrix eCx) /\
    lg_wf 2 3 wA (dense_of true 2 (CMatrix eCe)) (dense_of true 3 (CMatrix eCx)) wb /\
    (forall Pe, qinv (dense_of true 2 (CMatrix eCe)) = Some Pe -> q_sym 2 Pe) /\
    (forall Pe Px, qinv (dense_of true 2 (CMatrix eCe)) = Some Pe -> qinv (dense_of true 3 (CMatrix eCx)) = Some Px ->
       exists C, qinv (post_prec 3 wA Pe Px) = Some C) /\
    length y = 3%nat /\ x = y.
Proof.
  eexists. eexists. split; [vm_compute; reflexivity|]. split; [vm_compute; reflexivity|].
  assert (G : cov_guard false (CMatrix eCe) (CMatrix eCx)) by (right; split; reflexivity).
  assert (W : lg_wf 2 3 wA (dense_of true 2 (CMatrix eCe)) (dense_of true 3 (CMatrix eCx)) wb).
  { unfold lg_wf. repeat split; try reflexivity; unfold wf_mat; repeat constructor. }
  assert (S : forall Pe, qinv (dense_of true 2 (CMatrix eCe)) = Some Pe -> q_sym 2 Pe).
  { intros Pe H. vm_compute in H. injection H as <-. apply q_sym_check; vm_compute; reflexivity. }
  assert (C : forall Pe Px, qinv (dense_of true 2 (CMatrix eCe)) = Some Pe -> qinv (dense_of true 3 (CMatrix eCx)) = Some Px ->
       exists C, qinv (post_prec 3 wA Pe Px) = Some C).
  { intros Pe Px H1 H2. vm_compute in H1. injection H1 as <-. vm_compute in H2. injection H2 as <-.
    eexists. vm_compute. reflexivity. }
  split; [exact G|]. split; [exact W|]. split; [exact S|]. split; [exact C|]. split; [reflexivity|].
  eapply (closed_form_equals_posterior_mean false 2 3 wA wb (qvec [1; 0; -1]%Q) (CMatrix eCe) (CMatrix eCx)); try eassumption.
  - vm_compute; reflexivity.
  - vm_compute; reflexivity.
  - reflexivity.
Qed.

(* ---------------------------------------------------------------------------------------------
   entry points: the caller's x0 is not read by the closed form -- and it must not be: the same formula expanded at
   another point is NOT the posterior mean
   --------------------------------------------------------------------------------------------- *)
Theorem map_entry_ignores_x0 fixed m n A b pm x0arg disp ce cx :
  map_entry fixed m n A b pm x0arg disp ce cx = map_entry fixed m n A b pm None true ce cx.
Proof. reflexivity. Qed.

Theorem expansion_point_matters :
  exists m n A b pm v Ce Cx x y,
    map_core m n A b pm (NMat Ce) (NMat Cx) = Val x /\ map_core m n A b v (NMat Ce) (NMat Cx) = Val y /\ v <> pm /\ x <> y.
Proof.
  exists 2%nat, 3%nat, wA, wb, (qvec [1; 0; -1]%Q), (qvec [0; 2; 1]%Q), eCe, eCx.
  eexists. eexists. split; [vm_compute; reflexivity|]. split; [vm_compute; reflexivity|]. split; qcl_neq.
Qed.

(* ---------------------------------------------------------------------------------------------
   ML: the specification value (weighted least squares with the checked inverse of the noise covariance) is a stationary
   point and a maximiser of the likelihood
   --------------------------------------------------------------------------------------------- *)
Definition lik_q (A Pe : list (list Qc)) (b x : list Qc) : Qc :=
  let r := qvsub b (qmatvec A x) in qdot r (qmatvec Pe r).

Theorem ml_exact_maximiser m n A b ce x :
  ml_exact m n A b ce = Some x ->
  exists Pe, qinv (dense_of true m ce) = Some Pe /\
   (wf_mat n A -> length A = m -> length b = m -> length (dense_of true m ce) = m -> q_sym m Pe -> length x = n ->
    qmattvec n A (qmatvec Pe (qvsub b (qmatvec A x))) = qvzero n /\
    ((forall v, length v = m -> 0 <= qdot v (qmatvec Pe v)) ->
     forall y, length y = n -> lik_q A Pe b x <= lik_q A Pe b y)).
Proof.
  unfold ml_exact. destruct (qinv (dense_of true m ce)) as [Pe|] eqn:IPe; [|discriminate].
  intros HS. apply qsolve_sound in HS as [HS _]. exists Pe. split; [reflexivity|].
  intros HA HAm Hb HCe HSym Hx.
  destruct (qinv_shape _ _ IPe) as [WPe SPe]. rewrite HCe in *.
  rewrite (q_atpa_matvec m n A Pe x HA HAm WPe SPe HSym Hx) in HS.
  assert (L1 : length (qmatvec A x) = m) by (rewrite q_matvec_length; exact HAm).
  assert (G : qmattvec n A (qmatvec Pe (qvsub b (qmatvec A x))) = qvzero n).
  { rewrite (q_matvec_vsub Pe b (qmatvec A x) m WPe Hb L1).
    rewrite (q_mattvec_vsub n A _ _ HA) by (rewrite !q_matvec_length; reflexivity).
    rewrite HS. rewrite q_vsub_self. rewrite q_mattvec_length by exact HA. reflexivity. }
  split; [exact G|].
  intros PSD y Hy. unfold lik_q.
  set (h := qvsub y x). set (r := qvsub b (qmatvec A x)).
  assert (Hh : length h = n) by (unfold h; rewrite q_vsub_length; congruence).
  assert (Ey : y = qvadd x h) by (unfold h; symmetry; apply q_vadd_vsub_cancel; congruence).
  assert (Hr : length r = m) by (unfold r; rewrite q_vsub_length; congruence).
  assert (LAh : length (qmatvec A h) = m) by (rewrite q_matvec_length; exact HAm).
  assert (Er : qvsub b (qmatvec A y) = qvsub r (qmatvec A h)).
  { rewrite Ey. rewrite (q_matvec_vadd A x h n HA Hx Hh). unfold r. apply q_vsub_vadd_distr; congruence. }
  rewrite Er. rewrite (q_quad_vsub m Pe r (qmatvec A h) WPe SPe HSym Hr LAh).
  rewrite (q_adjoint n A h (qmatvec Pe r) HA Hh). fold r in G. rewrite G. rewrite q_dot_vzero_r.
  pose proof (PSD (qmatvec A h) LAh) as P1.
  set (q0 := qdot r (qmatvec Pe r)) in *.
  replace (q0 - (1 + 1) * 0 + qdot (qmatvec A h) (qmatvec Pe (qmatvec A h))) with (q0 + qdot (qmatvec A h) (qmatvec Pe (qmatvec A h))) by ring.
  replace q0 with (q0 + 0) at 1 by ring. apply Qcplus_le_compat; [apply Qcle_refl | exact P1].
Qed.

(* ---------------------------------------------------------------------------------------------
   Gaussian.compute_cov(): what the model caches in .cov is the two-sided inverse of the precision of the log-density
   --------------------------------------------------------------------------------------------- *)
Theorem compute_cov_spec p dim c C :
  compute_cov_model p dim c = Some C ->
  let M := sq_of dim c in
  match p with
  | PCov => C = M
  | PPrec => qmatmul (length M) M C = qident (length M) /\ qmatmul (length M) C M = qident (length M)
  | PSqrtcov => C = qmatmul dim M (qtranspose dim M)
  | PSqrtprec => let P := qmatmul dim (qtranspose dim M) M in
                 qmatmul (length P) P C = qident (length P) /\ qmatmul (length P) C P = qident (length P)
  end.
Proof.
  intros H. cbv zeta. destruct p; unfold compute_cov_model in H; cbv zeta in H.
  - injection H as <-. reflexivity.
  - apply qinv_sound in H. exact H.
  - injection H as <-. reflexivity.
  - apply qinv_sound in H. exact H.
Qed.

(* MAP after compute_cov() reads exactly that matrix, whatever was observed *)
Theorem gd_cov_after_compute_cov dim g obs :
  gd_computed g = Some obs ->
  gd_cov dim g = match compute_cov_model (mk_param (gd_param g)) dim (mk_cov (gd_kind g) (gd_s g) (gd_v g) (gd_M g)) with
                 | Some C => Some (CMatrix C)
                 | None => cov_getter (mk_param (gd_param g)) (mk_cov (gd_kind g) (gd_s g) (gd_v g) (gd_M g)) None
                 end.
Proof. intros H. unfold gd_cov. rewrite H. destruct (compute_cov_model _ _ _); reflexivity. Qed.

(* ---------------------------------------------------------------------------------------------
   the hypotheses of closed_form_equals_posterior_mean as a computed fact about the instance that runs
   --------------------------------------------------------------------------------------------- *)
Lemma shape_ok_spec r c M : shape_ok r c M = true -> wf_mat c M /\ length M = r.
Proof.
  unfold shape_ok. intros H. apply andb_true_iff in H as [H1 H2]. split; [|apply Nat.eqb_eq; exact H1].
  unfold wf_mat. apply Forall_forall. intros row Hr. rewrite forallb_forall in H2. apply Nat.eqb_eq. exact (H2 row Hr).
Qed.

Theorem hyps_ok_sound fixed m n A b x0 ce cx x y :
  hyps_ok m n A b ce cx = true ->
  cov_guard fixed ce cx ->
  map_direct fixed m n A b x0 (Some ce) (Some cx) = Val x ->
  post_mean_exact m n A b x0 ce cx = Some y ->
  length y = n -> x = y.
Proof.
  unfold hyps_ok. intros H G HM HY Hy.
  apply andb_true_iff in H as [H HI]. apply andb_true_iff in H as [H Lb]. apply andb_true_iff in H as [H SCx].
  apply andb_true_iff in H as [SA SCe].
  destruct (qinv (dense_of true m ce)) as [Pe|] eqn:IPe; [|discriminate].
  destruct (qinv (dense_of true n cx)) as [Px|] eqn:IPx; [|discriminate].
  apply andb_true_iff in HI as [KS KC].
  destruct (qinv (post_prec n A Pe Px)) as [C|] eqn:IC; [|discriminate].
  destruct (shape_ok_spec _ _ _ SA) as [WA LA]. destruct (shape_ok_spec _ _ _ SCe) as [WCe LCe].
  destruct (shape_ok_spec _ _ _ SCx) as [WCx LCx]. apply Nat.eqb_eq in Lb.
  apply (closed_form_equals_posterior_mean fixed m n A b x0 ce cx x y G HM HY); try exact Hy.
  - unfold lg_wf. repeat split; assumption.
  - intros Pe' E. rewrite IPe in E. injection E as <-.
    destruct (qinv_shape _ _ IPe) as [WPe SPe]. rewrite LCe in WPe.
    apply q_sym_of_transpose; [exact WPe | apply qcll_eqb_eq; exact KS].
  - intros Pe' Px' E1 E2. rewrite IPe in E1. injection E1 as <-. rewrite IPx in E2. injection E2 as <-. exists C. exact IC.
Qed.

(* ---------------------------------------------------------------------------------------------
   positive semi-definiteness from the checked certificate; the maximality clause without assumptions
   --------------------------------------------------------------------------------------------- *)
Lemma scale_rows_matvec ws U v : qmatvec (scale_rows ws U) v = map (fun p => fst p * snd p) (combine ws (qmatvec U v)).
Proof.
  unfold scale_rows. revert U; induction ws as [|w ws IH]; intros [|r U]; try reflexivity.
  cbn [combine map qmatvec matvec fst snd]. f_equal.
  - apply (dot_vscale_l Qc 0 1 Qcplus Qcmult Qcminus Qcopp Qcrt).
  - apply IH.
Qed.

Lemma qc_mul_nonneg a b : 0 <= a -> 0 <= b -> 0 <= a * b.
Proof. unfold Qcle, Qcmult, Q2Qc. cbn [this]. rewrite !Qred_correct. intros. apply Qmult_le_0_compat; assumption. Qed.
Lemma qc_sq_nonneg a : 0 <= a * a.
Proof. unfold Qcle, Qcmult, Q2Qc. cbn [this]. rewrite !Qred_correct. nra. Qed.

Lemma weighted_sq_nonneg ws t : Forall (fun w => 0 <= w) ws -> 0 <= qdot t (map (fun p => fst p * snd p) (combine ws t)).
Proof.
  intros H; revert t; induction H as [|w ws Hw H IH]; intros [|a t]; cbn [combine map qdot dot fst snd]; try apply Qcle_refl.
  change (dot 0 Qcplus Qcmult t ?x) with (qdot t x).
  replace 0 with (0 + 0) by ring. apply Qcplus_le_compat; [|apply IH].
  replace (a * (w * a)) with (w * (a * a)) by ring.
  apply qc_mul_nonneg; [exact Hw | apply qc_sq_nonneg].
Qed.

Lemma all_pos_nonneg ws : all_pos ws = true -> Forall (fun w => 0 <= w) ws.
Proof.
  unfold all_pos. intros H. apply Forall_forall. intros w Hw. rewrite forallb_forall in H. specialize (H w Hw).
  apply negb_true_iff in H. unfold Qcle. cbn [this Q2Qc]. rewrite Qred_correct.
  destruct (Qlt_le_dec 0 (this w)) as [L|L]; [apply Qlt_le_weak; exact L|].
  apply Qle_bool_iff in L. rewrite L in H. discriminate.
Qed.

Lemma q_matvec_transpose n U y : wf_mat n U -> qmatvec (qtranspose n U) y = qmattvec n U y.
Proof.
  intros HU. rewrite (q_mattvec_as_cols n U y HU).
  unfold qtranspose, transpose, qmatvec, matvec. rewrite map_map. reflexivity.
Qed.

Theorem psd_cert_sound n P : psd_cert n P = true -> forall v, length v = n -> 0 <= qdot v (qmatvec P v).
Proof.
  unfold psd_cert. destruct (elim_sym n P) as [U|]; [|discriminate]. intros H v Hv.
  apply andb_true_iff in H as [H HP]. apply andb_true_iff in H as [H HW]. apply andb_true_iff in H as [Hpos HL].
  apply Nat.eqb_eq in HL. apply qcll_eqb_eq in HP.
  assert (WU : wf_mat n U).
  { unfold wf_mat. apply Forall_forall. intros r Hr. rewrite forallb_forall in HW. apply Nat.eqb_eq. exact (HW r Hr). }
  set (ws := map (fun d => / d) (diag_of U)) in *.
  assert (WS : wf_mat n (scale_rows ws U)).
  { unfold scale_rows, wf_mat. apply Forall_forall. intros r Hr. apply in_map_iff in Hr. destruct Hr as [[w r0] [<- Hin]].
    cbn [fst snd]. rewrite q_vscale_length. apply in_combine_r in Hin. eapply Forall_forall in WU; eauto. }
  rewrite <- HP. rewrite (q_matvec_matmul n _ _ v WS Hv). rewrite (q_matvec_transpose n U _ WU).
  rewrite <- (q_adjoint n U v _ WU Hv). rewrite scale_rows_matvec.
  apply weighted_sq_nonneg. apply all_pos_nonneg. exact Hpos.
Qed.

Example psd_example : psd_cert 3 (qmat [[2; 1; 0]; [1; 2; 1#2]; [0; 1#2; 3]]%Q) = true /\ psd_cert 2 (qmat [[1; 2]; [2; 1]]%Q) = false.
Proof. split; vm_compute; reflexivity. Qed.

Theorem mode_decided fixed m n A b x0 ce cx x :
  mode_hyps_ok m n A b ce cx = true ->
  cov_guard fixed ce cx ->
  map_direct fixed m n A b x0 (Some ce) (Some cx) = Val x ->
  exists Pe Px, qinv (dense_of true m ce) = Some Pe /\ qinv (dense_of true n cx) = Some Px /\
    post_grad n A Pe Px b x0 x = qvzero n /\
    forall y, length y = n -> post_q A Pe Px b x0 x <= post_q A Pe Px b x0 y.
Proof.
  unfold mode_hyps_ok. intros H G HM. apply andb_true_iff in H as [HH HP].
  pose proof HH as HH0. unfold hyps_ok in HH.
  apply andb_true_iff in HH as [HH HI]. apply andb_true_iff in HH as [HH Lb]. apply andb_true_iff in HH as [HH SCx].
  apply andb_true_iff in HH as [SA SCe].
  destruct (qinv (dense_of true m ce)) as [Pe|] eqn:IPe; [|discriminate].
  destruct (qinv (dense_of true n cx)) as [Px|] eqn:IPx; [|discriminate].
  apply andb_true_iff in HI as [KS _]. apply andb_true_iff in HP as [HP PSx]. apply andb_true_iff in HP as [KSx PSe].
  destruct (shape_ok_spec _ _ _ SA) as [WA LA]. destruct (shape_ok_spec _ _ _ SCe) as [WCe LCe].
  destruct (shape_ok_spec _ _ _ SCx) as [WCx LCx]. apply Nat.eqb_eq in Lb.
  destruct (qinv_sound _ _ IPe) as [_ LPe]. destruct (qinv_sound _ _ IPx) as [_ LPx].
  destruct (qinv_shape _ _ IPe) as [WPe SPe]. destruct (qinv_shape _ _ IPx) as [WPx SPx].
  rewrite LCe in *. rewrite LCx in *.
  assert (PE : is_prec m (dense_of true m ce) Pe).
  { unfold is_prec. repeat split; try assumption.
    - intros v Hv. apply (q_left_inverse m Pe _ v WCe LCe Hv LPe).
    - apply q_sym_of_transpose; [exact WPe | apply qcll_eqb_eq; exact KS].
    - apply psd_cert_sound. exact PSe. }
  assert (PX : is_prec n (dense_of true n cx) Px).
  { unfold is_prec. repeat split; try assumption.
    - intros v Hv. apply (q_left_inverse n Px _ v WCx LCx Hv LPx).
    - apply q_sym_of_transpose; [exact WPx | apply qcll_eqb_eq; exact KSx].
    - apply psd_cert_sound. exact PSx. }
  assert (W : lg_wf m n A (dense_of true m ce) (dense_of true n cx) b) by (unfold lg_wf; repeat split; assumption).
  destruct (closed_form_is_posterior_mode fixed m n A b x0 ce cx x G HM W) as (_ & _ & K).
  destruct (K Pe Px PE PX) as (K1 & K2 & _).
  exists Pe, Px. repeat split; assumption.
Qed.

(* the precision the density uses and the covariance compute_cov() caches are inverse to each other in the model, for every
   parameterisation *)
Theorem precision_times_cov p dim c P C :
  precision_model p dim c = Some P -> compute_cov_model p dim c = Some C ->
  (qmatmul (length P) P C = qident (length P) \/ qmatmul (length C) P C = qident (length C)).
Proof.
  unfold precision_model, compute_cov_model. cbv zeta. destruct p.
  - intros HP HC. injection HC as <-. apply qinv_sound in HP as [_ HP]. right. exact HP.
  - intros HP HC. injection HP as <-. apply qinv_sound in HC as [HC _]. left. exact HC.
  - intros HP HC. injection HC as <-. apply qinv_sound in HP as [_ HP]. right. exact HP.
  - intros HP HC. injection HP as <-. apply qinv_sound in HC as [HC _]. left. exact HC.
Qed.

(* life cycle: the outcome of the next estimate depends only on the state "compute_cov() since the last re-assignment";
   reads, refused calls and successful estimates leave that state alone; a re-assignment forgets everything before it *)
Fixpoint life_state (c : bool) (ops : list life_op) : bool :=
  match ops with
  | [] => c
  | LComputeCov :: r => life_state true r
  | LReassign :: r => life_state false r
  | _ :: r => life_state c r
  end.

Theorem life_next_estimate c ops :
  life_run c (ops ++ [LMap]) = life_run c ops ++ [if life_state c ops then LValue else LRefused] /\
  life_run c (ops ++ [LSample]) = life_run c ops ++ [if life_state c ops then LValue else LRefused].
Proof.
  revert c; induction ops as [|o ops IH]; intros c.
  - split; reflexivity.
  - destruct o; cbn [app life_run life_state]; split; f_equal; apply IH.
Qed.

Theorem life_state_frame c ops :
  (forall o, In o ops -> o = LMap \/ o = LSample \/ o = LRead) -> life_state c ops = c.
Proof.
  induction ops as [|o ops IH]; intros H; [reflexivity|].
  assert (IH' : life_state c ops = c) by (apply IH; intros o' Ho; apply H; right; exact Ho).
  destruct (H o (or_introl eq_refl)) as [->|[->| ->]]; cbn [life_state]; exact IH'.
Qed.

Theorem life_state_reassign c ops1 ops2 : life_state c (ops1 ++ LReassign :: ops2) = life_state false ops2.
Proof. revert c; induction ops1 as [|o ops1 IH]; intros c; [reflexivity|]. destruct o; cbn [app life_state]; apply IH. Qed.
