(* C12 -- executable model of cuqi.model.PDEModel._forward_func on a cuqi.pde.SteadyStateLinearPDE:
   assemble (stores diff_op, rhs ON THE PDE OBJECT), solve (reads them back, linear solver), observe
   (observation_map; equal grids, so no interpolation).  The linear solver is a parameter of the model; the
   instance the correspondence evaluates is Gauss-Jordan elimination over Qc whose result is CHECKED (both products
   with the operator are the identity), so nothing about the elimination itself is trusted.  No proofs here. *)
From CV Require Import Base.Tac Base.LinAlg Base.QcLin Base.Cmp Model.C12_Model Model.C12_Jac.
From Coq Require Import QArith Qcanon.
Local Open Scope Qc_scope.

Record pde := mkPde {
  pde_form : vec -> mat * vec;            (* PDE_form(parameter) = (differential operator, right-hand side) *)
  pde_obsmap : option (vec -> vec)        (* observation_map, if any *)
}.

(* the attributes diff_op / rhs of the PDE object; None: never assembled *)
Definition pde_state := option (mat * vec).

Definition pde_assemble (P : pde) (st : pde_state) (x : vec) : pde_state := Some (pde_form P x).

(* SteadyStateLinearPDE.solve: Exception("PDE is not assembled.") unless both attributes exist *)
Definition pde_solve (slv : mat -> vec -> vec) (st : pde_state) : res vec :=
  match st with Some (Aop, rhs) => Ok (slv Aop rhs) | None => Err EValue end.

Definition pde_observe (P : pde) (u : vec) : vec :=
  match pde_obsmap P with Some f => f u | None => u end.

(* PDEModel._forward_func(x) on a PDE object in state st: the observation and the state it leaves behind *)
Definition pde_forward_func (P : pde) (slv : mat -> vec -> vec) (st : pde_state) (x : vec) : res vec * pde_state :=
  let st1 := pde_assemble P st x in
  (rmap (pde_observe P) (pde_solve slv st1), st1).

(* the forward callable PDEModel hands to Model.__init__, as a function of the input alone; scipy's solver and
   the observation return plain ndarrays: no CUQIarray tag survives *)
Definition pde_fwd (P : pde) (slv : mat -> vec -> vec) : fwd :=
  mkFwd (fun x => pde_observe P (slv (fst (pde_form P x)) (snd (pde_form P x)))) false.

(* ---- a solver whose answer is checked ---------------------------------------------------------- *)
Definition row_scale (c : Qc) (r : vec) : vec := map (Qcmult c) r.
Fixpoint row_sub (r : vec) (c : Qc) (p : vec) : vec :=      (* r - c p *)
  match r, p with a :: r', b :: p' => (a - c * b) :: row_sub r' c p' | _, _ => [] end.

Fixpoint extract_pivot (j : nat) (todo : list vec) : option (vec * list vec) :=
  match todo with
  | [] => None
  | r :: t => if qc_eqb (nthq r j) 0
              then match extract_pivot j t with Some (p, t') => Some (p, r :: t') | None => None end
              else Some (r, t)
  end.

Fixpoint gj_loop (steps j : nat) (done todo : list vec) : option (list vec) :=
  match steps with
  | O => match todo with [] => Some done | _ => None end
  | S s => match extract_pivot j todo with
           | None => None
           | Some (r, t) =>
               let p := row_scale (/ nthq r j) r in
               let elim := fun x => row_sub x (nthq x j) p in
               gj_loop s (S j) (map elim done ++ [p]) (map elim t)
           end
  end.

Definition idmat (n : nat) : mat := diagmat (repeat 1 n).

Fixpoint augment (A I : mat) : list vec :=
  match A, I with r :: A', e :: I' => (r ++ e) :: augment A' I' | _, _ => [] end.

Definition gauss_inv (n : nat) (A : mat) : option mat :=
  match gj_loop n 0 [] (augment A (idmat n)) with
  | Some rows => Some (map (skipn n) rows)
  | None => None
  end.

(* L is a two-sided inverse of the n x n matrix A *)
Definition is_inverse (n : nat) (L A : mat) : bool :=
  Nat.eqb (length A) n && Nat.eqb (length L) n && lin_wf n A && lin_wf n L &&
  qcll_eqb (qmatmul n L A) (idmat n) && qcll_eqb (qmatmul n A L) (idmat n).

(* the operator is invertible and the elimination found its inverse *)
Definition inv_ok (n : nat) (A : mat) : bool :=
  match gauss_inv n A with Some L => is_inverse n L A | None => false end.

Definition model_solve (n : nat) (A : mat) (rhs : vec) : vec :=
  match gauss_inv n A with Some L => qmatvec L rhs | None => [] end.

(* ---- executable descriptions used by the generated cases ---------------------------------------- *)
(* an operator that depends on the parameter: off-diagonal entries of T multiplied by x[(i+j) mod n] *)
Definition pde_xop (T : mat) (x : vec) : mat :=
  map (fun i => map (fun j => if Nat.eqb i j then nthq (nth i T []) j
                              else nthq (nth i T []) j * nthq x ((i + j) mod (length x)))
                    (seq 0 (length T))) (seq 0 (length T)).

(* PDE_form of the generated cases: (Aop(x), Aop(x) (A0 phi(x) + b0)), Aop constant or parameter dependent *)
Definition pde_case_form (xdep : bool) (T A0 : mat) (cs : list Qc) (b0 : vec) (x : vec) : mat * vec :=
  let Aop := if xdep then pde_xop T x else T in
  (Aop, qmatvec Aop (poly_forward A0 cs b0 x)).

(* every operator the case assembles (one per input column, listed by the harness) is certified invertible *)
Definition pde_ops_ok (n : nat) (xdep : bool) (T : mat) (xs : list vec) : bool :=
  if xdep then forallb (fun x => inv_ok n (pde_xop T x)) xs else inv_ok n T.

(* a Samples input: _apply_func calls the forward callable once per column on the SAME PDE object, in order *)
Fixpoint pde_forward_columns (P : pde) (slv : mat -> vec -> vec) (st : pde_state) (cols : list vec)
  : list (res vec) * pde_state :=
  match cols with
  | [] => ([], st)
  | x :: r => let '(y, st1) := pde_forward_func P slv st x in
              let '(ys, st2) := pde_forward_columns P slv st1 r in (y :: ys, st2)
  end.

(* checker: the right-hand side the PDE object holds after a Samples input went through it (that of the LAST column) *)
Definition check_pde_state (tol : bool) (n : nat) (xdep : bool) (T A0 : mat) (cs : list Qc) (b0 : vec)
           (cols : list vec) (obs_rhs : list Q) : bool :=
  match snd (pde_forward_columns (mkPde (pde_case_form xdep T A0 cs b0) None) (model_solve n) None cols) with
  | Some (_, rhs) => if tol then qcl_close tol9 (qvec obs_rhs) rhs else qcl_eqb rhs (qvec obs_rhs)
  | None => match cols with [] => true | _ => false end
  end.
