(* C04 -- proofs, part 7: Lognormal from Normal by change of variables; Beta (integer shapes) and InverseGamma (integer shape)
   cdf derivatives; the code's erf formula for Normal.cdf under a NAMED oracle law for erf. *)
From CV Require Import Base.Tac Model.C04_Dens Model.C04_Cdf Proofs.C04_Dens Proofs.C04_More Proofs.C04_Cdf.
From Coq Require Import Reals Lra.
From Coquelicot Require Import Coquelicot.
Local Open Scope R_scope.

(* ---------- Lognormal (1-d factor): density (1/t) N(ln t; m, s); its integral is the Normal cdf at ln ---------- *)
Definition lognormal_pdf1 (m s t : R) : R := / t * normal_pdf1 (m, s, ln t).

(* the model's per-coordinate Lognormal term is ln of this density *)
Theorem lognormal_term_ln m s t : 0 < t -> 0 < s -> lognormal_term (m, s, t) = ln (lognormal_pdf1 m s t).
Proof.
  intros Ht Hs. unfold lognormal_term, lognormal_pdf1.
  rewrite ln_mult; [| apply Rinv_0_lt_compat; exact Ht | apply normal_pdf1_pos; exact Hs].
  rewrite ln_Rinv by exact Ht. rewrite normal_term_ln by exact Hs. reflexivity.
Qed.

(* change of variables u = ln t: the Lognormal cdf is the Normal cdf at ln (no assumption about the Normal) *)
Theorem lognormal_mass m s a b : 0 < s -> 0 < a -> a <= b ->
  is_RInt (lognormal_pdf1 m s) a b (normal_cdf1 (m, s, ln b) - normal_cdf1 (m, s, ln a)).
Proof.
  intros Hs Ha Hab.
  replace (normal_cdf1 (m, s, ln b) - normal_cdf1 (m, s, ln a))
    with (RInt (fun u => normal_pdf1 (m, s, u)) (ln a) (ln b))
    by (apply is_RInt_unique; apply normal_cdf1_is_integral; exact Hs).
  apply (is_RInt_ext (fun t => scal (/ t) (normal_pdf1 (m, s, ln t)))).
  { intros t _. reflexivity. }
  apply (is_RInt_comp (fun u => normal_pdf1 (m, s, u)) ln (fun t => / t) a b).
  - intros t _. apply normal_pdf1_cont. exact Hs.
  - intros t Ht. rewrite Rmin_left, Rmax_right in Ht by lra. split.
    + apply is_derive_Reals. apply derivable_pt_lim_ln. lra.
    + apply continuous_Rinv_comp; [apply continuous_id | cbn; lra].
Qed.

(* NORMALISATION GIVEN THE NORMAL ONE: if the Normal cdf tends to 0 / 1 (hypotheses, not proved here: no Gaussian integral
   in the installed libraries), the Lognormal mass of [a, b] tends to 1 as a -> 0+ and b -> +infinity, in the sense that it is
   cdfN(ln b) - cdfN(ln a) with ln b -> +inf, ln a -> -inf *)
Theorem lognormal_normalised_given_normal m s : 0 < s ->
  is_lim (fun u => normal_cdf1 (m, s, u)) p_infty 1 -> is_lim (fun u => normal_cdf1 (m, s, u)) m_infty 0 ->
  is_lim (fun v => RInt (lognormal_pdf1 m s) (exp (- v)) (exp v)) p_infty 1.
Proof.
  intros Hs Hp Hm.
  apply is_lim_ext_loc with (f := fun v => normal_cdf1 (m, s, v) - normal_cdf1 (m, s, - v)).
  - exists 0. intros v Hv. symmetry. apply is_RInt_unique.
    rewrite <- (ln_exp v) at 3. rewrite <- (ln_exp (- v)) at 2.
    apply lognormal_mass; [exact Hs | apply exp_pos |].
    left. apply exp_increasing. lra.
  - evar_last.
    + apply is_lim_minus'; [exact Hp|].
      apply (is_lim_comp (fun u => normal_cdf1 (m, s, u)) (fun v => - v) p_infty 0 m_infty); [exact Hm | |].
      * evar_last; [apply is_lim_opp; apply is_lim_id | reflexivity].
      * exists 0. intros y _. discriminate.
    + cbn. f_equal. lra.
Qed.

(* ---------- Beta with integer shapes (a+1, b+1): derivative of the cdf is the density ---------- *)
Lemma beta_int_pdf_cont a b t : continuous (beta_int_pdf a b) t.
Proof.
  apply (ex_derive_continuous (beta_int_pdf a b)). unfold beta_int_pdf.
  pose proof (INR_fact_pos a). pose proof (INR_fact_pos b).
  assert (0 < INR (fact a) * INR (fact b)) by (apply Rmult_lt_0_compat; assumption).
  auto_derive. lra.
Qed.

Theorem beta_int_cdf_derive a b x : is_derive (beta_int_cdf1 a b) x (beta_int_pdf a b x).
Proof.
  unfold beta_int_cdf1.
  apply (is_derive_RInt (beta_int_pdf a b) (fun z => RInt (beta_int_pdf a b) 0 z) 0 x).
  - apply filter_forall. intros y. apply (@RInt_correct R_CompleteNormedModule (beta_int_pdf a b) 0 y).
    apply ex_RInt_continuous. intros t _. apply beta_int_pdf_cont.
  - apply beta_int_pdf_cont.
Qed.

(* the integer-shape Beta density of the cdf model is the documented Beta density (Gamma(n+1) = n!) on 0 < x < 1 *)
Theorem beta_int_pdf_doc a b x : 0 < x < 1 ->
  beta_int_pdf a b x = beta_pdf1 (INR (fact a)) (INR (fact b)) (INR (fact (a + b + 1))) (INR (S a)) (INR (S b)) x.
Proof.
  intros [H0 H1]. unfold beta_int_pdf, beta_pdf1.
  rewrite <- !Rpower_pow by lra.
  replace (INR (S a) - 1) with (INR a) by (rewrite S_INR; ring).
  replace (INR (S b) - 1) with (INR b) by (rewrite S_INR; ring). reflexivity.
Qed.

(* ---------- InverseGamma with integer shape k+1: cdf(x) = 1 - GammaCdf_{k+1, rate = scale}(1 / (x - loc)) ---------- *)
Definition invgamma_int_cdf1 (k : nat) (l sc x : R) : R := 1 - gamma_int_cdf1 k sc (/ (x - l)).
Definition invgamma_int_pdf (k : nat) (l sc x : R) : R := sc ^ (S k) * (/ (x - l)) ^ (k + 2) * exp (- sc / (x - l)) / INR (fact k).

Theorem invgamma_int_cdf_derive k l sc x : l < x ->
  is_derive (invgamma_int_cdf1 k l sc) x (invgamma_int_pdf k l sc x).
Proof.
  intros Hx. unfold invgamma_int_cdf1.
  evar_last.
  - apply (is_derive_minus (fun _ => 1) (fun t => gamma_int_cdf1 k sc (/ (t - l))) x).
    + evar_last; [apply is_derive_const | reflexivity].
    + apply (is_derive_comp (gamma_int_cdf1 k sc) (fun t => / (t - l)) x).
      * apply gamma_int_cdf_derive.
      * auto_derive; [lra | reflexivity].
  - unfold minus, plus, opp, zero, scal, mult; cbn. unfold mult; cbn.
    unfold gamma_int_pdf, invgamma_int_pdf. pose proof (INR_fact_pos k).
    replace (k + 2)%nat with (S (S k)) by lia. rewrite <- !tech_pow_Rmult.
    replace (- sc * / (x - l)) with (- sc / (x - l)) by (unfold Rdiv; ring).
    generalize (exp (- sc / (x - l))) ((/ (x - l)) ^ k) (sc ^ k). intros E p q. field. split; lra.
Qed.

(* ---------- the code's formula for Normal.cdf, 0.5 (1 + erf((x - m) / (s sqrt 2))), under a named law for erf ---------- *)
Section ErfLaw.
  Variable erf : R -> R.
  (* ORACLE LAW (scipy.special.erf; not provable here: erf is not defined in the installed libraries) *)
  Hypothesis erf_law : forall z, erf z = 2 / sqrt PI * RInt (fun t => exp (- (t * t))) 0 z.

  Definition normal_cdf1_code (m s x : R) : R := / 2 * (1 + erf ((x - m) / (s * sqrt 2))).

  Theorem normal_cdf1_code_is_model m s x : 0 < s -> normal_cdf1_code m s x = normal_cdf1 (m, s, x).
  Proof.
    intros Hs. unfold normal_cdf1_code, normal_cdf1. rewrite erf_law.
    assert (H2 : 0 < sqrt 2) by (apply sqrt_lt_R0; lra).
    assert (Hpi : 0 < sqrt PI) by (apply sqrt_lt_R0; apply PI_RGT_0).
    set (z := (x - m) / s).
    replace ((x - m) / (s * sqrt 2)) with (/ sqrt 2 * z + 0) by (unfold z; field; lra).
    replace 0 with (/ sqrt 2 * 0 + 0) at 1 by ring.
    rewrite <- (RInt_comp_lin (fun t => exp (- (t * t))) (/ sqrt 2) 0 0 z).
    2:{ apply ex_RInt_continuous. intros t _. apply (ex_derive_continuous (fun t => exp (- (t * t)))). auto_derive. exact I. }
    rewrite <- (RInt_scal (V := R_CompleteNormedModule)).
    2:{ apply ex_RInt_continuous. intros t _.
        apply (ex_derive_continuous (fun y => scal (/ sqrt 2) (exp (- ((/ sqrt 2 * y + 0) * (/ sqrt 2 * y + 0)))))).
        unfold scal; cbn; unfold mult; cbn. auto_derive. exact I. }
    assert (E : RInt (fun y => scal (2 / sqrt PI) (scal (/ sqrt 2) (exp (- ((/ sqrt 2 * y + 0) * (/ sqrt 2 * y + 0)))))) 0 z
              = 2 * RInt std_normal_pdf 0 z).
    { change (2 * RInt std_normal_pdf 0 z) with (scal 2 (RInt std_normal_pdf 0 z)).
      rewrite <- (RInt_scal (V := R_CompleteNormedModule) std_normal_pdf 0 z 2).
      2:{ apply ex_RInt_continuous. intros t _. apply std_normal_pdf_cont. }
      apply RInt_ext. intros t _. unfold scal, std_normal_pdf; cbn; unfold mult; cbn.
      replace (- ((/ sqrt 2 * t + 0) * (/ sqrt 2 * t + 0))) with (- (t * t) / 2).
      2:{ replace ((/ sqrt 2 * t + 0) * (/ sqrt 2 * t + 0)) with (t * t * (/ sqrt 2 * / sqrt 2)) by ring.
          rewrite <- Rinv_mult, sqrt_sqrt by lra. field. }
      rewrite sqrt_mult by (pose proof PI_RGT_0; lra). field. split; lra. }
    unfold scal in E at 1. cbn in E. unfold mult in E; cbn in E.
    unfold scal; cbn; unfold mult; cbn. rewrite E. lra.
  Qed.
End ErfLaw.
