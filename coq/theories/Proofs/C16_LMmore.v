(* C16 -- Levenberg-Marquardt, continued:
   (1) the mechanism behind the open finding LM.solve|stagnation-returns-nan, as a theorem of the model: a trial point whose objective
       EQUALS the current one (in floating point: f - ftemp rounds to 0) has gain ratio 0, is accepted, and nu is doubled (floor nu0);
   (2) the descent theorem at the carrier R with LA.norm = sqrt of the sum of squares: the norm hypothesis is discharged;
   (3) exact-arithmetic witness for the open finding LM.solve|absolute-nu0-floor-stalls-small-residuals: the SAME residuals in units
       64 times smaller, same nu0, do not reach the tolerance within the iterations in which the original problem converges. *)
From CV Require Import Base.Tac Base.LinAlg Base.QcLin Model.C16_Solve Proofs.C16_CG Proofs.C16_Prox Proofs.C16_Spec Proofs.C16_Grad
     Proofs.C16_LMfull Proofs.C16_LMdesc Proofs.C16_LMdescSpec.
From Coq Require Import Reals Lra QArith Qcanon Qabs Ring.
Local Open Scope R_scope.

Section ZeroGain.
Variable T : Type.
Variables (t0 t1 : T) (tadd tmul tsub : T -> T -> T) (topp : T -> T).
Variable tdiv : T -> T -> T.
Variable tleb : T -> T -> bool.
Variable phi : T -> R.
Hypothesis E : embedding T t0 t1 tadd tmul tsub topp tleb phi.
Hypothesis phi_div : forall a b, phi b <> 0 -> phi (tdiv a b) = phi a / phi b.
Variables (F : list T -> list T) (Jf : list T -> list (list T)) (solve : list (list T) -> list T -> list T) (rnorm : list T -> T).
Variable n : nat.
Variable nu0 : T.

Lemma lm_zero_gain_step (st : lm_state T) :
  phi (lm_f T st) = phi (step_ftemp T t0 t1 tadd tmul tsub tdiv F solve n st) ->
  let st' := lm_step T t0 t1 tadd tmul tsub topp tdiv tleb F Jf solve rnorm n nu0 st in
  step_ratio T t0 t1 tadd tmul tsub topp tdiv tleb F solve n st = t0 /\
  lm_x T st' = step_xtemp T t0 t1 tadd tmul tsub solve n st /\
  phi (lm_nu T st') = Rmax (2 * phi (lm_nu T st)) (phi nu0).
Proof.
  intros Hf. cbn zeta.
  assert (Hr : step_ratio T t0 t1 tadd tmul tsub topp tdiv tleb F solve n st = t0).
  { destruct E as (E0 & E1 & Ea & Em & Es & Eo & El).
    unfold step_ratio, lm_ratio.
    assert (Hq : req T tleb (tsub (lm_f T st) (step_ftemp T t0 t1 tadd tmul tsub tdiv F solve n st)) t0 = true).
    { unfold req. apply andb_true_iff. split; apply El; rewrite Es, E0; lra. }
    rewrite Hq. reflexivity. }
  split; [exact Hr|].
  pose proof (lm_nu_schedule_pkg T t0 t1 tadd tmul tsub topp tdiv tleb phi E phi_div F Jf solve rnorm n nu0 st) as S.
  cbn zeta in S. destruct S as (_ & S2 & S3 & _).
  assert (Hz : phi (step_ratio T t0 t1 tadd tmul tsub topp tdiv tleb F solve n st) = 0).
  { rewrite Hr. destruct E as (E0 & _). exact E0. }
  split; [apply S2; lra | apply S3; lra].
Qed.
End ZeroGain.

(* ---------- the descent theorem at R ---------- *)
Lemma Rnorm2_law (v : list R) : 0 <= Rnorm2 v /\ Rnorm2 v * Rnorm2 v = Rnormsq v.
Proof. unfold Rnorm2. split; [apply sqrt_pos | apply sqrt_sqrt, Rnormsq_nonneg]. Qed.

Lemma lm_descent_R (n : nat) (F : list R -> list R) (Jf : list R -> list (list R)) (solve : list (list R) -> list R -> list R)
      (nu0 gradtol : R) (x0 : list R) (maxit : nat) (st : lm_state R) (i : nat) :
  (forall x, length x = n -> wf_mat n (Jf x)) -> 0 <= gradtol -> length x0 = n ->
  lm_solve R 0 1 Rplus Rmult Rminus Ropp Rdiv Rleb F Jf solve Rnorm2 n nu0 gradtol x0 maxit = (st, i) ->
  let tr := fun j => lm_iter R 0 1 Rplus Rmult Rminus Ropp Rdiv Rleb F Jf solve Rnorm2 n nu0 j (lm_init R 0 1 Rplus Rmult Rdiv F Jf Rnorm2 n x0) in
  let f := fun x => / 2 * Rnormsq (F x) in
  (forall j, (j < i)%nat -> solved R 0 1 Rplus Rmult solve n (tr j)) ->
  st = tr i /\
  (forall j, (j < i)%nat -> f (lm_x R (tr (S j))) <= f (lm_x R (tr j)) /\
                            (lm_x R (tr (S j)) = lm_x R (tr j) \/
                             lm_x R (tr (S j)) = vsub Rminus (lm_x R (tr j)) (step_s R 0 1 Rplus Rmult solve n (tr j)))) /\
  f (lm_x R st) <= f x0.
Proof.
  intros HJ Hg Hx0 H tr f Hsol.
  pose proof (lm_descent_pkg R 0 1 Rplus Rmult Rminus Ropp RTheory Rdiv Rleb (fun x => x) embedding_R (fun a b _ => eq_refl)
                F Jf solve Rnorm2 n nu0 gradtol x0 maxit st i HJ (fun v _ => Rnorm2_law v) Hg Hx0 H Hsol) as (H1 & H2 & H3 & H4).
  fold tr in H1, H2, H3.
  assert (Ef : forall x, half_sq R 0 1 Rplus Rmult Rdiv (F x) = f x).
  { intros x. unfold half_sq, rhalf, rtwo, f, normsq. unfold Rdiv. rewrite Rmult_1_l. replace (1 + 1) with 2 by ring. reflexivity. }
  split; [exact H1|]. split.
  - intros j Hj. destruct (H3 j Hj) as (_ & Hcase & Hle).
    destruct (H2 j ltac:(lia)) as (E1 & _). destruct (H2 (S j) ltac:(lia)) as (E2 & _).
    rewrite E1, E2, !Ef in Hle. split; [exact Hle|].
    destruct Hcase as [(_ & Hx & _) | (_ & Hx & _)]; [right | left]; exact Hx.
  - rewrite !Ef in H4. exact H4.
Qed.

(* ---------- the absolute floor nu0: exact-arithmetic witness ---------- *)
Definition grad1 (co : list (Qc * Qc * Qc)) (x : Qc) : Qc :=
  match qmattvec 1 (quadJ co (x :: nil)) (quadF co (x :: nil)) with g :: nil => g | _ => 0%Qc end.
Definition scale_co (s : Q) (co : list (Q * Q * Q)) : list (Q * Q * Q) := map (fun abc => let '(a, b, c) := abc in (a * s, b * s, c * s)%Q) co.
(* |g(x)| <= gradtol |g(x0)| *)
Definition stationary1 (co : list (Qc * Qc * Qc)) (gradtol x0 x : Qc) : bool :=
  Qle_bool (Qabs (this (grad1 co x))) (this gradtol * Qabs (this (grad1 co x0))).

Definition w_co : list (Q * Q * Q) := (((1 # 8), (1 # 2), (-3 # 4)) :: nil)%Q.
Definition w_run := Eval vm_compute in q_lm_solve (qco w_co) (qc 1) (qc (1 # 1000000)) (qc (-3 # 2) :: nil) 8.
Definition w_run_scaled := Eval vm_compute in q_lm_solve (qco (scale_co (1 # 64) w_co)) (qc 1) (qc (1 # 1000000)) (qc (-3 # 2) :: nil) 8.
Lemma w_run_eq : q_lm_solve (qco w_co) (qc 1) (qc (1 # 1000000)) (qc (-3 # 2) :: nil) 8 = w_run.
Proof. vm_compute. reflexivity. Qed.
Lemma w_run_scaled_eq : q_lm_solve (qco (scale_co (1 # 64) w_co)) (qc 1) (qc (1 # 1000000)) (qc (-3 # 2) :: nil) 8 = w_run_scaled.
Proof. vm_compute. reflexivity. Qed.
Definition head0 (v : list Qc) : Qc := match v with x :: _ => x | nil => 0%Qc end.

Lemma lm_nu0_floor_refuted_ex :
  exists (co : list (Q * Q * Q)) (sigma x0 nu0 gradtol : Q) (maxit : nat) (st st' : q_lm_state) (i : nat),
    (0 < sigma)%Q /\
    q_lm_solve (qco co) (qc nu0) (qc gradtol) (qc x0 :: nil) maxit = (st, i) /\ (i < maxit)%nat /\
    stationary1 (qco co) (qc gradtol) (qc x0) (head0 (lm_x Qc st)) = true /\
    q_lm_solve (qco (scale_co sigma co)) (qc nu0) (qc gradtol) (qc x0 :: nil) maxit = (st', maxit) /\
    stationary1 (qco (scale_co sigma co)) (qc gradtol) (qc x0) (head0 (lm_x Qc st')) = false.
Proof.
  exists w_co, (1 # 64)%Q, (-3 # 2)%Q, 1%Q, (1 # 1000000)%Q, 8%nat, (fst w_run), (fst w_run_scaled), (snd w_run).
  split; [reflexivity|]. split; [rewrite w_run_eq; reflexivity|]. split; [vm_compute; lia|].
  split; [vm_compute; reflexivity|]. split; [rewrite w_run_scaled_eq; vm_compute; reflexivity|]. vm_compute; reflexivity.
Qed.
