(* C03 -- Every gradient equals the derivative of the log-density, or is refused.
   Property theorems only: each is closed by `exact <lemma>` and followed by Print Assumptions.
   lk / dk, fam_logk / fam_grad, cmrf_logk / cmrf_grad, fd_coord are the real-valued model (Model/C03_GradR.v:
   log-kernel of each family next to the formula the code's gradient method computes); quad_*, gmrf_*,
   dispatch, gauss_prior_kind are the executable rational model (Model/C03_GradQ.v).  Both are tied to the code
   on every run by harness/gen_C03.py (gradient AND logd differences of the same object). *)
From CV Require Import Base.Tac Base.LinAlg Base.QcLin Model.C03_GradR Model.C03_GradQ.
From CV Require Import Proofs.C03_GradR Proofs.C03_Quad Proofs.C03_QuadR Proofs.C03_GradQ Proofs.C03_Sym Proofs.C03_LikGen Proofs.C03_Lik Proofs.C03_SymR Proofs.C03_Gallery.
From CV Require Import Model.C03_Support Proofs.C03_Gram Proofs.C03_GramR Proofs.C03_Support Proofs.C03_Compose Proofs.C03_Chain Model.C03_ChainR Proofs.C03_ChainR Proofs.C03_Forms Proofs.C03_Ties.
From Coq Require Import Reals QArith Qcanon Qreals.
From Coquelicot Require Import Coquelicot.

(* ---------------------------------------------------------------------------------------------
   1. closed-form gradients of the separable families: the code's formula is the derivative of the
      log-density (up to its x-independent normalising term) at every point of the support *)
Theorem C03_cauchy : forall loc sc c x : R, (0 < sc)%R ->
  is_derive (fun x => - ln (PI * sc * (1 + ((x - loc) / sc) ^ 2)))%R x
            (- 2 * (x - loc) / (sc ^ 2 * (1 + ((x - loc) / sc) ^ 2)))%R.
Proof. intros loc sc c x H. exact (d_cauchy loc sc c x H). Qed.
Print Assumptions C03_cauchy.

Theorem C03_beta : forall a b c x : R, (0 < x < 1)%R ->
  is_derive (fun x => (a - 1) * ln x + (b - 1) * ln (1 - x))%R x ((a - 1) / x + (b - 1) / (x - 1))%R.
Proof. intros a b c x H. exact (d_beta a b c x H). Qed.
Print Assumptions C03_beta.

Theorem C03_invgamma : forall shape loc sc x : R, (loc < x /\ 0 < sc)%R ->
  is_derive (fun x => - (shape + 1) * ln ((x - loc) / sc) - sc / (x - loc))%R x
            ((- shape - 1) / (x - loc) + sc / (x - loc) ^ 2)%R.
Proof. intros shape loc sc x H. exact (d_invgamma shape loc sc x H). Qed.
Print Assumptions C03_invgamma.

Theorem C03_smoothedlaplace : forall loc sc beta x : R, (0 < beta /\ sc <> 0)%R ->
  is_derive (fun x => - sqrt ((x - loc) ^ 2 + beta) / sc)%R x (- ((x - loc) / sc / sqrt ((x - loc) ^ 2 + beta)))%R.
Proof. intros loc sc beta x H. exact (d_slap loc sc beta x H). Qed.
Print Assumptions C03_smoothedlaplace.

Theorem C03_mhn : forall a b c x : R, (0 < x)%R ->
  is_derive (fun x => (a - 1) * ln x - b * x * x + c * x)%R x ((a - 1) / x - 2 * b * x + c)%R.
Proof. intros a b c x H. exact (d_mhn a b c x H). Qed.
Print Assumptions C03_mhn.

(* Lognormal, one coordinate (mean mu and precision p of ln x): (1/x) (-1 - p (ln x - mu)) *)
Theorem C03_lognormal1 : forall mu p c x : R, (0 < x)%R ->
  is_derive (fun x => - ln x - p / 2 * (ln x - mu) ^ 2)%R x (/ x * (- 1 + - (p * (ln x - mu))))%R.
Proof. intros mu p c x H. exact (d_lognormal mu p c x H). Qed.
Print Assumptions C03_lognormal1.

Theorem C03_normal_kernel : forall mu p c x : R,
  is_derive (fun x => - p / 2 * (x - mu) ^ 2)%R x (- (p * (x - mu)))%R.
Proof. intros mu p c x. exact (d_normal mu p c x I). Qed.
Print Assumptions C03_normal_kernel.

(* every family at once, as the model spells it (the generated interval cases evaluate exactly lk / dk) *)
Theorem C03_family_derivative : forall (f : dfamily) (p : par) (x : R),
  supp f p x -> is_derive (lk f p) x (dk f p x).
Proof. exact lk_derive. Qed.
Print Assumptions C03_family_derivative.

(* vectors, scalar or vector parameters (numpy broadcasting), every dimension: entry i of the returned
   vector is the i-th partial derivative of the log-density ... *)
Theorem C03_separable_partial : forall (f : dfamily) (a b c xs : list R) (i : nat) (p0 : par) (x0 : R),
  nth_error (params (length xs) a b c) i = Some p0 -> nth_error xs i = Some x0 -> supp f p0 x0 ->
  is_derive (fun t => fam_logk f a b c (upd i t xs)) x0 (dk f p0 x0)
  /\ nth_error (fam_grad f a b c xs) i = Some (dk f p0 x0).
Proof. exact fam_partial_derive. Qed.
Print Assumptions C03_separable_partial.

(* ... and <gradient, d> is the derivative along every direction d *)
Theorem C03_separable_directional : forall (f : dfamily) (a b c xs ds : list R),
  length (params (length xs) a b c) = length xs -> length ds = length xs ->
  Forall2 (supp f) (params (length xs) a b c) xs ->
  is_derive (fun t => fam_logk f a b c (rvadd xs (rvscale t ds))) 0%R (rdot (fam_grad f a b c xs) ds).
Proof. exact fam_directional_derive. Qed.
Print Assumptions C03_separable_directional.

(* ---------------------------------------------------------------------------------------------
   2. quadratic families.  Over ANY commutative ring with half + half = 1: along the line x + t d,
      q(x + t d) = q(x) + t <g, d> - half t^2 c with q = -half |L(x - m)|^2 and g = -L^T L (x - m)
      (L any k x n matrix: sqrtprec, GMRF difference operator) ... *)
Theorem C03_quadratic : forall (A : Type) (a0 a1 : A) (add mul sub : A -> A -> A) (opp : A -> A),
  ring_theory a0 a1 add mul sub opp (@eq A) -> forall hf : A, add hf hf = a1 ->
  forall (n : nat) (L : list (list A)) (m x d : list A) (t : A),
  wf_mat n L -> length m = n -> length x = n -> length d = n ->
  gram_logk A a0 add mul sub opp hf L m (vadd add x (vscale mul t d)) =
  sub (add (gram_logk A a0 add mul sub opp hf L m x)
           (mul t (dot a0 add mul (gram_grad A a0 add mul sub opp n L m x) d)))
      (mul (mul hf (mul t t)) (normsq a0 add mul (matvec a0 add mul L d))).
Proof. exact gram_line. Qed.
Print Assumptions C03_quadratic.

(* ... and with a symmetric precision matrix P: q = -half (x-m)^T P (x-m), g = -P (x - m) *)
Theorem C03_quadratic_sym : forall (A : Type) (a0 a1 : A) (add mul sub : A -> A -> A) (opp : A -> A),
  ring_theory a0 a1 add mul sub opp (@eq A) -> forall hf : A, add hf hf = a1 ->
  forall (n : nat) (P : list (list A)) (m x d : list A) (t : A),
  wf_mat n P -> length P = n -> sym_form A a0 add mul n P -> length m = n -> length x = n -> length d = n ->
  gquad_logk A a0 add mul sub opp hf P m (vadd add x (vscale mul t d)) =
  sub (add (gquad_logk A a0 add mul sub opp hf P m x)
           (mul t (dot a0 add mul (gquad_grad A a0 add mul sub opp P m x) d)))
      (mul (mul hf (mul t t)) (dot a0 add mul d (matvec a0 add mul P d))).
Proof. exact gquad_line. Qed.
Print Assumptions C03_quadratic_sym.

(* the executable model's own Gaussian / GMRF definitions (the ones the generated cases evaluate) *)
Theorem C03_gaussian_model_line : forall (n : nat) (P : list (list Qc)) (m x d : list Qc) (t : Qc),
  wf_mat n P -> length P = n -> qsym_form n P -> length m = n -> length x = n -> length d = n ->
  quad_logk P m (qvadd x (qvscale t d)) =
  (quad_logk P m x + t * qdot (quad_grad P m x) d - half * (t * t) * qdot d (qmatvec P d))%Qc.
Proof. exact quad_model_line. Qed.
Print Assumptions C03_gaussian_model_line.

Theorem C03_gmrf_model_line : forall (n : nat) (delta : Qc) (Pop : list (list Qc)) (m x d : list Qc) (t : Qc),
  wf_mat n Pop -> length Pop = n -> qsym_form n Pop -> length m = n -> length x = n -> length d = n ->
  gmrf_logk delta Pop m (qvadd x (qvscale t d)) =
  (gmrf_logk delta Pop m x + t * qdot (gmrf_grad delta Pop m x) d - half * (t * t) * (delta * qdot d (qmatvec Pop d)))%Qc.
Proof. exact gmrf_model_line. Qed.
Print Assumptions C03_gmrf_model_line.

(* a symmetric matrix gives a symmetric bilinear form (any commutative ring, any size): the hypothesis sym_form of
   the quadratic theorems is discharged by the executable test `transpose P = P` that every generated case runs *)
Theorem C03_symmetric_matrix_form : forall (A : Type) (a0 a1 : A) (add mul sub : A -> A -> A) (opp : A -> A),
  ring_theory a0 a1 add mul sub opp (@eq A) ->
  forall (n : nat) (P : list (list A)), wf_mat n P -> length P = n -> transpose a0 n P = P -> sym_form A a0 add mul n P.
Proof. exact transpose_sym_form. Qed.
Print Assumptions C03_symmetric_matrix_form.

(* the model's Gaussian line identity under the hypotheses the cases check by computation (well-formed, square, symb) *)
Theorem C03_gaussian_model_line_exec : forall (n : nat) (P : list (list Qc)) (m x d : list Qc) (t : Qc),
  wf_matb n P = true -> length P = n -> symb n P = true -> length m = n -> length x = n -> length d = n ->
  quad_logk P m (qvadd x (qvscale t d)) =
  (quad_logk P m x + t * qdot (quad_grad P m x) d - half * (t * t) * qdot d (qmatvec P d))%Qc.
Proof. exact quad_model_line_exec. Qed.
Print Assumptions C03_gaussian_model_line_exec.

(* real derivatives along every direction, every dimension *)
Theorem C03_gaussian_prior : forall (n : nat) (P : list (list R)) (m x d : list R),
  wf_mat n P -> length P = n -> rsym_form n P -> length m = n -> length x = n -> length d = n ->
  is_derive (fun t => rquad_logk P m (rvadd x (rvscale t d))) 0%R (rdot (rquad_grad P m x) d).
Proof. exact quad_prior_derive. Qed.
Print Assumptions C03_gaussian_prior.

Theorem C03_gram_prior : forall (n : nat) (L : list (list R)) (m x d : list R),
  wf_mat n L -> length m = n -> length x = n -> length d = n ->
  is_derive (fun t => rgram_logk L m (rvadd x (rvscale t d))) 0%R (rdot (rgram_grad n L m x) d).
Proof. exact gram_prior_derive. Qed.
Print Assumptions C03_gram_prior.

(* ---------------------------------------------------------------------------------------------
   3. chain rules.  Cauchy difference prior through its difference matrix D (any D with n columns, any
      location): D^T phi'(D (x - loc)) is the gradient.  This is the REPAIRED formula (cmrf_grad true) ... *)
Theorem C03_chain_linear : forall (n : nat) (D : list (list R)) (loc x d : list R) (sc : R),
  wf_mat n D -> length x = n -> length d = n -> length (bcast n loc) = n -> sc <> 0%R ->
  is_derive (fun t => cmrf_logk D loc sc (rvadd x (rvscale t d))) 0%R (rdot (cmrf_grad true D loc sc x) d).
Proof. exact cmrf_directional_derive. Qed.
Print Assumptions C03_chain_linear.

(* ... the code as it is (cmrf_grad false: difference of `val`, location ignored) is that formula for
   location 0, hence the derivative exactly when the location does not matter ... *)
Theorem C03_cmrf_asis_is_location_zero : forall (D : list (list R)) (loc : list R) (sc : R) (x : list R),
  cmrf_grad false D loc sc x = cmrf_grad true D (0%R :: nil) sc x.
Proof. exact cmrf_unshifted_is_location_zero. Qed.
Print Assumptions C03_cmrf_asis_is_location_zero.

(* ... and is NOT the derivative in general (finding CMRF._gradient|location-ignored; D = (1), loc = 1) *)
Theorem C03_cmrf_location_refuted :
  exists (D : list (list R)) (loc x d : list R) (sc : R), wf_mat 1 D /\ sc <> 0%R /\
    ~ is_derive (fun t => cmrf_logk D loc sc (rvadd x (rvscale t d))) 0%R (rdot (cmrf_grad false D loc sc x) d).
Proof. exact cmrf_unshifted_refuted. Qed.
Print Assumptions C03_cmrf_location_refuted.

(* Gaussian likelihood, linear forward model B: B^T P (b - B theta) is the gradient in theta *)
Theorem C03_linear_likelihood : forall (n k : nat) (P B : list (list R)) (b th d : list R),
  wf_mat n B -> length B = k -> wf_mat k P -> length P = k -> rsym_form k P ->
  length b = k -> length th = n -> length d = n ->
  is_derive (fun t => rlin_loglik P B b (rvadd th (rvscale t d))) 0%R (rdot (rlin_grad n P B b th) d).
Proof. exact linear_likelihood_derive. Qed.
Print Assumptions C03_linear_likelihood.

(* Gaussian (and, with b = ln data, Lognormal) likelihood through ANY differentiable forward map: Fs are the
   components of t |-> F(theta + t d), Jd = J_F(theta) d their derivatives at 0, r = b - F the residual:
   d/dt [-1/2 r^T P r] = <P r(0), Jd>  ( = <J^T P r(0), d> = <model.gradient(P r, theta), d>, the transposed
   Jacobian being property C12's statement about Model.gradient) *)
Theorem C03_likelihood_chain : forall (k : nat) (P : list (list R)) (b : list R) (Fs : list (R -> R)) (Jd : list R),
  wf_mat k P -> length P = k -> rsym_form k P -> length b = k -> length Fs = k ->
  vderive Fs 0%R Jd ->
  is_derive (fun t => - (/ 2 * rdot (veval (resid b Fs) t) (rmatvec P (veval (resid b Fs) t))))%R 0%R
            (rdot (rmatvec P (veval (resid b Fs) 0%R)) Jd).
Proof. exact likelihood_chain_derive. Qed.
Print Assumptions C03_likelihood_chain.

(* the executable model's likelihood formulas (lik_logk / lik_grad: polynomial forward models F(u) = A (u.u) + B u,
   matrix / Jacobian / direction-Jacobian / PDE alike, through the elementwise quadratic geometry ga t^2 + gb t + gc)
   ARE the generic-ring definitions glik_logk / glik_grad at Qc ... *)
Theorem C03_likelihood_model_is_generic : forall A B ga gb gc P data th,
  lik_grad A B ga gb gc P data th = glik_grad Qc 0%Qc Qcplus Qcmult Qcminus C03_GradQ.two A B ga gb gc P data th /\
  lik_logk A B ga gb gc P data th = glik_logk Qc 0%Qc Qcplus Qcmult Qcminus Qcopp C03_GradQ.half A B ga gb gc P data th /\
  C03_GradQ.two = (1 + 1)%Qc /\ (C03_GradQ.half + C03_GradQ.half = 1)%Qc.
Proof.
  intros. split; [apply lik_grad_generic|]. split; [apply lik_logk_generic|]. split; [exact two_qc | exact half_qc].
Qed.
Print Assumptions C03_likelihood_model_is_generic.

(* ... and the same generic definitions at R satisfy the property: <lik_grad, d> is the derivative of the
   log-likelihood along every direction d -- all sizes, all A, B, geometry coefficients, symmetric P, data, theta *)
Theorem C03_likelihood_model_derive : forall (n k : nat) (A B P : list (list R)) (ga gb gc : R) (data th d : list R),
  wf_mat n A -> wf_mat n B -> length A = k -> length B = k ->
  wf_mat k P -> length P = k -> rsym_form k P ->
  length data = k -> length th = n -> length d = n ->
  is_derive (fun t => rlik_logk A B ga gb gc P data (rvadd th (rvscale t d))) 0%R
            (rdot (rlik_grad A B ga gb gc P data th) d).
Proof. exact lik_model_derive. Qed.
Print Assumptions C03_likelihood_model_derive.

(* ---------------------------------------------------------------------------------------------
   3b. the same real-valued statements with the symmetry hypothesis in the executable form the generated cases check
       (transpose P = P), the GMRF and the full-covariance Lognormal prior *)
Theorem C03_gaussian_prior_exec : forall (n : nat) (P : list (list R)) (m x d : list R),
  wf_mat n P -> length P = n -> rtranspose n P = P -> length m = n -> length x = n -> length d = n ->
  is_derive (fun t => rquad_logk P m (rvadd x (rvscale t d))) 0%R (rdot (rquad_grad P m x) d).
Proof. exact quad_prior_derive_T. Qed.
Print Assumptions C03_gaussian_prior_exec.

Theorem C03_linear_likelihood_exec : forall (n k : nat) (P B : list (list R)) (b th d : list R),
  wf_mat n B -> length B = k -> wf_mat k P -> length P = k -> rtranspose k P = P ->
  length b = k -> length th = n -> length d = n ->
  is_derive (fun t => rlin_loglik P B b (rvadd th (rvscale t d))) 0%R (rdot (rlin_grad n P B b th) d).
Proof. exact linear_likelihood_derive_T. Qed.
Print Assumptions C03_linear_likelihood_exec.

Theorem C03_likelihood_model_derive_exec : forall (n k : nat) (A B P : list (list R)) (ga gb gc : R) (data th d : list R),
  wf_mat n A -> wf_mat n B -> length A = k -> length B = k ->
  wf_mat k P -> length P = k -> rtranspose k P = P ->
  length data = k -> length th = n -> length d = n ->
  is_derive (fun t => rlik_logk A B ga gb gc P data (rvadd th (rvscale t d))) 0%R
            (rdot (rlik_grad A B ga gb gc P data th) d).
Proof. exact lik_model_derive_T. Qed.
Print Assumptions C03_likelihood_model_derive_exec.

(* GMRF: for the structure matrix P the log-density uses (any order, boundary condition, 1-d or 2-d grid: only its
   symmetry enters), -delta P (x - mean) is the gradient of -delta/2 (x - mean)^T P (x - mean) *)
Theorem C03_gmrf_prior : forall (n : nat) (delta : R) (P : list (list R)) (m x d : list R),
  wf_mat n P -> length P = n -> rtranspose n P = P -> length m = n -> length x = n -> length d = n ->
  is_derive (fun t => rgmrf_logk delta P m (rvadd x (rvscale t d))) 0%R (rdot (rgmrf_grad delta P m x) d).
Proof. exact gmrf_prior_derive. Qed.
Print Assumptions C03_gmrf_prior.

Theorem C03_gmrf_model_line_exec : forall (n : nat) (delta : Qc) (Pop : list (list Qc)) (m x d : list Qc) (t : Qc),
  wf_matb n Pop = true -> length Pop = n -> symb n Pop = true -> length m = n -> length x = n -> length d = n ->
  gmrf_logk delta Pop m (qvadd x (qvscale t d)) =
  (gmrf_logk delta Pop m x + t * qdot (gmrf_grad delta Pop m x) d - half * (t * t) * (delta * qdot d (qmatvec Pop d)))%Qc.
Proof. exact gmrf_model_line_exec. Qed.
Print Assumptions C03_gmrf_model_line_exec.

(* Lognormal prior with a full covariance: diag(1/x) (-1 - P (ln x - m)) is the gradient of
   -sum ln x_i - 1/2 (ln x - m)^T P (ln x - m) on the support x > 0, along every direction, every dimension *)
Theorem C03_lognormal_full : forall (n : nat) (P : list (list R)) (m x d : list R),
  wf_mat n P -> length P = n -> rtranspose n P = P -> length m = n -> length x = n -> length d = n ->
  List.Forall (fun a => (0 < a)%R) x ->
  is_derive (fun t => rlognormal_logk P m (rvadd x (rvscale t d))) 0%R (rdot (rlognormal_grad P m x) d).
Proof. exact lognormal_prior_derive. Qed.
Print Assumptions C03_lognormal_full.

(* ModifiedHalfNormal, dimension 1: the (N,1) column the code returns holds the gradient vector entry by entry; with
   C03_separable_partial each entry is the partial derivative *)
Theorem C03_mhn_column : forall (a b c xs : list R) (i : nat) (g : R),
  nth_error (fam_grad MHN a b c xs) i = Some g ->
  nth_error (map (fun g0 => g0 :: nil) (fam_grad MHN a b c xs)) i = Some (g :: nil).
Proof. intros a b c xs. exact (column_nth (fam_grad MHN a b c xs)). Qed.
Print Assumptions C03_mhn_column.

(* ---------------------------------------------------------------------------------------------
   3c. DistributionGallery (hand-derived closed forms of cuqi/distribution/_custom.py): each of the two entries the
       gradient function returns is the partial derivative of the log-density; constants are universally quantified *)
Theorem C03_gallery_calsom91 : forall sig delta x1 x2 : R, sig <> 0%R -> delta <> 0%R -> (0 < x1 ^ 2 + x2 ^ 2)%R ->
  is_derive (fun t => calsom_logd sig delta t x2) x1 (calsom_g1 sig delta x1 x2) /\
  is_derive (fun t => calsom_logd sig delta x1 t) x2 (calsom_g2 sig delta x1 x2).
Proof. intros. split; [apply calsom_derive1 | apply calsom_derive2]; assumption. Qed.
Print Assumptions C03_gallery_calsom91.

Theorem C03_gallery_donut : forall rd s2 x1 x2 : R, s2 <> 0%R -> (0 < x1 ^ 2 + x2 ^ 2)%R ->
  is_derive (fun t => donut_logd rd s2 t x2) x1 (donut_g1 rd s2 x1 x2) /\
  is_derive (fun t => donut_logd rd s2 x1 t) x2 (donut_g2 rd s2 x1 x2).
Proof. intros. split; [apply donut_derive1 | apply donut_derive2]; assumption. Qed.
Print Assumptions C03_gallery_donut.

Theorem C03_gallery_funnel : forall m0 m1 s1 x1 x2 : R, (0 < s1)%R ->
  is_derive (fun t => funnel_logd m0 m1 s1 t x2) x1 (funnel_g1 m0 m1 s1 x1 x2) /\
  is_derive (fun t => funnel_logd m0 m1 s1 x1 t) x2 (funnel_g2 m0 m1 s1 x1 x2).
Proof. intros. split; [apply funnel_derive1 | apply funnel_derive2; assumption]. Qed.
Print Assumptions C03_gallery_funnel.

Theorem C03_gallery_banana : forall p11 p12 p22 mu1 mu2 a b x1 x2 : R, a <> 0%R ->
  is_derive (fun t => banana_logd p11 p12 p22 mu1 mu2 a b t x2) x1 (banana_g1 p11 p12 p22 mu1 mu2 a b x1 x2) /\
  is_derive (fun t => banana_logd p11 p12 p22 mu1 mu2 a b x1 t) x2 (banana_g2 p11 p12 p22 mu1 mu2 a b x1 x2).
Proof. intros. split; [apply banana_derive1 | apply banana_derive2]; assumption. Qed.
Print Assumptions C03_gallery_banana.

Theorem C03_gallery_squiggle : forall p11 p12 p22 mu1 mu2 x1 x2 : R,
  is_derive (fun t => squiggle_logd p11 p12 p22 mu1 mu2 t x2) x1 (squiggle_g1 p11 p12 p22 mu1 mu2 x1 x2) /\
  is_derive (fun t => squiggle_logd p11 p12 p22 mu1 mu2 x1 t) x2 (squiggle_g2 p11 p12 p22 mu1 mu2 x1 x2).
Proof. intros. split; [apply squiggle_derive1 | apply squiggle_derive2]. Qed.
Print Assumptions C03_gallery_squiggle.

Theorem C03_gallery_mixture : forall (c1 c2 c3 : R * R * R) (x1 x2 : R), (0 < snd c1)%R -> (0 < snd c2)%R -> (0 < snd c3)%R ->
  is_derive (fun t => mixture_logd c1 c2 c3 t x2) x1 (mixture_g1 c1 c2 c3 x1 x2) /\
  is_derive (fun t => mixture_logd c1 c2 c3 x1 t) x2 (mixture_g2 c1 c2 c3 x1 x2).
Proof. intros. split; [apply mixture_derive1 | apply mixture_derive2]; assumption. Qed.
Print Assumptions C03_gallery_mixture.

(* ---------------------------------------------------------------------------------------------
   4. sum rule: Posterior (likelihood + prior) and multiple-likelihood posterior (any number of densities),
      including the folded additive constant *)
Theorem C03_sum_rule : forall (fs : list (R -> R)) (ls : list R) (c x : R),
  Forall2 (fun f l => is_derive f x l) fs ls -> is_derive (fun t => c + fsum fs t)%R x (rsum ls).
Proof. exact sum_rule. Qed.
Print Assumptions C03_sum_rule.

Theorem C03_posterior_directional : forall (flik fprior : R -> R) (glik gprior d : list R),
  length glik = length gprior ->
  is_derive flik 0%R (rdot glik d) -> is_derive fprior 0%R (rdot gprior d) ->
  is_derive (fun t => flik t + fprior t)%R 0%R (rdot (rvadd glik gprior) d).
Proof. exact posterior_directional. Qed.
Print Assumptions C03_posterior_directional.

(* ---------------------------------------------------------------------------------------------
   5. the forward-difference option: entry i is the difference quotient of the SAME log-density F, and it
      tends to the i-th partial derivative wherever that exists *)
Theorem C03_fd_is_difference_of_same_logd : forall (F : list R -> R) (xs : list R) (i : nat) (x0 l : R),
  nth_error xs i = Some x0 ->
  is_derive (fun t => F (upd i t xs)) x0 l ->
  forall tol : R, (0 < tol)%R -> exists delta : posreal, forall eps : R, eps <> 0%R -> (Rabs eps < delta)%R ->
    (Rabs ((F (bump i eps xs) - F xs) / eps - l) < tol)%R.
Proof. exact fd_converges. Qed.
Print Assumptions C03_fd_is_difference_of_same_logd.

(* ---------------------------------------------------------------------------------------------
   6. dispatch: which calls return a vector, which refuse, which return NaN (all 13 families x 3 geometry
      kinds x 3 kinds of location parameter x 2 call routes x conditional x FD switch x inside/outside support) *)
Theorem C03_dispatch_grad_sound : forall fx f g m r cond fd insupp,
  dispatch fx f g m r cond fd insupp = OGrad -> grad_ok f g m insupp = true.
Proof. exact dispatch_grad_sound. Qed.
Print Assumptions C03_dispatch_grad_sound.

Theorem C03_dispatch_outside_support : forall fx f g m r cond fd,
  bounded_support f = true -> is_vector (dispatch fx f g m r cond fd false) = false.
Proof. exact dispatch_outside_support. Qed.
Print Assumptions C03_dispatch_outside_support.

Theorem C03_dispatch_conditional : forall fx f g m r fd insupp,
  f <> DUserWithGrad -> is_vector (dispatch fx f g m r true fd insupp) = false.
Proof. exact dispatch_conditional. Qed.
Print Assumptions C03_dispatch_conditional.

Theorem C03_dispatch_fd_switch : forall fx f g cond insupp,
  overrides_gradient f = false -> cond = false -> (insupp = true \/ bounded_support f = false) ->
  dispatch fx f g MeanConst RDirect cond true insupp = OFD.
Proof. exact dispatch_fd_switch. Qed.
Print Assumptions C03_dispatch_fd_switch.

(* with the four `return None` sites repaired the dispatch is total over {vector, refusal, NaN} ... *)
Theorem C03_dispatch_total : forall f g m r cond fd insupp,
  dispatch all_fixed f g m r cond fd insupp <> ONone.
Proof. exact dispatch_total_repaired. Qed.
Print Assumptions C03_dispatch_total.

(* ... the code as it is returns None exactly inside this class (guard = its complement) ... *)
Theorem C03_dispatch_none_class : forall fx f g m r cond fd insupp,
  dispatch fx f g m r cond fd insupp = ONone -> none_class fx f m r = true.
Proof. exact dispatch_none_class. Qed.
Print Assumptions C03_dispatch_none_class.

(* ... which is inhabited (findings *|callable-*:returns-None) *)
Theorem C03_dispatch_none_refuted :
  exists f g m r cond fd insupp, dispatch none_fixed f g m r cond fd insupp = ONone.
Proof. exact dispatch_none_refuted. Qed.
Print Assumptions C03_dispatch_none_refuted.

(* Gaussian parameterisations: repaired, every form returns the vector; as it is, exactly cov / sqrtcov /
   matrix prec (and scalar prec in dimension 1) do, and a vector prec yields a dot product (a scalar) *)
Theorem C03_gaussian_forms_repaired : forall form p n, gauss_prior_kind true form p n = KGrad.
Proof. exact gauss_kind_repaired. Qed.
Print Assumptions C03_gaussian_forms_repaired.

Theorem C03_gaussian_forms_asis : forall form p n,
  gauss_prior_kind false form p n = KGrad <->
  (form = FCov \/ form = FSqrtCov \/
   (form = FPrec /\ ((exists M, p = PMatrix M) \/ ((exists a, p = PScalar a) /\ n = 1%nat)))).
Proof. exact gauss_kind_asis. Qed.
Print Assumptions C03_gaussian_forms_asis.

Theorem C03_gaussian_prec_vector_refuted :
  exists form p n, gauss_prior_kind false form p n = KScalarDot /\ (1 < n)%nat.
Proof. exact gauss_prec_vector_refuted. Qed.
Print Assumptions C03_gaussian_prec_vector_refuted.

(* ---------------------------------------------------------------------------------------------
   7. (third deepening round) Gram matrices: the symmetry hypotheses / tests of the GMRF and of the sqrtprec form are
      THEOREMS.  For ANY matrix D with n columns, over any commutative ring, with the model's own transpose / matmul:
      (D^T D) v = D^T (D v), D^T D induces a symmetric form, and transpose (D^T D) = D^T D as a matrix *)
Theorem C03_gram_matvec : forall (A : Type) (a0 a1 : A) (add mul sub : A -> A -> A) (opp : A -> A),
  ring_theory a0 a1 add mul sub opp (@eq A) ->
  forall (n : nat) (D : list (list A)) (v : list A), wf_mat n D -> length v = n ->
  matvec a0 add mul (matmul a0 add mul n (transpose a0 n D) D) v = mattvec a0 add mul n D (matvec a0 add mul D v).
Proof. exact gram_matvec. Qed.
Print Assumptions C03_gram_matvec.

Theorem C03_gram_symmetric : forall (A : Type) (a0 a1 : A) (add mul sub : A -> A -> A) (opp : A -> A),
  ring_theory a0 a1 add mul sub opp (@eq A) ->
  forall (n : nat) (D : list (list A)), wf_mat n D ->
  transpose a0 n (matmul a0 add mul n (transpose a0 n D) D) = matmul a0 add mul n (transpose a0 n D) D /\
  sym_form A a0 add mul n (matmul a0 add mul n (transpose a0 n D) D).
Proof. intros A a0 a1 add mul sub opp Rth n D HD. split; [exact (gram_transpose A a0 a1 add mul sub opp Rth n D HD) | exact (gram_sym_form A a0 a1 add mul sub opp Rth n D HD)]. Qed.
Print Assumptions C03_gram_symmetric.

(* the executable tests: `symb` of check_gmrf_grad and of check_gauss_prior (sqrtprec form) is implied by the Gram test *)
Theorem C03_gram_test_implies_symmetry_test : forall (n : nat) (D : list (list Qc)),
  wf_matb n D = true -> symb n (qmatmul n (qtranspose n D) D) = true.
Proof. exact gram_symb. Qed.
Print Assumptions C03_gram_test_implies_symmetry_test.

Theorem C03_sqrtprec_test_implies_symmetry_test : forall (n : nat) (p : gparam) (P : list (list Qc)),
  wf_matb n (as_matrix n p) = true -> implied_prec_ok n FSqrtPrec p P = true -> symb n P = true.
Proof. exact implied_prec_sqrtprec_symb. Qed.
Print Assumptions C03_sqrtprec_test_implies_symmetry_test.

(* GMRF, executable model: the line identity with NO symmetry hypothesis (any difference operator D: every order,
   boundary condition, 1-d / 2-d grid; Pop = D^T D is the test check_gmrf_grad runs on the matrices read from the object) *)
Theorem C03_gmrf_model_line_gram : forall (n : nat) (delta : Qc) (Pop D : list (list Qc)) (m x d : list Qc) (t : Qc),
  wf_matb n D = true -> qcll_eqb Pop (qmatmul n (qtranspose n D) D) = true ->
  length m = n -> length x = n -> length d = n ->
  gmrf_logk delta Pop m (qvadd x (qvscale t d)) =
  (gmrf_logk delta Pop m x + t * qdot (gmrf_grad delta Pop m x) d - half * (t * t) * (delta * qdot d (qmatvec Pop d)))%Qc.
Proof. exact gmrf_model_line_gram. Qed.
Print Assumptions C03_gmrf_model_line_gram.

(* ... and over R: -delta D^T D (x - mean) is the gradient, along every direction, for every D *)
Theorem C03_gmrf_prior_gram : forall (n : nat) (delta : R) (D : list (list R)) (m x d : list R),
  wf_mat n D -> length m = n -> length x = n -> length d = n ->
  is_derive (fun t => rgmrf_logk delta (rgram n D) m (rvadd x (rvscale t d))) 0%R (rdot (rgmrf_grad delta (rgram n D) m x) d).
Proof. exact gmrf_prior_gram_derive. Qed.
Print Assumptions C03_gmrf_prior_gram.

(* Gaussian._apply_prec (the repaired gradient path: sqrtprec.T @ (sqrtprec @ dev), precision never formed), executable
   model: for EVERY matrix sqrtprec with n columns (k x n; not symmetric, not triangular, singular allowed) the vector it
   yields satisfies the line identity of the log-kernel -1/2 |sqrtprec (x - m)|^2 -- no hypothesis beyond the shapes ... *)
Theorem C03_sqrtprec_model_line : forall (n : nat) (S : list (list Qc)) (m x d : list Qc) (t : Qc),
  wf_matb n S = true -> length m = n -> length x = n -> length d = n ->
  sqrtprec_logk S m (qvadd x (qvscale t d)) =
  (sqrtprec_logk S m x + t * qdot (sqrtprec_grad n S m x) d - half * (t * t) * qnormsq (qmatvec S d))%Qc.
Proof. exact sqrtprec_model_line. Qed.
Print Assumptions C03_sqrtprec_model_line.

(* ... it is the gradient formula / log-kernel of the precision matrix S^T S the parameterisation stands for ... *)
Theorem C03_sqrtprec_is_gram_precision : forall (n : nat) (S : list (list Qc)) (m x : list Qc),
  wf_mat n S -> length m = n -> length x = n ->
  sqrtprec_grad n S m x = quad_grad (qmatmul n (qtranspose n S) S) m x /\
  sqrtprec_logk S m x = quad_logk (qmatmul n (qtranspose n S) S) m x.
Proof. exact sqrtprec_grad_is_quad. Qed.
Print Assumptions C03_sqrtprec_is_gram_precision.

(* ... and over R, with the precision written out as the matrix S^T S: the gradient along every direction *)
Theorem C03_gaussian_sqrtprec_prior : forall (n : nat) (S : list (list R)) (m x d : list R),
  wf_mat n S -> length m = n -> length x = n -> length d = n ->
  is_derive (fun t => rquad_logk (rgram n S) m (rvadd x (rvscale t d))) 0%R (rdot (rquad_grad (rgram n S) m x) d).
Proof. exact gaussian_sqrtprec_derive. Qed.
Print Assumptions C03_gaussian_sqrtprec_prior.

(* ---------------------------------------------------------------------------------------------
   8. (third deepening round) the NaN clause on the separable families.  sep_guard (Model/C03_Support.v) is the test the
      gradient method runs on (parameters, point); it decides EXACTLY `guarded` on every coordinate ... *)
Theorem C03_support_guard_exact : forall (f : dfamily) (a b c xs : list Q),
  sep_guard f a b c xs = true <-> Forall2 (guarded f) (map parR (qparams (length xs) a b c)) (map Q2R xs).
Proof. exact sep_guard_spec. Qed.
Print Assumptions C03_support_guard_exact.

(* ... a finite vector is handed back ONLY where it is the derivative: if the tests let the formula through, <formula, d>
   is the derivative of the log-kernel along every direction (families whose test is the support of the derivative
   theorem: Cauchy, Beta, InverseGamma, ModifiedHalfNormal, diagonal Lognormal) ... *)
Theorem C03_vector_only_where_derivative : forall (f : dfamily) (a b c xs : list Q) (ds : list R),
  strict_family f = true -> sep_kind f a b c xs = SVec -> length ds = length xs ->
  is_derive (fun t => fam_logk f (map Q2R a) (map Q2R b) (map Q2R c) (rvadd (map Q2R xs) (rvscale t ds))) 0%R
            (rdot (fam_grad f (map Q2R a) (map Q2R b) (map Q2R c) (map Q2R xs)) ds).
Proof. exact guard_pass_gradient_is_derivative. Qed.
Print Assumptions C03_vector_only_where_derivative.

(* ... for SmoothedLaplace (its smoothing constant beta > 0 is NOT tested by the code: hypothesis) and Uniform (the test
   is the closed box, the derivative theorem holds in its interior) the same with the missing part as hypothesis ... *)
Theorem C03_vector_only_on_support_general : forall (f : dfamily) (a b c xs : list Q),
  sep_kind f a b c xs = SVec ->
  (f = SmoothedLaplace -> List.Forall (fun p : par => (0 < snd p)%R) (map parR (qparams (length xs) a b c))) ->
  (f = Uniform -> Forall2 (fun (p : par) (x : R) => fst (fst p) <> x /\ x <> snd (fst p)) (map parR (qparams (length xs) a b c)) (map Q2R xs)) ->
  Forall2 (supp f) (params (length (map Q2R xs)) (map Q2R a) (map Q2R b) (map Q2R c)) (map Q2R xs).
Proof. exact guard_pass_supp_general. Qed.
Print Assumptions C03_vector_only_on_support_general.

(* ... and ONE coordinate outside the support (or one non-positive parameter the family tests) makes the answer NaN *)
Theorem C03_outside_support_nan : forall (f : dfamily) (a b c xs : list Q) (i : nat) (p : qpar) (x : Q),
  nth_error (qparams (length xs) a b c) i = Some p -> nth_error xs i = Some x ->
  ~ guarded f (parR p) (Q2R x) -> sep_kind f a b c xs = SNaN.
Proof. exact one_bad_coordinate_is_nan. Qed.
Print Assumptions C03_outside_support_nan.

Example C03_example_round3 :
  wf_matb 2 [[qcz 1; qcz 2]; [qcz 0; qcz 3]; [qcz 1; qcz 1]] = true /\
  sep_kind Beta ((3 # 2)%Q :: nil) ((2 # 1)%Q :: nil) (0%Q :: nil) ((1 # 4)%Q :: (1 # 2)%Q :: nil) = SVec /\
  sep_kind Beta ((3 # 2)%Q :: nil) ((2 # 1)%Q :: nil) (0%Q :: nil) ((1 # 4)%Q :: (1 # 1)%Q :: nil) = SNaN /\ strict_family Beta = true.
Proof. repeat split; reflexivity. Qed.

(* ---------------------------------------------------------------------------------------------
   9. (third deepening round) composites.  The model of Posterior / MultipleLikelihoodPosterior gradient lets a finite
      vector through only if every factor produced one (then it is their sum) and the guard passed ... *)
Theorem C03_sum_vector_only_from_vectors : forall guard parts t, check_sum_obs guard parts (ObsVec t) = true ->
  guard = true /\ exists gs, all_vecs parts = Some gs /\ length gs = length parts /\ check_sum gs t = true.
Proof. exact sum_obs_vector. Qed.
Print Assumptions C03_sum_vector_only_from_vectors.

(* ... one factor outside its support (nobody refusing) makes the composite's answer NaN: the NaN clause on composites ... *)
Theorem C03_sum_nan_propagates : forall parts total, check_sum_obs true parts total = true ->
  forallb is_vec_or_nan parts = true -> existsb is_nan_obs parts = true -> total = ObsNaN.
Proof. exact sum_obs_nan. Qed.
Print Assumptions C03_sum_nan_propagates.

(* ... and a refusing factor or a failing guard makes it a refusal *)
Theorem C03_sum_refusal_propagates : forall guard parts total, check_sum_obs guard parts total = true ->
  guard = false \/ forallb is_vec_or_nan parts = false -> total = ObsRaised.
Proof. exact sum_obs_refusal. Qed.
Print Assumptions C03_sum_refusal_propagates.

(* the directional sum rule for ANY number of densities (multiple-likelihood posterior), with the folded constant *)
Theorem C03_mlp_directional : forall (n : nat) (fs : list (R -> R)) (gs : list (list R)) (d : list R) (c : R),
  List.Forall (fun g : list R => length g = n) gs ->
  Forall2 (fun f g => is_derive f 0%R (rdot g d)) fs gs ->
  is_derive (fun t => c + fsum fs t)%R 0%R (rdot (rvsum n gs) d).
Proof. exact mlp_directional. Qed.
Print Assumptions C03_mlp_directional.

(* the dispatch model fed with the decision of the support tests agrees with the support model (bounded families) *)
Theorem C03_dispatch_support_tie : forall fx f df r (a b c xs : list Q),
  dfam_of f = Some df -> bounded_support df = true ->
  dispatch fx df GeoIdentity MeanConst r false false (sep_guard f a b c xs) =
  match sep_kind f a b c xs with SVec => OGrad | SNaN => ONaN end.
Proof. exact dispatch_support_tie. Qed.
Print Assumptions C03_dispatch_support_tie.

(* ---------------------------------------------------------------------------------------------
   10. (third deepening round) THE CHAIN RULE IN GENERAL: any forward map F and any geometry map g differentiable along
       curves (curve_diff), any functions DFt / Dgt adjoint to their derivative actions (what model._gradient_func and
       geometry.gradient have to be; for the model: C12's statement).  The vector the code assembles,
       geometry.gradient(model._gradient_func(P (data - F(g theta)), g theta), theta) = Dgt (DFt (P r)), is the gradient of
       the Gaussian (Lognormal: data := ln data) log-likelihood -1/2 |data - F(g(theta))|_P^2, every direction, all sizes *)
Theorem C03_likelihood_chain_general : forall (n m k : nat) (F g DF DFt Dg Dgt : list R -> list R)
        (P : list (list R)) (data th d : list R),
  wf_mat k P -> length P = k -> rtranspose k P = P -> length data = k -> length th = n -> length d = n ->
  curve_diff m g th Dg -> curve_diff k F (g th) DF ->
  adjoint_pair n m Dg Dgt -> adjoint_pair m k DF DFt ->
  is_derive (fun t => let r := rvsub data (F (g (rvadd th (rvscale t d)))) in - (/ 2 * rdot r (rmatvec P r)))%R 0%R
            (rdot (Dgt (DFt (rmatvec P (rvsub data (F (g th)))))) d).
Proof. exact likelihood_chain_general. Qed.
Print Assumptions C03_likelihood_chain_general.

(* its hypotheses are theorems for the maps that occur: matrices (linear models, function + adjoint), elementwise maps
   with their own derivative (mapped geometries; phi = identity: the default geometries), the polynomial family *)
Theorem C03_chain_instances :
  (forall (B : list (list R)) u0, curve_diff (length B) (rmatvec B) u0 (rmatvec B)) /\
  (forall n (B : list (list R)), wf_mat n B -> adjoint_pair n (length B) (rmatvec B) (rmattvec n B)) /\
  (forall (phi phi' : R -> R) u0, List.Forall (fun a => is_derive phi a (phi' a)) u0 ->
     curve_diff (length u0) (emap phi) u0 (emap_d phi' u0) /\ adjoint_pair (length u0) (length u0) (emap_d phi' u0) (emap_d phi' u0)) /\
  (forall n (A B : list (list R)) u0, wf_mat n A -> wf_mat n B -> length A = length B -> length u0 = n ->
     curve_diff (length A) (rfwd A B) u0 (rfwd_d A B u0) /\ adjoint_pair n (length A) (rfwd_d A B u0) (rjact n A B u0)).
Proof.
  split; [exact curve_diff_matrix|]. split; [exact adjoint_matrix|]. split.
  - intros phi phi' u0 H. split; [apply curve_diff_emap; exact H | apply adjoint_emap].
  - intros n A B u0 HA HB HAB Hu. split; [apply curve_diff_poly; exact HAB | apply adjoint_poly; assumption].
Qed.
Print Assumptions C03_chain_instances.

(* the model's own polynomial-family / quadratic-geometry formulas (rlik_logk / rlik_grad = the generic form of the Qc model,
   C03_likelihood_model_is_generic) recovered as an INSTANCE of the general theorem: its hypotheses are satisfiable *)
Theorem C03_likelihood_model_from_general : forall (n k : nat) (A B P : list (list R)) (ga gb gc : R) (data th d : list R),
  wf_mat n A -> wf_mat n B -> length A = k -> length B = k ->
  wf_mat k P -> length P = k -> rtranspose k P = P ->
  length data = k -> length th = n -> length d = n ->
  is_derive (fun t => rlik_logk A B ga gb gc P data (rvadd th (rvscale t d))) 0%R
            (rdot (rlik_grad A B ga gb gc P data th) d).
Proof. exact lik_model_derive_general. Qed.
Print Assumptions C03_likelihood_model_from_general.

(* transcendental elementwise geometries with their own derivative (exp, sin) in front of the polynomial family: the
   real-valued model Model/C03_ChainR.v that the lik-tgeo cells evaluate by `interval` *)
Theorem C03_transcendental_geometry_likelihood : forall (m : tmap) (n k : nat) (A B P : list (list R)) (data th d : list R),
  wf_mat n A -> wf_mat n B -> length A = k -> length B = k ->
  wf_mat k P -> length P = k -> rtranspose k P = P ->
  length data = k -> length th = n -> length d = n ->
  is_derive (fun t => tlik_logk m A B P data (rvadd th (rvscale t d))) 0%R (rdot (tlik_grad m A B P data th) d).
Proof. exact tlik_derive. Qed.
Print Assumptions C03_transcendental_geometry_likelihood.

(* ---------------------------------------------------------------------------------------------
   11. (third deepening round) EVERY Gaussian parameterisation x parameter kind: the symmetry hypothesis on the certificate
       P (the implied precision matrix) is replaced by the test relating P to the parameter (implied_prec_ok, run by every
       case) and the natural precondition on the PARAMETER (param_symb: a covariance / precision matrix is symmetric; a
       square root may be any matrix) -- a right inverse of a form-symmetric matrix is form-symmetric *)
Theorem C03_gaussian_certificate_symmetric : forall n form p (P : list (list Qc)),
  wf_matb n (as_matrix n p) = true -> length (as_matrix n p) = n -> wf_matb n P = true -> length P = n ->
  implied_prec_ok n form p P = true -> param_symb n form p = true -> qsym_form n P.
Proof. exact implied_prec_sym_form. Qed.
Print Assumptions C03_gaussian_certificate_symmetric.

Theorem C03_gaussian_model_line_all_forms : forall n form p (P : list (list Qc)) (m x d : list Qc) (t : Qc),
  wf_matb n (as_matrix n p) = true -> length (as_matrix n p) = n -> wf_matb n P = true -> length P = n ->
  implied_prec_ok n form p P = true -> param_symb n form p = true ->
  length m = n -> length x = n -> length d = n ->
  quad_logk P m (qvadd x (qvscale t d)) =
  (quad_logk P m x + t * qdot (quad_grad P m x) d - half * (t * t) * qdot d (qmatvec P d))%Qc.
Proof. exact quad_model_line_all_forms. Qed.
Print Assumptions C03_gaussian_model_line_all_forms.

(* ---------------------------------------------------------------------------------------------
   12. (third deepening round) links that were held by correspondence only.  The executable full-covariance Lognormal
       model (ln x supplied as the certificate lx) and the real-valued definitions of C03_lognormal_full are ONE
       generic-ring definition ... *)
Theorem C03_lognormal_model_is_generic : forall (P : list (list Qc)) (m x lx : list Qc) (Pr : list (list R)) (mr xr : list R),
  (lognormal_grad P m x lx = glognormal_grad Qc 0%Qc Qcplus Qcmult Qcminus Qcopp Qcinv 1%Qc P m x lx /\
   lognormal_logk P m lx = glognormal_logk Qc 0%Qc Qcplus Qcmult Qcminus Qcopp C03_GradQ.half P m lx) /\
  (rlognormal_grad Pr mr xr = glognormal_grad R 0%R Rplus Rmult Rminus Ropp Rinv 1%R Pr mr xr (map ln xr) /\
   rlognormal_logk Pr mr xr = glognormal_logk R 0%R Rplus Rmult Rminus Ropp (/ 2)%R Pr mr (map ln xr)).
Proof. intros. split; [apply lognormal_model_is_generic | apply lognormal_real_is_generic]. Qed.
Print Assumptions C03_lognormal_model_is_generic.

(* ... and the rational forward-difference quotient the FD cases evaluate is fd_coord of the real-valued FD theorem *)
Theorem C03_fd_model_is_fd_coord : forall (F : list R -> R) (xs : list R) (eps f0 fi : Q) (i : nat),
  ~ (eps == 0)%Q -> Q2R f0 = F xs -> Q2R fi = F (bump i (Q2R eps) xs) ->
  Q2R (fd_quot eps f0 fi) = fd_coord F xs (Q2R eps) i.
Proof. exact fd_quot_is_fd_coord. Qed.
Print Assumptions C03_fd_model_is_fd_coord.

(* non-vacuity: the Cauchy hypotheses hold at loc = 1/2, scale = 2, x = 3/4, and a symmetric form exists *)
Example C03_example :
  supp Cauchy (1 / 2, 2, 0)%R (3 / 4)%R /\ rsym_form 1 ((1%R :: nil) :: nil) /\
  dispatch all_fixed DCauchy GeoIdentity MeanConst RDirect false false true = OGrad.
Proof.
  split; [cbn; apply Rlt_0_2|]. split; [|reflexivity].
  intros u v Hu Hv. destruct u as [|a [|? ?]]; try discriminate Hu. destruct v as [|b [|? ?]]; try discriminate Hv.
  cbn. ring.
Qed.

(* non-vacuity of the executable hypotheses: a 2 x 2 symmetric matrix passes wf_matb / symb and the transposition test *)
Example C03_example_exec :
  wf_matb 2 [[qcz 2; qcz 1]; [qcz 1; qcz 3]] = true /\ symb 2 [[qcz 2; qcz 1]; [qcz 1; qcz 3]] = true /\
  rtranspose 2 ((2 :: 1 :: nil) :: (1 :: 3 :: nil) :: nil)%R = ((2 :: 1 :: nil) :: (1 :: 3 :: nil) :: nil)%R.
Proof. split; [reflexivity|]. split; reflexivity. Qed.

(* non-vacuity of the all-forms theorem: a NON-symmetric sqrtcov M = [[2,1],[0,1]] (cov = M M^T = [[5,1],[1,1]]) and its
   certificate P = cov^-1 pass the tests *)
Example C03_example_all_forms :
  implied_prec_ok 2 FSqrtCov (PMatrix [[qcz 2; qcz 1]; [qcz 0; qcz 1]]) [[qc (1 # 4); qc (-1 # 4)]; [qc (-1 # 4); qc (5 # 4)]] = true /\
  param_symb 2 FSqrtCov (PMatrix [[qcz 2; qcz 1]; [qcz 0; qcz 1]]) = true /\
  wf_matb 2 [[qc (1 # 4); qc (-1 # 4)]; [qc (-1 # 4); qc (5 # 4)]] = true.
Proof. repeat split; reflexivity. Qed.
