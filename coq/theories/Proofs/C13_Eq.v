(* C13 -- Geometry.__eq__: with array_equal (the repair) equal geometries have identical attribute values, in
   particular grids of the same length; with array_equiv (today) they need not (broadcasting); equality of two
   dictionaries that differ only in a lazily filled cache attribute fails. *)
From CV Require Import Base.Tac Base.Cmp Base.QcLin Model.C13_Eq.
From Coq Require Import QArith Qcanon.

Lemma qcl_eqb_eq x y : qcl_eqb x y = true <-> x = y.
Proof. apply list_eqb_spec. apply qc_eqb_eq. Qed.

Lemma sval_eqv_strict_iff a b : sval_eqv true a b = true <-> a = b.
Proof.
  destruct a as [|x|l1|n], b as [|y|l2|m]; cbn [sval_eqv]; split; intros H; try discriminate; try reflexivity; try (inversion H; fail).
  - apply qc_eqb_eq in H. congruence.
  - inversion H. apply qc_eqb_eq. reflexivity.
  - destruct (length l1 =? length l2)%nat; [|discriminate]. apply qcl_eqb_eq in H. congruence.
  - inversion H; subst. rewrite Nat.eqb_refl. apply qcl_eqb_eq. reflexivity.
  - apply Nat.eqb_eq in H. congruence.
  - inversion H. apply Nat.eqb_refl.
Qed.

Lemma svals_eqv_strict_iff x : forall y, svals_eqv true x y = true <-> x = y.
Proof.
  induction x as [|a x IH]; intros [|b y]; cbn [svals_eqv]; split; intros H; try discriminate; try reflexivity.
  - apply andb_true_iff in H as [H1 H2]. apply sval_eqv_strict_iff in H1. apply IH in H2. congruence.
  - inversion H; subst. apply andb_true_iff. split; [apply sval_eqv_strict_iff | apply IH]; reflexivity.
Qed.

Lemma sval_eqv_refl strict a : sval_eqv strict a a = true.
Proof.
  destruct a as [|x|l|n]; cbn [sval_eqv]; try reflexivity.
  - apply qc_eqb_eq. reflexivity.
  - rewrite Nat.eqb_refl. apply qcl_eqb_eq. reflexivity.
  - apply Nat.eqb_refl.
Qed.

Lemma svals_eqv_refl strict x : svals_eqv strict x x = true.
Proof. induction x as [|a x IH]; [reflexivity|]. cbn [svals_eqv]. rewrite sval_eqv_refl, IH. reflexivity. Qed.

Lemma pval_eqv_refl strict v : pval_eqv strict v v = true.
Proof. destruct v; cbn [pval_eqv]; [apply sval_eqv_refl | apply svals_eqv_refl]. Qed.

(* repaired comparison: values of the same kind that compare equal ARE equal (same length, same entries) *)
Theorem pval_eqv_strict_same_kind :
  (forall s t, pval_eqv true (PS s) (PS t) = true <-> s = t) /\
  (forall x y, pval_eqv true (PTuple x) (PTuple y) = true <-> x = y).
Proof. split; intros; cbn [pval_eqv]; [apply sval_eqv_strict_iff | apply svals_eqv_strict_iff]. Qed.

Theorem all_values_equal_sound strict self obj : all_values_equal strict self obj = true ->
  forall k v, In (k, v) self -> exists w, lookup k obj = Some w /\ pval_eqv strict v w = true.
Proof.
  unfold all_values_equal. intros H k v Hin. rewrite forallb_forall in H. specialize (H (k, v) Hin). cbn [fst snd] in H.
  destruct (lookup k obj) as [w|]; [|discriminate]. exists w. split; [reflexivity | exact H].
Qed.

(* in particular: a 1-d array attribute (a grid) of two equal geometries has the same length and entries *)
Theorem geom_eq_strict_grids isinst self obj k l : geom_eq true isinst self obj = true -> In (k, PS (SArr l)) self ->
  forall l', lookup k obj = Some (PS (SArr l')) -> l' = l.
Proof.
  unfold geom_eq. intros H Hin l' Hl. apply andb_true_iff in H as [_ H].
  destruct (all_values_equal_sound true self obj H k _ Hin) as [w [Hw E]]. rewrite Hl in Hw. inversion Hw; subst w.
  apply (proj1 pval_eqv_strict_same_kind) in E. inversion E. reflexivity.
Qed.

Lemma lookup_In k v d : NoDup (map fst d) -> In (k, v) d -> lookup k d = Some v.
Proof.
  induction d as [|[k' v'] d IH]; intros Hnd Hin; [contradiction|]. cbn [lookup]. cbn [map fst] in Hnd. inversion Hnd as [|? ? Hni Hnd']; subst.
  destruct Hin as [E|Hin].
  - inversion E; subst. rewrite Nat.eqb_refl. reflexivity.
  - destruct (k =? k')%nat eqn:Ek; [|apply IH; assumption].
    apply Nat.eqb_eq in Ek. subst k'. exfalso. apply Hni. apply in_map_iff. exists (k, v). split; [reflexivity | exact Hin].
Qed.

(* every geometry equals itself (both comparisons), attribute names being distinct *)
Theorem geom_eq_refl strict d : NoDup (map fst d) -> geom_eq strict true d d = true.
Proof.
  intros Hnd. unfold geom_eq, all_values_equal. cbn [andb]. apply forallb_forall. intros [k v] Hin. cbn [fst snd].
  rewrite (lookup_In k v d Hnd Hin). apply pval_eqv_refl.
Qed.

(* today's comparison (array_equiv): a one-node grid "equals" a three-node grid *)
Theorem geom_eq_broadcast_refuted : exists self obj l l', In (0%nat, PS (SArr l)) self /\ lookup 0%nat obj = Some (PS (SArr l')) /\
  length l <> length l' /\ geom_eq false true self obj = true /\ geom_eq true true self obj = false.
Proof.
  exists [(0%nat, PS (SArr [qc (2 # 1)]))], [(0%nat, PS (SArr [qc (2 # 1); qc (2 # 1); qc (2 # 1)]))], [qc (2 # 1)], [qc (2 # 1); qc (2 # 1); qc (2 # 1)].
  split; [left; reflexivity|]. split; [reflexivity|]. split; [cbn; lia|]. split; vm_compute; reflexivity.
Qed.

(* a lazily filled cache attribute (None in one object, computed in the other) makes otherwise identical objects unequal *)
Theorem geom_eq_cache_refuted : exists d c, NoDup (map fst ((7%nat, PS SNone) :: d)) /\
  geom_eq true true ((7%nat, PS SNone) :: d) ((7%nat, PS (SArr c)) :: d) = false /\
  geom_eq false true ((7%nat, PS (SArr c)) :: d) ((7%nat, PS SNone) :: d) = false.
Proof.
  exists [(1%nat, PS (SNum (qc (2 # 1))))], [qc (1 # 1); qc (1 # 4)]. split; [repeat constructor; cbn; intuition lia|]. split; vm_compute; reflexivity.
Qed.
