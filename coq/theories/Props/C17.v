(* C17 -- Shipped test problems match their documentation and are internally consistent.
   Property theorems only: each is closed by `exact <lemma>` (or a vm_compute witness for `_refuted`)
   and followed by Print Assumptions.  Models: Model/C17_TP.v (Z / Qc), Model/C17_TPR.v (R). *)
From CV Require Import Base.Tac Base.LinAlg Base.Cmp Base.QcLin Model.C17_TP Model.C17_TPR
     Proofs.C17_Assembly Proofs.C17_Legacy Proofs.C17_Circ Proofs.C17_Conv2D Proofs.C17_Misc Proofs.C17_CubicStd.
From Coq Require Import QArith Qcanon Reals.

(* ---- matrix assembly: a matrix whose COLUMNS are the images f(e_i) of the unit vectors represents the linear map f
        (any commutative ring, any sizes n -> m) *)
Theorem C17_assembly : forall (R : Type) (r0 r1 : R) (radd rmul rsub : R -> R -> R) (ropp : R -> R),
  ring_theory r0 r1 radd rmul rsub ropp (@eq R) ->
  forall (n m : nat) (f : list R -> list R) (x : list R),
  additive R radd n f -> homogeneous R rmul n f -> maps_to R n m f -> length x = n ->
  matvec r0 radd rmul (transpose r0 m (assemble_rows r0 r1 f n)) x = f x.
  (* assemble_cols r0 r1 f n is by definition transpose r0 n (assemble_rows r0 r1 f n): the case m = n *)
Proof. exact assembly_cols. Qed.
Print Assumptions C17_assembly.

(* ---- Deconvolution1D with the repaired assembly: model matrix . x = the documented convolution of x with the PSF,
        for every boundary condition, every PSF (any length, either parity, longer than the signal) and every dim *)
Theorem C17_deconv1_fixed_is_convolution : forall (R : Type) (r0 r1 : R) (radd rmul rsub : R -> R -> R) (ropp : R -> R),
  ring_theory r0 r1 radd rmul rsub ropp (@eq R) ->
  forall (m : bc) (P : list R) (n : nat) (x : list R), length x = n ->
  matvec r0 radd rmul (deconv1_matrix r0 r1 radd rmul true m P n) x = conv1d r0 radd rmul m P x.
Proof. exact deconv1_fixed_is_convolution. Qed.
Print Assumptions C17_deconv1_fixed_is_convolution.

(* ---- Deconvolution1D as coded (rows = images of the unit vectors): the property holds EXACTLY on the class of
        operators whose matrix is symmetric (guard = exact complement of the refuted class) *)
Theorem C17_deconv1_coded_iff_symmetric : forall (R : Type) (r0 r1 : R) (radd rmul rsub : R -> R -> R) (ropp : R -> R),
  ring_theory r0 r1 radd rmul rsub ropp (@eq R) ->
  forall (m : bc) (P : list R) (n : nat),
  (forall x, length x = n -> matvec r0 radd rmul (deconv1_matrix r0 r1 radd rmul false m P n) x = conv1d r0 radd rmul m P x)
  <-> transpose r0 n (deconv1_matrix r0 r1 radd rmul false m P n) = deconv1_matrix r0 r1 radd rmul false m P n.
Proof. exact deconv1_coded_iff_symmetric. Qed.
Print Assumptions C17_deconv1_coded_iff_symmetric.

(* what the coded matrix is instead: the adjoint (correlation with the PSF) *)
Theorem C17_deconv1_coded_is_adjoint : forall (R : Type) (r0 r1 : R) (radd rmul rsub : R -> R -> R) (ropp : R -> R),
  ring_theory r0 r1 radd rmul rsub ropp (@eq R) ->
  forall (m : bc) (P : list R) (n : nat) (x y : list R), length x = n -> length y = n ->
  dot r0 radd rmul (matvec r0 radd rmul (deconv1_matrix r0 r1 radd rmul false m P n) x) y
  = dot r0 radd rmul x (conv1d r0 radd rmul m P y).
Proof. exact deconv1_coded_is_adjoint. Qed.
Print Assumptions C17_deconv1_coded_is_adjoint.

(* finding (known_findings.tsv: Deconvolution1D.forward|transposed-operator): witnesses inside the excluded class --
   an asymmetric PSF with zero BC, an even PSF with periodic BC, and a SYMMETRIC PSF with mirror BC *)
Theorem C17_deconv1_coded_refuted :
  (exists x, zmatvec (zdeconv1_matrix false BCzero [1;2;3]%Z 5) x <> zconv1d BCzero [1;2;3]%Z x /\ length x = 5%nat) /\
  (exists x, zmatvec (zdeconv1_matrix false BCwrap [1;2]%Z 4) x <> zconv1d BCwrap [1;2]%Z x /\ length x = 4%nat) /\
  (exists x, zmatvec (zdeconv1_matrix false BCmirror [1;2;1]%Z 4) x <> zconv1d BCmirror [1;2;1]%Z x /\ length x = 4%nat).
Proof.
  split; [|split].
  - exists [1;0;0;0;0]%Z. split; [vm_compute; intro H; discriminate H | reflexivity].
  - exists [1;0;0;0]%Z. split; [vm_compute; intro H; discriminate H | reflexivity].
  - exists [1;0;0;0]%Z. split; [vm_compute; intro H; discriminate H | reflexivity].
Qed.
Print Assumptions C17_deconv1_coded_refuted.

(* ---- legacy circulant: for every even dim and PSF of that length, A[i][j] = PSF[(j - i + dim/2) mod dim] *)
Theorem C17_legacy_circulant : forall (R : Type) (r0 : R) (dim : nat) (PSF : list R),
  Nat.even dim = true -> length PSF = dim ->
  exists A, legacy_matrix r0 dim PSF = Some A /\ length A = dim /\
  forall i j, (i < dim)%nat -> (j < dim)%nat ->
    nth j (nth i A []) r0 = nth ((j + dim - i + dim / 2) mod dim) PSF r0.
Proof. exact legacy_entry. Qed.
Print Assumptions C17_legacy_circulant.

Theorem C17_legacy_refused : forall (R : Type) (r0 : R) (dim : nat) (PSF : list R),
  legacy_matrix r0 dim PSF = None <-> (Nat.odd dim = true \/ length PSF <> dim).
Proof. exact legacy_refused. Qed.
Print Assumptions C17_legacy_refused.

(* ... which is the TRANSPOSE of the documented periodic convolution with that PSF: A[i][j] = (PSF * e_i)[j] *)
Theorem C17_legacy_is_transposed_convolution : forall (R : Type) (r0 r1 : R) (radd rmul rsub : R -> R -> R) (ropp : R -> R),
  ring_theory r0 r1 radd rmul rsub ropp (@eq R) ->
  forall (dim : nat) (PSF : list R), Nat.even dim = true -> length PSF = dim ->
  exists A, legacy_matrix r0 dim PSF = Some A /\
  forall i j, (i < dim)%nat -> (j < dim)%nat ->
    nth j (nth i A []) r0 = conv1d_at r0 radd rmul BCwrap PSF (unit_vec r0 r1 dim i) j.
Proof. exact legacy_is_transposed_convolution. Qed.
Print Assumptions C17_legacy_is_transposed_convolution.

(* guarded: a PSF symmetric about its centre index dim/2 (all built-in legacy PSFs) gives the documented operator *)
Theorem C17_legacy_correct_if_symmetric : forall (R : Type) (r0 r1 : R) (radd rmul rsub : R -> R -> R) (ropp : R -> R),
  ring_theory r0 r1 radd rmul rsub ropp (@eq R) ->
  forall (dim : nat) (PSF : list R), Nat.even dim = true -> length PSF = dim -> psf_symmetric R r0 dim PSF ->
  exists A, legacy_matrix r0 dim PSF = Some A /\
  forall i j, (i < dim)%nat -> (j < dim)%nat ->
    nth j (nth i A []) r0 = conv1d_at r0 radd rmul BCwrap PSF (unit_vec r0 r1 dim j) i.
Proof. exact legacy_correct_if_symmetric. Qed.
Print Assumptions C17_legacy_correct_if_symmetric.

(* finding (_getCirculantMatrix|custom-PSF:transposed-operator): the response to the unit impulse at the PSF centre
   is the mirrored PSF *)
Theorem C17_legacy_refuted :
  exists A, zlegacy 6 [1;2;3;4;5;6]%Z = Some A /\
  zmatvec A (zunit 6 3) = [1;6;5;4;3;2]%Z /\ zconv1d BCwrap [1;2;3;4;5;6]%Z (zunit 6 3) = [1;2;3;4;5;6]%Z.
Proof. eexists. split; [vm_compute; reflexivity | split; vm_compute; reflexivity]. Qed.
Print Assumptions C17_legacy_refuted.

(* the repaired legacy assembly toeplitz(h, hflip) is the periodic convolution matrix *)
Theorem C17_legacy_fixed_is_convolution : forall (R : Type) (r0 r1 : R) (radd rmul rsub : R -> R -> R) (ropp : R -> R),
  ring_theory r0 r1 radd rmul rsub ropp (@eq R) ->
  forall (dim : nat) (PSF : list R), Nat.even dim = true -> length PSF = dim ->
  exists A, legacy_matrix_fixed r0 dim PSF = Some A /\
  forall i j, (i < dim)%nat -> (j < dim)%nat ->
    nth j (nth i A []) r0 = conv1d_at r0 radd rmul BCwrap PSF (unit_vec r0 r1 dim j) i.
Proof. exact legacy_fixed_is_convolution. Qed.
Print Assumptions C17_legacy_fixed_is_convolution.

(* ---- Deconvolution2D: pad by PSF_size//2, 'valid' convolution, drop first row/column for even sizes
        = the documented convolution centred at (size//2, size//2); every BC, every square PSF of either parity
        (also larger than the image), every image shape.  (fftconvolve = direct convolution is the assumed law.) *)
Theorem C17_2d_forward_is_convolution : forall (R : Type) (r0 : R) (radd rmul : R -> R -> R)
  (m : bc) (s : nat) (P X : list (list R)),
  (0 < s)%nat -> square R s P ->
  proj_forward_2d r0 radd rmul m P X = conv2d r0 radd rmul m P X.
Proof. exact proj_forward_2d_is_convolution. Qed.
Print Assumptions C17_2d_forward_is_convolution.

(* non-square PSFs are outside: the output is not dim x dim and the constructor fails (witness) *)
Theorem C17_2d_nonsquare_refused :
  proj_shape_ok [[1;2;3];[4;5;6]]%Z [[1;0;0];[0;1;0];[0;0;1]]%Z = false.
Proof. vm_compute. reflexivity. Qed.
Print Assumptions C17_2d_nonsquare_refused.

(* ---- WangCubic: the Jacobian handed to the model is the derivative of the forward map (standard-library derivative;
        the same statement with Coquelicot's is_derive is proved in Proofs/C17_Cubic.v and kept out of this file only so
        that coqchk does not have to re-check the Coquelicot library) *)
Theorem C17_cubic_jacobian : forall x0 x1 : R,
  derivable_pt_lim (fun t => cubic_forward_R t x1) x0 (fst (cubic_jacobian_R x0 x1)) /\
  derivable_pt_lim (fun t => cubic_forward_R x0 t) x1 (snd (cubic_jacobian_R x0 x1)).
Proof. intros x0 x1. split; [exact (cubic_d0_std x0 x1) | exact (cubic_d1_std x0 x1)]. Qed.
Print Assumptions C17_cubic_jacobian.

(* the same for the executable rational model: exact expansion with an O(h^2) remainder *)
Theorem C17_cubic_taylor : forall x0 x1 h k : Qc,
  cubic_forward (x0 + h) (x1 + k) =
  (cubic_forward x0 x1 + nth 0 (cubic_jacobian x0 x1) 0 * h + nth 1 (cubic_jacobian x0 x1) 0 * k
   + h * h * (zq 5 - zq 30 * x0 - zq 10 * h))%Qc.
Proof. exact cubic_taylor. Qed.
Print Assumptions C17_cubic_taylor.

(* ---- data = exact data + (stated standard deviation) x (the normal draw), in all three noise rules *)
Theorem C17_data_affine : forall (s : Qc) (exact z : list Qc), length exact = length z ->
  qvsub (data_gaussian s exact z) exact = qvscale (qcabs s) z /\
  qvsub (data_scaled s exact z) exact = map (fun p => (qcabs (fst p * s) * snd p)%Qc) (combine exact z) /\
  qvsub (data_snr s exact z) exact = qvscale s z /\
  data_gaussian s exact (qvzero (length exact)) = exact.
Proof.
  intros s exact z H. repeat split;
    [exact (data_gaussian_affine s exact z H) | exact (data_scaled_affine s exact z H)
     | exact (data_snr_affine s exact z H) | exact (data_gaussian_zero s exact (length exact) eq_refl)].
Qed.
Print Assumptions C17_data_affine.

(* SNR rule: sigma^2 = ||y||^2/SNR^2 means noise energy x SNR^2 = signal energy x ||z||^2 *)
Theorem C17_data_snr_level : forall (snr sigma : Qc) (exact z : list Qc), snr <> 0%Qc ->
  (sigma * sigma)%Qc = snr_sigma2 snr exact ->
  (snr * snr * qnormsq (qvscale sigma z))%Qc = (qnormsq exact * qnormsq z)%Qc.
Proof. exact data_snr_level. Qed.
Print Assumptions C17_data_snr_level.

(* ---- components: model / data / likelihood / prior handed out are the objects the constructor assembled *)
Theorem C17_components_same_objects : forall model_id data_id lik_id prior_id : Z,
  let h := construct model_id data_id lik_id prior_id in
  get_components h = Some (model_id, data_id) /\ bp_model h = Some model_id /\ bp_data h = Some data_id /\
  bp_likelihood h = lik_id /\ bp_prior h = prior_id /\
  find_lik h (post_lik (h_target h)) = Some (mkLik model_id data_id).
Proof. exact components_same_objects. Qed.
Print Assumptions C17_components_same_objects.

(* finding (Defocus-PSF|disc-off-centre, |param-0:IndexError): the coded disc is not centred on the convolution
   centre, the repaired one is; radius 0 is refused by the code and is the delta after the repair *)
Theorem C17_defocus_refuted :
  option_map (map this) (defocus_psf_1d false 5 (qc (1 # 1))) = Some [1 # 3; 1 # 3; 1 # 3; 0; 0]%Q /\
  option_map (map this) (defocus_psf_1d true 5 (qc (1 # 1))) = Some [0; 1 # 3; 1 # 3; 1 # 3; 0]%Q /\
  defocus_psf_1d false 3 (qc 0) = None /\
  option_map (map this) (defocus_psf_1d true 3 (qc 0)) = Some [0; 1; 0]%Q.
Proof. repeat split; vm_compute; reflexivity. Qed.
Print Assumptions C17_defocus_refuted.

(* non-vacuity: the hypotheses of the theorems above are satisfiable (linear f = a convolution; a square PSF;
   a symmetric legacy PSF; matching lengths) *)
Example C17_nonvacuous :
  additive Z Z.add 4 (zconv1d BCreflect [1;2;3]%Z) /\ homogeneous Z Z.mul 4 (zconv1d BCreflect [1;2;3]%Z) /\
  maps_to Z 4 4 (zconv1d BCreflect [1;2;3]%Z) /\
  square Z 2 [[1;2];[3;4]]%Z /\ psf_symmetric Z 0%Z 4 [7;1;2;1]%Z /\ Nat.even 4 = true /\
  transpose 0%Z 3 (zdeconv1_matrix false BCwrap [1;2;1]%Z 3) = zdeconv1_matrix false BCwrap [1;2;1]%Z 3.
Proof.
  split; [exact (conv1d_additive Z 0%Z 1%Z Z.add Z.mul Z.sub Z.opp Zth BCreflect [1;2;3]%Z 4)|].
  split; [exact (conv1d_homogeneous Z 0%Z 1%Z Z.add Z.mul Z.sub Z.opp Zth BCreflect [1;2;3]%Z 4)|].
  split; [exact (conv1d_maps_to Z 0%Z Z.add Z.mul BCreflect [1;2;3]%Z 4)|].
  split; [split; [reflexivity | repeat constructor]|].
  split; [intros m Hm; do 4 (destruct m as [|m]; [reflexivity|]); lia|].
  split; [reflexivity | vm_compute; reflexivity].
Qed.
