(* C13 -- binary64 witnesses (bit-exact PrimFloat model of np.linspace and of the interval tests of
   StepExpansion.__init__): the documented partition is NOT what floating comparisons produce. *)
From CV Require Import Base.Tac Base.Cmp Base.QcLin Model.C13_Geom Model.C13_Float Proofs.C13_Step Proofs.C13_StepQ.
From Coq Require Import PrimFloat QArith.

(* 6 nodes on [0,1], 5 steps: step 2 is empty (0.6000000000000001 > 0 + 3*1/5), although n_steps <= nodes *)
Lemma float_empty_step_witness :
  step_indices_F (linspace 0%float 1%float 6) 5 = [[0; 1]; [2]; []; [3; 4]; [5]]%nat.
Proof. vm_compute. reflexivity. Qed.

Theorem step_partition_float_refuted : exists (a b : float) (N n : nat),
  (2 <= N)%nat /\ (1 <= n)%nat /\ (n <= N)%nat /\
  no_empty_step (step_indices_F (linspace a b N) n) = false /\
  (* while exact arithmetic on the same regular grid has no empty step *)
  no_empty_step (step_indices_Q (reg_grid 0 (1 # 5) N) n) = true.
Proof.
  exists 0%float, 1%float, 6%nat, 5%nat. split; [lia|]. split; [lia|]. split; [lia|]. split.
  - vm_compute. reflexivity.
  - apply step_no_empty_exact; try lia. reflexivity.
Qed.

(* 11 nodes on [1e-3, 1e3], 11 steps: the last node belongs to no step (x0 + 11*L/11 < grid[-1]) *)
Theorem step_cover_float_refuted : exists (a b : float) (N n : nat),
  (2 <= N)%nat /\ (1 <= n)%nat /\ (n <= N)%nat /\
  is_partition N (step_indices_F (linspace a b N) n) = false /\
  nth (N - 1) (step_indices_F (linspace a b N) n) [0%nat] = [].
Proof.
  exists 0x1.0624dd2f1a9fcp-10%float, 0x1.f4p+9%float, 11%nat, 11%nat.
  split; [lia|]. split; [lia|]. split; [lia|]. split; vm_compute; reflexivity.
Qed.

Definition grid01_7 : list float := linspace 0%float 1%float 7.

(* a grid on which the float indices ARE the documented partition: the round-trip theorem applies to them *)
Lemma float_good_witness :
  step_wf_b 7 (step_indices_F (linspace 0%float 1%float 7) 3) = true /\
  step_indices_F (linspace 0%float 1%float 7) 3 = idx_of_fun 7 3 (step_of 7 3).
Proof. split; vm_compute; reflexivity. Qed.

(* ---------------- when the binary64 partition IS the exact one (bounded exhaustive, bounds in the statements) -------- *)
Lemma natl_eqb_eq x y : natl_eqb x y = true <-> x = y.
Proof. apply list_eqb_spec. intros; apply Nat.eqb_eq. Qed.
Lemma natll_eqb_eq x y : natll_eqb x y = true <-> x = y.
Proof. apply list_eqb_spec. apply natl_eqb_eq. Qed.

Definition all_Nn_ok (M : nat) (f : nat -> nat -> list (list nat)) : bool :=
  forallb (fun N => forallb (fun n => natll_eqb (f N n) (step_indices_ideal N n)) (seq 1 N)) (seq 2 (M - 1)).

Lemma all_Nn_ok_spec M f : all_Nn_ok M f = true ->
  forall N n, (2 <= N <= M)%nat -> (1 <= n <= N)%nat -> f N n = step_indices_ideal N n.
Proof.
  intros H N n HN Hn. unfold all_Nn_ok in H. rewrite forallb_forall in H.
  specialize (H N ltac:(apply in_seq; lia)). rewrite forallb_forall in H.
  specialize (H n ltac:(apply in_seq; lia)). apply natll_eqb_eq. exact H.
Qed.

(* the loop of StepExpansion.__init__ run in binary64 on the node NUMBERS (the minimal repair) returns exactly the
   node-number partition -- every N <= 32, every n_steps <= N *)
Theorem step_nodes_float_exact_bounded : forall N n, (2 <= N <= 32)%nat -> (1 <= n <= N)%nat ->
  step_indices_nodes N n = step_indices_ideal N n.
Proof. apply all_Nn_ok_spec. vm_compute. reflexivity. Qed.

(* today's loop on node COORDINATES is exact whenever the coordinates themselves are: on every grid x0 + k*h of the
   dyadic family (36 offset/spacing pairs), every N <= 16 and every n_steps <= N (dividing N-1 or not) *)
Theorem step_float_exact_on_dyadic_grids_bounded : forall x0 h N n, In (x0, h) dyadic_family ->
  (2 <= N <= 16)%nat -> (1 <= n <= N)%nat ->
  step_indices_F (fgrid x0 h N) n = step_indices_ideal N n.
Proof.
  intros x0 h N n Hin. revert N n.
  assert (H : forallb (fun p => all_Nn_ok 16 (fun N n => step_indices_F (fgrid (fst p) (snd p) N) n)) dyadic_family = true)
    by (vm_compute; reflexivity).
  rewrite forallb_forall in H. specialize (H (x0, h) Hin). cbn [fst snd] in H. apply all_Nn_ok_spec. exact H.
Qed.
