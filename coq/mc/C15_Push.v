(* C15 -- the closed-form Gaussian MAP (Tarantola 3.37/3.38, as coded in BayesianProblem.MAP) is the posterior
   mean, for matrices of every size over any field (mathcomp / ssreflect style; logical path CVmc).

     A : m x n forward matrix, Cx : n x n prior covariance, Ce : m x m noise covariance,
     S  = A Cx A^T + Ce                    ("sysm" of the code)
     xm = x0 + Cx A^T S^-1 (b - A x0)      (what MAP returns)
     H  = A^T Ce^-1 A + Cx^-1              (posterior precision; _sampleMapCholesky inverts it)
     g x = A^T Ce^-1 (b - A x) - Cx^-1 (x - x0)     (gradient of the log-posterior)                     *)
From mathcomp Require Import all_ssreflect all_algebra.
Set Implicit Arguments.
Unset Strict Implicit.
Unset Printing Implicit Defensive.
Import GRing.Theory.
Local Open Scope ring_scope.

Section Push.
Variable F : fieldType.
Variables m n : nat.
Variable A : 'M[F]_(m, n).
Variable Cx : 'M[F]_n.
Variable Ce : 'M[F]_m.
Variables (x0 : 'cV[F]_n) (b : 'cV[F]_m).

Definition sysm : 'M[F]_m := A *m Cx *m A^T + Ce.
Definition hess : 'M[F]_n := A^T *m invmx Ce *m A + invmx Cx.
Definition rhs_post : 'cV[F]_n := A^T *m invmx Ce *m b + invmx Cx *m x0.
Definition map_closed : 'cV[F]_n := x0 + Cx *m (A^T *m (invmx sysm *m (b - A *m x0))).
Definition post_grad (x : 'cV[F]_n) : 'cV[F]_n := A^T *m invmx Ce *m (b - A *m x) - invmx Cx *m (x - x0).
Definition post_cov : 'M[F]_n := Cx - Cx *m A^T *m invmx sysm *m A *m Cx.

Hypothesis Ux : Cx \in unitmx.
Hypothesis Ue : Ce \in unitmx.

(* the push-through identity  H Cx A^T = A^T Ce^-1 S *)
Lemma push_through : hess *m Cx *m A^T = A^T *m invmx Ce *m sysm.
Proof.
rewrite /hess /sysm !mulmxDl !mulmxDr (mulVmx Ux) mul1mx.
rewrite -[A^T *m invmx Ce *m Ce]mulmxA (mulVmx Ue) mulmx1.
by rewrite !mulmxA.
Qed.

Lemma post_grad_affine x : post_grad x = rhs_post - hess *m x.
Proof.
rewrite /post_grad /rhs_post /hess !mulmxBr mulmxDl !mulmxA.
by rewrite opprB opprD [LHS]addrACA.
Qed.

Hypothesis Us : sysm \in unitmx.

(* MAP as coded satisfies the normal equations of the posterior: H xm = A^T Ce^-1 b + Cx^-1 x0 *)
Lemma map_normal_eq : hess *m map_closed = rhs_post.
Proof.
rewrite /map_closed mulmxDr !mulmxA push_through -[_ *m sysm *m invmx sysm]mulmxA (mulmxV Us) mulmx1.
rewrite mulmxBr /rhs_post /hess mulmxDl !mulmxA.
by rewrite addrC -addrA addKr.
Qed.

(* Woodbury: H (Cx - Cx A^T S^-1 A Cx) = I *)
Lemma hess_cov : hess *m post_cov = 1%:M.
Proof.
rewrite /post_cov mulmxBr !mulmxA push_through (mulmxK Us).
by rewrite /hess !mulmxDl (mulVmx Ux) addrC addKr.
Qed.

Lemma hess_unit : hess \in unitmx.
Proof. by case: (mulmx1_unit hess_cov). Qed.

Lemma inv_hess : invmx hess = post_cov.
Proof. by rewrite -[LHS]mulmx1 -hess_cov mulKmx // hess_unit. Qed.

(* closed form = posterior mean H^-1 (A^T Ce^-1 b + Cx^-1 x0) *)
Theorem map_is_posterior_mean : map_closed = invmx hess *m rhs_post.
Proof. by rewrite -map_normal_eq mulKmx // hess_unit. Qed.

(* it is a stationary point of the log-posterior ... *)
Theorem map_stationary : post_grad map_closed = 0.
Proof. by rewrite post_grad_affine map_normal_eq subrr. Qed.

(* ... and the only one *)
Theorem stationary_unique x : post_grad x = 0 -> x = map_closed.
Proof.
rewrite post_grad_affine => /eqP; rewrite subr_eq0 => /eqP E.
by rewrite map_is_posterior_mean E mulKmx // hess_unit.
Qed.

(* any point x (e.g. the one an optimiser stops at) differs from the maximiser by H^-1 applied to its gradient *)
Theorem stationary_error x : x = map_closed - invmx hess *m post_grad x.
Proof. by rewrite post_grad_affine mulmxBr (mulKmx hess_unit) -map_is_posterior_mean opprB addrC subrK. Qed.

(* direct sampling: x = xm + L z with L L^T = H^-1 (numpy.linalg.cholesky of inv(H)):
   offset = posterior mean, linear part L, covariance L L^T = H^-1 = Woodbury form *)
Theorem cholesky_draw (L : 'M[F]_n) (z1 z2 : 'cV[F]_n) :
  L *m L^T = invmx hess ->
  [/\ map_closed + L *m 0 = invmx hess *m rhs_post,
      (map_closed + L *m z1) - (map_closed + L *m z2) = L *m (z1 - z2),
      hess *m (L *m L^T) = 1%:M &
      L *m L^T = post_cov].
Proof.
move=> HL; split.
- by rewrite mulmx0 addr0 map_is_posterior_mean.
- by rewrite mulmxBr opprD addrACA subrr add0r.
- by rewrite HL mulmxV // hess_unit.
- by rewrite HL inv_hess.
Qed.

End Push.

(* scalar covariances are expanded by the code to c * I: these are invertible iff c != 0 *)
Lemma scalar_cov_unit (F : fieldType) n (c : F) : c != 0 -> (c%:M : 'M[F]_n) \in unitmx.
Proof.
by move=> Hc; rewrite unitmxE det_scalar unitfE expf_neq0.
Qed.

(* a diagonal (vector) covariance as the FIXED code expands it; the unfixed code adds the vector to every ROW of
   A Cx A^T, i.e. uses the rank-one matrix 1 v^T in the place of diag v -- those agree only for n = 1 *)
Lemma diag_cov_unit (F : fieldType) n (v : 'rV[F]_n) : (forall i, v 0 i != 0) -> diag_mx v \in unitmx.
Proof.
move=> Hv; rewrite unitmxE det_diag unitfE; apply/prodf_neq0 => i _; exact: Hv.
Qed.
