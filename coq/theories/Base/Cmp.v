(* Boolean comparisons used by the generated case files (correspondence checks). *)
From CV Require Import Base.Tac.
From Coq Require Import QArith Qabs.
From Coq Require String.
Notation string := String.string.

Fixpoint list_eqb {A} (eqb : A -> A -> bool) (x y : list A) : bool :=
  match x, y with
  | [], [] => true
  | a :: x', b :: y' => eqb a b && list_eqb eqb x' y'
  | _, _ => false
  end.

Definition zl_eqb := list_eqb Z.eqb.
Definition zll_eqb := list_eqb zl_eqb.
Definition zlll_eqb := list_eqb zll_eqb.
Definition natl_eqb := list_eqb Nat.eqb.
Definition ql_eqb := list_eqb Qeq_bool.
Definition qll_eqb := list_eqb ql_eqb.
Definition strl_eqb := list_eqb String.eqb.

Definition opt_eqb {A} (eqb : A -> A -> bool) (x y : option A) : bool :=
  match x, y with
  | None, None => true
  | Some a, Some b => eqb a b
  | _, _ => false
  end.

Lemma list_eqb_spec {A} (eqb : A -> A -> bool) :
  (forall a b, eqb a b = true <-> a = b) -> forall x y, list_eqb eqb x y = true <-> x = y.
Proof.
  intros H x; induction x as [|a x IH]; intros [|b y]; simpl; split; intros E;
    try reflexivity; try discriminate.
  - apply andb_true_iff in E as [E1 E2]. apply H in E1. apply IH in E2. congruence.
  - inversion E; subst. apply andb_true_iff; split; [apply H; reflexivity | apply IH; reflexivity].
Qed.

Lemma zl_eqb_spec x y : zl_eqb x y = true <-> x = y.
Proof. apply list_eqb_spec. intros; apply Z.eqb_eq. Qed.

Lemma zll_eqb_spec x y : zll_eqb x y = true <-> x = y.
Proof. apply list_eqb_spec. apply zl_eqb_spec. Qed.

(* |a - b| <= tol * (1 + |b|)  -- relative/absolute closeness of an observed float (a, exact
   rational) to the model's exact value b *)
Definition q_close (tol a b : Q) : bool := Qle_bool (Qabs (a - b)) (tol * (1 + Qabs b)).
Definition ql_close (tol : Q) := list_eqb (q_close tol).
Definition qll_close (tol : Q) := list_eqb (ql_close tol).

Definition tol9 : Q := 1 # 1000000000.
Definition tol6 : Q := 1 # 1000000.
Definition tol12 : Q := 1 # 1000000000000.
