(* C19 -- burnthin for arbitrary integers (Model: burnthin_z): inside the documented domain it is burnthin;
   outside it the code does not refuse: a negative Nb keeps the LAST |Nb| draws, a negative Nt reverses the
   order.  (The docstring defines Nb as "number of samples to remove" and Nt as "select every Nt sample":
   counts.  Negative values are therefore outside the domain of the property; the behaviour is pinned here
   and in the correspondence so that any change of it is noticed.) *)
From CV Require Import Base.Tac Base.Cmp Model.C19_Stats Proofs.C19_Stats.

Theorem burnthin_z_documented {A} (l : list A) nb nt :
  (0 <= nb)%Z -> (0 < nt)%Z -> burnthin_z nb nt l = burnthin (Z.to_nat nb) (Z.to_nat nt) l.
Proof.
  intros Hb Ht. unfold burnthin_z, burnthin.
  destruct (Z.leb_spec (Z.of_nat (length l)) nb); destruct (Nat.leb_spec (length l) (Z.to_nat nb)); try lia; [reflexivity|].
  destruct (Z.eqb_spec nt 0); [lia|]. destruct (Nat.eqb_spec (Z.to_nat nt) 0); [lia|].
  destruct (Z.ltb_spec 0 nt); [|lia]. destruct (Z.leb_spec 0 nb); [|lia]. reflexivity.
Qed.

(* Nb < 0 (Nt > 0): the burn-in removed is Ns - |Nb| draws (none if |Nb| >= Ns): the last |Nb| draws are kept *)
Theorem burnthin_z_negative_nb {A} (l : list A) nb nt :
  l <> [] -> (nb < 0)%Z -> (0 < nt)%Z ->
  burnthin_z nb nt l = burnthin (length l - Nat.min (Z.to_nat (- nb)) (length l)) (Z.to_nat nt) l.
Proof.
  intros Hl Hb Ht. unfold burnthin_z, burnthin.
  assert (Hn : (0 < length l)%nat) by (destruct l; [congruence | cbn; lia]).
  destruct (Z.leb_spec (Z.of_nat (length l)) nb); [lia|].
  destruct (Nat.leb_spec (length l) (length l - Nat.min (Z.to_nat (- nb)) (length l))); [lia|].
  destruct (Z.eqb_spec nt 0); [lia|]. destruct (Nat.eqb_spec (Z.to_nat nt) 0); [lia|].
  destruct (Z.ltb_spec 0 nt); [|lia]. destruct (Z.leb_spec 0 nb); [lia|].
  do 3 f_equal. lia.
Qed.

(* Nt < 0: draws Nb, Nb-|Nt|, ... in DESCENDING position: the result is not "the stored samples in order" *)
Theorem burnthin_z_negative_nt {A} (l : list A) nb nt :
  (0 <= nb < Z.of_nat (length l))%Z -> (nt < 0)%Z ->
  burnthin_z nb nt l = Some (thin (Z.to_nat (- nt)) (rev (firstn (Z.to_nat nb + 1) l))).
Proof.
  intros Hb Ht. unfold burnthin_z.
  destruct (Z.leb_spec (Z.of_nat (length l)) nb); [lia|].
  destruct (Z.eqb_spec nt 0); [lia|]. destruct (Z.ltb_spec 0 nt); [lia|].
  destruct (Z.leb_spec 0 nb); [|lia]. destruct (Z.ltb_spec nb 0); [lia|]. reflexivity.
Qed.

Theorem burnthin_z_outside_domain_refuted :
  burnthin_z (-2) 1 [10; 11; 12; 13; 14]%Z = Some [13; 14]%Z /\      (* "remove -2 samples": the last two are kept *)
  burnthin_z (-9) 1 [10; 11; 12]%Z = Some [10; 11; 12]%Z /\
  burnthin_z 3 (-2) [10; 11; 12; 13; 14]%Z = Some [13; 11]%Z /\      (* reversed order *)
  burnthin_z (-9) (-1) [10; 11; 12]%Z = Some [].                     (* an empty Samples object *)
Proof. vm_compute. repeat split. Qed.
