(* C04 -- proofs, part 1: every logpdf formula of the model is the logarithm of the documented
   probability density (product over the components, scalar parameters broadcast), for all
   dimensions; the guarded / refuted statements for the defective classes; the Markov random
   fields as products over the finite differences; the un-normalised Gaussian constant. *)
From CV Require Import Base.Tac Model.C04_Dens.
From Coq Require Import Reals Lra.
From Coquelicot Require Import Coquelicot.
Local Open Scope R_scope.
Notation Forall := List.Forall.    (* Coquelicot.AutoDerive has a constructor of that name *)

(* ---------- generic: sums of logs, broadcasting ---------- *)
Lemma rprod_pos {A} (f : A -> R) l : Forall (fun a => 0 < f a) l -> 0 < rprod (map f l).
Proof.
  induction 1 as [|a l Ha _ IH]; cbn [map rprod fold_right]; [lra|].
  apply Rmult_lt_0_compat; assumption.
Qed.

Lemma ln_rprod {A} (f g : A -> R) l :
  Forall (fun a => 0 < f a /\ g a = ln (f a)) l -> rsum (map g l) = ln (rprod (map f l)).
Proof.
  induction 1 as [|a l [Ha Hg] Hl IH]; cbn [map rsum rprod fold_right].
  - symmetry; apply ln_1.
  - rewrite ln_mult; [rewrite Hg; f_equal; exact IH | exact Ha |].
    apply rprod_pos. eapply Forall_impl; [|exact Hl]. intros b [Hb _]; exact Hb.
Qed.

Lemma rsum_app a b : rsum (a ++ b) = rsum a + rsum b.
Proof. unfold rsum. induction a as [|x a IH]; simpl; [lra | rewrite IH; lra]. Qed.

Lemma rsum_repeat c n : rsum (repeat c n) = INR n * c.
Proof.
  induction n as [|n IH]; [cbn; lra|].
  cbn [repeat rsum fold_right]. unfold rsum in IH. rewrite IH, S_INR. lra.
Qed.

Lemma rsum_map_add {A} (f g : A -> R) l : rsum (map (fun a => f a + g a) l) = rsum (map f l) + rsum (map g l).
Proof. induction l as [|a l IH]; cbn [map rsum fold_right]; [lra|]. unfold rsum in IH. rewrite IH. lra. Qed.

Lemma rsum_map_const {A} (c : R) (l : list A) : rsum (map (fun _ => c) l) = INR (length l) * c.
Proof.
  induction l as [|a l IH]; [cbn; lra|].
  cbn [map rsum fold_right length]. unfold rsum in IH. rewrite IH, S_INR. lra.
Qed.

Lemma rsum_map_scal {A} (c : R) (f : A -> R) l : rsum (map (fun a => c * f a) l) = c * rsum (map f l).
Proof. induction l as [|a l IH]; cbn [map rsum fold_right]; [lra|]. unfold rsum in IH. rewrite IH. lra. Qed.

Lemma rsum_map_ext {A} (f g : A -> R) l : (forall a, In a l -> f a = g a) -> rsum (map f l) = rsum (map g l).
Proof.
  induction l as [|a l IH]; intros H; cbn [map rsum fold_right]; [reflexivity|].
  rewrite (H a (or_introl eq_refl)). f_equal. apply IH. intros b Hb. apply H. right; exact Hb.
Qed.

(* numpy broadcasting of a parameter of length 1 or n *)
Lemma bc_length n (p : list R) : length p = 1%nat \/ length p = n -> length (bc n p) = n.
Proof.
  intros [H|H]; destruct p as [|a [|b p]]; cbn in *; try discriminate;
    try apply repeat_length; try (subst n; reflexivity).
Qed.

Lemma bc_Forall (P : R -> Prop) n p : Forall P p -> Forall P (bc n p).
Proof.
  intros H. destruct p as [|a [|b p]]; cbn; try exact H.
  inversion H; subst. clear H. induction n; cbn; constructor; assumption.
Qed.

Lemma zip2_length a b : length a = length b -> length (zip2 a b) = length a.
Proof. revert b; induction a as [|x a IH]; intros [|y b] H; cbn in *; try discriminate; auto. Qed.

Lemma zip3_length a b c : length a = length c -> length b = length c -> length (zip3 a b c) = length c.
Proof.
  revert b c; induction a as [|x a IH]; intros [|y b] [|z c] H1 H2; cbn in *; try discriminate; auto.
Qed.

Lemma zip3_Forall2 (P : R -> Prop) a b c : Forall P b -> Forall (fun t => P (snd (fst t))) (zip3 a b c).
Proof.
  revert b c; induction a as [|x a IH]; intros [|y b] [|z c] H; cbn; try constructor.
  - inversion H; subst; assumption.
  - inversion H; subst. apply IH; assumption.
Qed.

Lemma zip3_Forall3 (P : R -> Prop) a b c : Forall P c -> Forall (fun t => P (snd t)) (zip3 a b c).
Proof.
  revert b c; induction a as [|x a IH]; intros [|y b] [|z c] H; cbn; try constructor.
  - inversion H; subst; assumption.
  - inversion H; subst. apply IH; assumption.
Qed.

Lemma zip2_Forall2 (P : R -> Prop) a b : Forall P b -> Forall (fun t => P (snd t)) (zip2 a b).
Proof.
  revert b; induction a as [|x a IH]; intros [|y b] H; cbn; try constructor.
  - inversion H; subst; assumption.
  - inversion H; subst. apply IH; assumption.
Qed.

(* every component is kept: the argument list of a broadcast family has one entry per coordinate *)
Lemma args3_length (p q x : list R) :
  (length p = 1%nat \/ length p = length x) -> (length q = 1%nat \/ length q = length x) ->
  length (zip3 (bc (length x) p) (bc (length x) q) x) = length x.
Proof. intros Hp Hq. apply zip3_length; apply bc_length; assumption. Qed.

Lemma ln_inv_pos a : 0 < a -> ln (1 / a) = - ln a.
Proof. intros H. unfold Rdiv. rewrite Rmult_1_l. apply ln_Rinv. exact H. Qed.

Lemma sqrt_2PI_pos : 0 < sqrt (2 * PI).
Proof. apply sqrt_lt_R0. pose proof PI_RGT_0. lra. Qed.

(* ---------- Normal ---------- *)
Lemma normal_pdf1_pos m s x : 0 < s -> 0 < normal_pdf1 (m, s, x).
Proof.
  intros Hs. unfold normal_pdf1. pose proof sqrt_2PI_pos.
  apply Rmult_lt_0_compat; [|apply exp_pos].
  apply Rdiv_lt_0_compat; [lra|]. apply Rmult_lt_0_compat; lra.
Qed.

Lemma normal_term_ln m s x : 0 < s -> normal_term (m, s, x) = ln (normal_pdf1 (m, s, x)).
Proof.
  intros Hs. unfold normal_term, normal_pdf1. pose proof sqrt_2PI_pos.
  assert (0 < s * sqrt (2 * PI)) by (apply Rmult_lt_0_compat; lra).
  rewrite (ln_mult (1 / (s * sqrt (2 * PI)))); [| apply Rdiv_lt_0_compat; lra | apply exp_pos].
  rewrite ln_exp, ln_inv_pos by assumption. lra.
Qed.

Theorem normal_logpdf_doc mean std x :
  Forall (fun s => 0 < s) std -> normal_logpdf mean std x = ln (normal_pdf mean std x).
Proof.
  intros Hs. unfold normal_logpdf, normal_pdf. apply ln_rprod.
  pose proof (zip3_Forall2 (fun s => 0 < s) (bc (length x) mean) (bc (length x) std) x (bc_Forall _ _ _ Hs)) as H.
  unfold normal_args. eapply Forall_impl; [|exact H].
  intros [[m s] t] Hp; cbn in Hp. split; [apply normal_pdf1_pos | apply normal_term_ln]; assumption.
Qed.

(* ---------- Laplace (scalar scale) ---------- *)
Lemma laplace_pdf1_pos b l x : 0 < b -> 0 < laplace_pdf1 b (l, x).
Proof.
  intros Hb. unfold laplace_pdf1. apply Rmult_lt_0_compat; [|apply exp_pos].
  apply Rdiv_lt_0_compat; lra.
Qed.

Lemma laplace_term_ln b l x : 0 < b -> ln (/ 2 / b) - Rabs (x - l) / b = ln (laplace_pdf1 b (l, x)).
Proof.
  intros Hb. unfold laplace_pdf1.
  rewrite (ln_mult (1 / (2 * b))); [| apply Rdiv_lt_0_compat; lra | apply exp_pos].
  rewrite ln_exp. replace (1 / (2 * b)) with (/ 2 / b) by (field; lra). lra.
Qed.

Theorem laplace_logpdf_doc loc b x :
  0 < b -> (length loc = 1%nat \/ length loc = length x) ->
  laplace_logpdf (length x) loc b x = ln (rprod (map (laplace_pdf1 b) (laplace_args loc x))).
Proof.
  intros Hb Hl.
  rewrite <- (ln_rprod (laplace_pdf1 b) (fun a => ln (/ 2 / b) - Rabs (snd a - fst a) / b)).
  2:{ apply Forall_forall. intros [l t] _. cbn [fst snd]. split; [apply laplace_pdf1_pos | apply laplace_term_ln]; exact Hb. }
  unfold laplace_logpdf.
  assert (Hlen : length (laplace_args loc x) = length x).
  { unfold laplace_args. rewrite zip2_length; apply bc_length; exact Hl. }
  rewrite <- Hlen.
  generalize (laplace_args loc x) as L. intros L.
  induction L as [|a L IH]; cbn [map rsum fold_right length].
  - cbn. lra.
  - rewrite S_INR. unfold rsum in IH. unfold Rdiv in *. lra.
Qed.

(* ---------- SmoothedLaplace ---------- *)
Lemma slap_pdf1_pos beta l b x : 0 < b -> 0 < slap_pdf1 beta (l, b, x).
Proof.
  intros Hb. unfold slap_pdf1. apply Rmult_lt_0_compat; [|apply exp_pos].
  apply Rdiv_lt_0_compat; lra.
Qed.

Lemma slap_term_ln beta l b x : 0 < b -> slap_term beta (l, b, x) = ln (slap_pdf1 beta (l, b, x)).
Proof.
  intros Hb. unfold slap_term, slap_pdf1.
  rewrite (ln_mult (1 / (2 * b))); [| apply Rdiv_lt_0_compat; lra | apply exp_pos].
  rewrite ln_exp. replace (1 / (2 * b)) with (/ 2 / b) by (field; lra). unfold Rdiv, Rminus. lra.
Qed.

Definition slap_pdf (loc scale : list R) (beta : R) (x : list R) : R := rprod (map (slap_pdf1 beta) (slap_args loc scale x)).

(* the repaired formula (fixes/C04_smoothed_laplace_scalar_scale.diff): all parameter forms *)
Theorem slap_logpdf_fixed_doc loc scale beta x :
  Forall (fun b => 0 < b) scale -> slap_logpdf true loc scale beta x = ln (slap_pdf loc scale beta x).
Proof.
  intros Hs. unfold slap_logpdf, slap_pdf. apply ln_rprod.
  pose proof (zip3_Forall2 (fun s => 0 < s) (bc (length x) loc) (bc (length x) scale) x (bc_Forall _ _ _ Hs)) as H.
  unfold slap_args. eapply Forall_impl; [|exact H].
  intros [[m s] t] Hp; cbn in Hp. split; [apply slap_pdf1_pos | apply slap_term_ln]; assumption.
Qed.

(* the formula of the unrepaired tree agrees with it exactly when the scale has one entry per coordinate *)
Lemma slap_unfixed_eq_fixed loc scale beta x :
  length scale = length x -> (length loc = 1%nat \/ length loc = length x) ->
  slap_logpdf false loc scale beta x = slap_logpdf true loc scale beta x.
Proof.
  intros Hs Hl. unfold slap_logpdf, slap_args.
  assert (Hb : bc (length x) scale = scale).
  { destruct scale as [|a [|b s]]; cbn in *; try reflexivity. rewrite <- Hs. reflexivity. }
  rewrite Hb.
  assert (Hll : length (bc (length x) loc) = length x) by (apply bc_length; exact Hl).
  revert Hll Hs. generalize (bc (length x) loc) as L. clear.
  revert scale. induction x as [|t x IH]; intros [|b s] [|l L] H1 H2; try discriminate.
  - cbn. lra.
  - cbn [length] in H1, H2. injection H1 as H1. injection H2 as H2. specialize (IH s L H1 H2).
    unfold rsum in *. cbn [zip3 map fold_right] in *.
    change (slap_term beta (l, b, t)) with (ln (/ 2 / b) - sqrt ((t - l) ^ 2 + beta) / b). lra.
Qed.

Theorem slap_logpdf_doc_guarded fixed loc scale beta x :
  Forall (fun b => 0 < b) scale -> (length loc = 1%nat \/ length loc = length x) ->
  (fixed = true \/ length scale = length x) ->
  slap_logpdf fixed loc scale beta x = ln (slap_pdf loc scale beta x).
Proof.
  intros Hs Hl [->|Hlen]; [apply slap_logpdf_fixed_doc; exact Hs|].
  destruct fixed; [apply slap_logpdf_fixed_doc; exact Hs|].
  rewrite slap_unfixed_eq_fixed by assumption. apply slap_logpdf_fixed_doc; exact Hs.
Qed.

(* scalar scale, dim 2: the unrepaired formula counts ln(1/(2b)) once *)
Theorem slap_logpdf_refuted :
  exists loc scale beta x, Forall (fun b => 0 < b) scale /\ length scale = 1%nat /\ length x = 2%nat /\
    slap_logpdf false loc scale beta x <> ln (slap_pdf loc scale beta x).
Proof.
  exists (0 :: nil), (1 :: nil), 1, (0 :: 0 :: nil). repeat split; [repeat constructor; lra|].
  rewrite <- slap_logpdf_fixed_doc by (repeat constructor; lra).
  unfold slap_logpdf, slap_args, slap_term. cbn [length bc repeat zip3 map rsum fold_right].
  intros H.
  assert (Hc : ln (/ 2 / 1) = 0) by lra.
  replace (/ 2 / 1) with (/ 2) in Hc by field.
  rewrite ln_Rinv in Hc by lra.
  assert (0 < ln 2) by (rewrite <- ln_1; apply ln_increasing; lra). lra.
Qed.

(* ---------- Cauchy ---------- *)
Lemma cauchy_pdf1_pos l s x : 0 < s -> 0 < cauchy_pdf1 (l, s, x).
Proof.
  intros Hs. unfold cauchy_pdf1. pose proof PI_RGT_0. pose proof (pow2_ge_0 (x - l)).
  assert (0 < s ^ 2) by nra. assert (0 <= (x - l) ^ 2 / s ^ 2) by (apply Rle_mult_inv_pos; assumption).
  apply Rdiv_lt_0_compat; [lra|]. apply Rmult_lt_0_compat; [apply Rmult_lt_0_compat|]; lra.
Qed.

Lemma cauchy_term_ln l s x : 0 < s -> cauchy_term (l, s, x) = ln (cauchy_pdf1 (l, s, x)).
Proof.
  intros Hs. unfold cauchy_term, cauchy_pdf1. pose proof PI_RGT_0. pose proof (pow2_ge_0 (x - l)).
  assert (0 < s ^ 2) by nra. assert (0 <= (x - l) ^ 2 / s ^ 2) by (apply Rle_mult_inv_pos; assumption).
  replace (((x - l) / s) ^ 2) with ((x - l) ^ 2 / s ^ 2) by (field; lra).
  rewrite ln_inv_pos; [reflexivity|]. apply Rmult_lt_0_compat; [apply Rmult_lt_0_compat|]; lra.
Qed.

Theorem cauchy_logpdf_doc loc scale x :
  Forall (fun s => 0 < s) scale ->
  cauchy_logpdf loc scale x = ln (rprod (map cauchy_pdf1 (cauchy_args loc scale x))).
Proof.
  intros Hs. unfold cauchy_logpdf. apply ln_rprod.
  pose proof (zip3_Forall2 (fun s => 0 < s) (bc (length x) loc) (bc (length x) scale) x (bc_Forall _ _ _ Hs)) as H.
  unfold cauchy_args. eapply Forall_impl; [|exact H].
  intros [[m s] t] Hp; cbn in Hp. split; [apply cauchy_pdf1_pos | apply cauchy_term_ln]; assumption.
Qed.

(* each factor of the cdf is an antiderivative of the corresponding factor of the density *)
Theorem cauchy_cdf1_derive l s x : 0 < s ->
  is_derive (fun t => cauchy_cdf1 (l, s, t)) x (cauchy_pdf1 (l, s, x)).
Proof.
  intros Hs. unfold cauchy_cdf1, cauchy_pdf1. pose proof PI_RGT_0.
  auto_derive; [exact I|].
  pose proof (pow2_ge_0 (x - l)). assert (0 < s ^ 2) by nra.
  field_simplify_eq; [ring | repeat split; try lra].
Qed.

Lemma cauchy_cdf1_limits l s : 0 < s -> forall x, 0 < cauchy_cdf1 (l, s, x) < 1.
Proof.
  intros Hs x. unfold cauchy_cdf1. pose proof PI_RGT_0. pose proof (atan_bound ((x - l) / s)) as [Ha Hb].
  split.
  - assert (- / 2 < atan ((x - l) / s) / PI); [|lra].
    apply Rmult_lt_reg_r with PI; [lra|]. unfold Rdiv. rewrite Rmult_assoc, Rinv_l by lra. lra.
  - assert (atan ((x - l) / s) / PI < / 2); [|lra].
    apply Rmult_lt_reg_r with PI; [lra|]. unfold Rdiv. rewrite Rmult_assoc, Rinv_l by lra. lra.
Qed.

(* the repaired cdf is the product of the marginal cdfs; the code's sum is not (already in dim 2 it exceeds 1) *)
Theorem cauchy_cdf_guarded fixed loc scale x :
  (fixed = true \/ length x = 1%nat) -> (length loc = 1%nat \/ length loc = length x) ->
  (length scale = 1%nat \/ length scale = length x) ->
  cauchy_cdf fixed loc scale x = rprod (map cauchy_cdf1 (cauchy_args loc scale x)).
Proof.
  intros [->|Hx] Hl Hs; [reflexivity|]. destruct fixed; [reflexivity|].
  unfold cauchy_cdf.
  pose proof (args3_length loc scale x Hl Hs) as Hlen. unfold cauchy_args. rewrite Hx in *.
  destruct (zip3 (bc 1 loc) (bc 1 scale) x) as [|a [|b r]]; cbn in Hlen; try discriminate.
  cbn. lra.
Qed.

Theorem cauchy_cdf_refuted :
  exists loc scale x, Forall (fun s => 0 < s) scale /\
    cauchy_cdf false loc scale x <> rprod (map cauchy_cdf1 (cauchy_args loc scale x)) /\ 1 <= cauchy_cdf false loc scale x.
Proof.
  exists (0 :: nil), (1 :: nil), (0 :: 0 :: nil). split; [repeat constructor; lra|].
  unfold cauchy_cdf, cauchy_args, cauchy_cdf1. cbn [length bc repeat zip3 map rsum rprod fold_right].
  replace ((0 - 0) / 1) with 0 by field. rewrite atan_0. split; [|lra].
  unfold Rdiv. rewrite !Rmult_0_l. lra.
Qed.

(* ---------- Uniform ---------- *)
Definition uniform_pdf (dim : nat) (low high : list R) : R := rprod (map uniform_pdf1 (zip2 (bc dim low) (bc dim high))).

Lemma rprod_inv (l : list R) : Forall (fun d => 0 < d) l -> 1 / rprod l = rprod (map (fun d => 1 / d) l).
Proof.
  induction 1 as [|d l Hd Hl IH]; cbn [map rprod fold_right]; [field|].
  unfold rprod in *. rewrite <- IH.
  assert (0 < fold_right Rmult 1 l) by (rewrite <- (map_id l); apply (rprod_pos (fun d => d)); exact Hl).
  field. split; lra.
Qed.

Lemma zip2_repeat_r (L : list R) h :
  map (fun p => snd p - fst p) (zip2 L (repeat h (length L))) = map (Rminus h) L.
Proof. induction L as [|a L IH]; cbn; [reflexivity|]. f_equal. exact IH. Qed.

Lemma zip2_repeat_l (H : list R) l :
  map (fun p => snd p - fst p) (zip2 (repeat l (length H)) H) = map (fun x => x - l) H.
Proof. induction H as [|a H IH]; cbn; [reflexivity|]. f_equal. exact IH. Qed.

Lemma zip2_swap_minus (L H : list R) :
  map (fun p => fst p - snd p) (zip2 H L) = map (fun p => snd p - fst p) (zip2 L H).
Proof. revert H; induction L as [|a L IH]; intros [|b H]; cbn; try reflexivity. f_equal. apply IH. Qed.

Lemma bcast2_minus_bc n (low high : list R) :
  (length low = 1%nat \/ length low = n) -> (length high = 1%nat \/ length high = n) ->
  bc n (bcast2 Rminus high low) = map (fun p => snd p - fst p) (zip2 (bc n low) (bc n high)).
Proof.
  intros Hl Hh.
  destruct high as [|h [|h2 high]].
  - destruct Hh as [Hh|Hh]; [discriminate|]. cbn in Hh. subst n.
    destruct low as [|l [|l2 low]]; reflexivity.
  - destruct low as [|l [|l2 low]].
    + destruct Hl as [Hl|Hl]; [discriminate|]. cbn in Hl. subst n. reflexivity.
    + cbn. clear. induction n; cbn; [reflexivity|f_equal; exact IHn].
    + destruct Hl as [Hl|Hl]; [discriminate|]. subst n.
      cbn [bcast2 bc]. rewrite <- zip2_repeat_r. cbn [map bc]. reflexivity.
  - destruct Hh as [Hh|Hh]; [discriminate|]. subst n.
    destruct low as [|l [|l2 low]].
    + destruct Hl as [Hl|Hl]; discriminate.
    + cbn [bcast2 bc]. rewrite <- zip2_repeat_l. cbn [map bc]. reflexivity.
    + destruct Hl as [Hl|Hl]; [discriminate|].
      cbn [bcast2 bc]. rewrite zip2_swap_minus. cbn [map zip2 bc fst snd]. reflexivity.
Qed.

Lemma zip2_bc_pos n low high :
  Forall (fun p => fst p < snd p) (zip2 (bc n low) (bc n high)) ->
  Forall (fun d => 0 < d) (map (fun p => snd p - fst p) (zip2 (bc n low) (bc n high))).
Proof. intros H. apply Forall_map. eapply Forall_impl; [|exact H]. intros [a b]; cbn; lra. Qed.

(* the repaired formula (fixes/C04_uniform_scalar_bounds.diff) inside the box: ln of the product of 1/(high_i - low_i) *)
Theorem uniform_logpdf_fixed_doc dim low high :
  (length low = 1%nat \/ length low = dim) -> (length high = 1%nat \/ length high = dim) ->
  Forall (fun p => fst p < snd p) (zip2 (bc dim low) (bc dim high)) ->
  uniform_logpdf true dim low high = ln (uniform_pdf dim low high).
Proof.
  intros Hl Hh Hpos. unfold uniform_logpdf, uniform_pdf.
  rewrite (bcast2_minus_bc dim low high Hl Hh).
  rewrite rprod_inv by (apply zip2_bc_pos; exact Hpos).
  rewrite map_map. f_equal. f_equal. apply map_ext. intros [a b]; reflexivity.
Qed.

Theorem uniform_logpdf_doc_guarded fixed dim low high :
  (length low = 1%nat \/ length low = dim) -> (length high = 1%nat \/ length high = dim) ->
  Forall (fun p => fst p < snd p) (zip2 (bc dim low) (bc dim high)) ->
  (fixed = true \/ length low = dim \/ length high = dim) ->
  uniform_logpdf fixed dim low high = ln (uniform_pdf dim low high).
Proof.
  intros Hl Hh Hpos [->|Hv]; [apply uniform_logpdf_fixed_doc; assumption|].
  destruct fixed; [apply uniform_logpdf_fixed_doc; assumption|].
  rewrite <- uniform_logpdf_fixed_doc by assumption.
  unfold uniform_logpdf. f_equal. f_equal. f_equal.
  (* the difference already has dim entries: broadcasting it changes nothing *)
  assert (Hlen : length (bcast2 Rminus high low) = dim \/ dim = 1%nat /\ length (bcast2 Rminus high low) = 1%nat).
  { destruct high as [|h [|h2 high]], low as [|l [|l2 low]]; cbn in *;
      try (destruct Hl as [Hl|Hl]; try discriminate); try (destruct Hh as [Hh|Hh]; try discriminate);
      try (destruct Hv as [Hv|Hv]; try discriminate); subst; cbn; rewrite ?map_length; auto;
      try (left; rewrite zip2_length; cbn; congruence). }
  destruct (bcast2 Rminus high low) as [|a [|b r]] eqn:E; cbn; try reflexivity.
  destruct Hlen as [H|[H _]]; cbn in H; subst dim; reflexivity.
Qed.

Theorem uniform_logpdf_refuted :
  exists dim low high, length low = 1%nat /\ length high = 1%nat /\ dim = 2%nat /\
    Forall (fun p => fst p < snd p) (zip2 (bc dim low) (bc dim high)) /\
    uniform_logpdf false dim low high <> ln (uniform_pdf dim low high).
Proof.
  exists 2%nat, (0 :: nil), (2 :: nil). repeat split; [cbn; repeat constructor; cbn; lra|].
  unfold uniform_logpdf, uniform_pdf, uniform_pdf1. cbn [bc bcast2 map repeat zip2 rprod fold_right].
  intros H. apply ln_inv in H.
  - lra.
  - lra.
  - lra.
Qed.

(* the density of one coordinate integrates to one over its interval *)
Theorem uniform_normalised l h : l < h -> is_RInt (fun _ => uniform_pdf1 (l, h)) l h 1.
Proof.
  intros H. unfold uniform_pdf1.
  evar_last; [apply (is_RInt_const l h (1 / (h - l)))|].
  unfold scal; cbn; unfold mult; cbn. field. lra.
Qed.

(* ---------- Gamma / InverseGamma / Beta: G, Ga, Gb, Gab are the values of the Gamma function ---------- *)
Definition gamma_pdf1 (G sh r x : R) : R := Rpower r sh * Rpower x (sh - 1) * exp (- r * x) / G.
Definition invgamma_pdf1 (G sh l sc x : R) : R := Rpower (x - l) (- sh - 1) * exp (- sc / (x - l)) / (Rpower sc (- sh) * G).
Definition beta_pdf1 (Ga Gb Gab al be x : R) : R := Rpower x (al - 1) * Rpower (1 - x) (be - 1) * Gab / (Ga * Gb).

Lemma ln_Rpower a b : ln (Rpower a b) = b * ln a.
Proof. unfold Rpower. apply ln_exp. Qed.

Lemma Rpower_pos a b : 0 < Rpower a b.
Proof. unfold Rpower. apply exp_pos. Qed.

Theorem gamma_term_doc G sh r x : 0 < G -> gamma_term (ln G, sh, r, x) = ln (gamma_pdf1 G sh r x).
Proof.
  intros HG. unfold gamma_term, gamma_pdf1. unfold Rdiv.
  pose proof (Rpower_pos r sh). pose proof (Rpower_pos x (sh - 1)). pose proof (exp_pos (- r * x)).
  rewrite ln_mult; [|repeat apply Rmult_lt_0_compat; assumption | apply Rinv_0_lt_compat; exact HG].
  rewrite ln_mult; [|apply Rmult_lt_0_compat; assumption | assumption].
  rewrite ln_mult by assumption.
  rewrite !ln_Rpower, ln_exp, ln_Rinv by assumption. lra.
Qed.

Theorem invgamma_term_doc G sh l sc x : 0 < G ->
  invgamma_term (ln G) (sh, l, sc, x) = ln (invgamma_pdf1 G sh l sc x).
Proof.
  intros HG. unfold invgamma_term, invgamma_pdf1. unfold Rdiv at 2.
  pose proof (Rpower_pos (x - l) (- sh - 1)). pose proof (exp_pos (- sc / (x - l))). pose proof (Rpower_pos sc (- sh)).
  assert (0 < Rpower sc (- sh) * G) by (apply Rmult_lt_0_compat; assumption).
  rewrite ln_mult; [|apply Rmult_lt_0_compat; assumption | apply Rinv_0_lt_compat; assumption].
  rewrite ln_mult by assumption. rewrite ln_Rinv by assumption. rewrite ln_mult by assumption.
  rewrite !ln_Rpower, ln_exp. unfold Rdiv. lra.
Qed.

Theorem beta_term_doc Ga Gb Gab al be x : 0 < Ga -> 0 < Gb -> 0 < Gab ->
  beta_term (ln Ga, ln Gb, ln Gab) (al, be, x) = ln (beta_pdf1 Ga Gb Gab al be x).
Proof.
  intros HGa HGb HGab. unfold beta_term, beta_pdf1. unfold Rdiv.
  pose proof (Rpower_pos x (al - 1)). pose proof (Rpower_pos (1 - x) (be - 1)).
  assert (0 < Ga * Gb) by (apply Rmult_lt_0_compat; assumption).
  rewrite ln_mult; [|repeat apply Rmult_lt_0_compat; assumption | apply Rinv_0_lt_compat; assumption].
  rewrite ln_mult; [|apply Rmult_lt_0_compat; assumption | assumption].
  rewrite ln_mult by assumption. rewrite ln_Rinv by assumption. rewrite ln_mult by assumption.
  rewrite !ln_Rpower. lra.
Qed.

(* on the support Rpower is the ordinary power: x^a = exp(a ln x) is how the documented x^(a-1) is read for real a *)
Theorem gamma_logpdf_doc (Gs shape rate x : list R) :
  Forall (fun G => 0 < G) Gs ->
  gamma_logpdf (map ln Gs) shape rate x =
  ln (rprod (map (fun a => let '(G, sh, r, t) := a in gamma_pdf1 G sh r t)
                 (zip4 (bc (length x) Gs) (bc (length x) shape) (bc (length x) rate) x))).
Proof.
  intros HG. unfold gamma_logpdf.
  assert (Hbc : bc (length x) (map ln Gs) = map ln (bc (length x) Gs)).
  { destruct Gs as [|a [|b r]]; cbn; try reflexivity. generalize (length x). intros n. induction n; cbn; congruence. }
  rewrite Hbc. pose proof (bc_Forall _ (length x) _ HG) as HG'.
  revert HG'. generalize (bc (length x) Gs) (bc (length x) shape) (bc (length x) rate). clear.
  intros gs. revert x. induction gs as [|g gs IH]; intros x ss rs HG; cbn [map zip4 rsum rprod fold_right].
  - symmetry; apply ln_1.
  - destruct ss as [|s ss]; [cbn; symmetry; apply ln_1|]. destruct rs as [|r rs]; [cbn; symmetry; apply ln_1|].
    destruct x as [|t x]; [cbn; symmetry; apply ln_1|].
    inversion HG as [|? ? Hg HG']; subst.
    cbn [map zip4 rsum rprod fold_right].
    specialize (IH x ss rs HG'). unfold rsum, rprod in IH. rewrite IH.
    rewrite gamma_term_doc by exact Hg.
    symmetry. apply ln_mult.
    + unfold gamma_pdf1. apply Rdiv_lt_0_compat; [|exact Hg].
      repeat apply Rmult_lt_0_compat; try apply Rpower_pos; apply exp_pos.
    + apply (rprod_pos (fun a : R * R * R * R => let '(G, sh, r0, t0) := a in gamma_pdf1 G sh r0 t0)).
      clear - HG'. revert x ss rs. induction HG' as [|g gs Hg _ IH]; intros x ss rs; cbn; [constructor|].
      destruct ss, rs, x; cbn; try constructor; [|apply IH].
      unfold gamma_pdf1. apply Rdiv_lt_0_compat; [|exact Hg].
      repeat apply Rmult_lt_0_compat; try apply Rpower_pos; apply exp_pos.
Qed.

(* ---------- Lognormal ---------- *)
Theorem lognormal_logpdf_doc gl x : Forall (fun t => 0 < t) x ->
  lognormal_logpdf gl x = gl + rsum (map (fun t => - ln t) x).
Proof.
  intros Hx. unfold lognormal_logpdf.
  assert (Hp : Forall (fun t => 0 < 1 / t /\ - ln t = ln (1 / t)) x).
  { eapply Forall_impl; [|exact Hx]. intros t Ht. split; [apply Rdiv_lt_0_compat; lra|]. rewrite ln_inv_pos by exact Ht. reflexivity. }
  rewrite ln_mult; [|apply exp_pos|].
  - rewrite ln_exp. f_equal. symmetry. apply (ln_rprod (fun t => 1 / t) (fun t => - ln t)). exact Hp.
  - apply rprod_pos. eapply Forall_impl; [|exact Hp]. intros t [H _]; exact H.
Qed.

(* ---------- ModifiedHalfNormal (documented up to its constant) ---------- *)
Definition mhn_doc_kernel1 (al be ga x : R) : R := Rpower x (al - 1) * exp (- be * x * x + ga * x).

Theorem mhn_doc_logpdf_kernel al be ga x :
  mhn_doc_logpdf al be ga x = ln (rprod (map (mhn_doc_kernel1 al be ga) x)).
Proof.
  unfold mhn_doc_logpdf. apply ln_rprod. apply Forall_forall. intros t _.
  unfold mhn_doc_kernel1, mhn_doc_term. split.
  - apply Rmult_lt_0_compat; [apply Rpower_pos | apply exp_pos].
  - rewrite ln_mult; [|apply Rpower_pos | apply exp_pos]. rewrite ln_Rpower, ln_exp. lra.
Qed.

(* the code reads beta and gamma through getters that return alpha *)
Theorem mhn_logpdf_guarded al be ga x : be = al -> ga = al -> mhn_logpdf al be ga x = mhn_doc_logpdf al be ga x.
Proof. intros -> ->. unfold mhn_logpdf, mhn_doc_logpdf, mhn_doc_term, mhn_getter_beta, mhn_getter_gamma. reflexivity. Qed.

Theorem mhn_logpdf_is_alpha_only al be ga x : mhn_logpdf al be ga x = mhn_doc_logpdf al al al x.
Proof. unfold mhn_logpdf, mhn_doc_logpdf, mhn_doc_term, mhn_getter_beta, mhn_getter_gamma. reflexivity. Qed.

(* not "up to a constant" either: the difference to the documented log-kernel varies with x *)
Theorem mhn_logpdf_refuted :
  exists al be ga x1 x2, 0 < al /\ 0 < be /\ 0 < x1 /\ 0 < x2 /\
    mhn_logpdf al be ga (x1 :: nil) - mhn_doc_logpdf al be ga (x1 :: nil) <> mhn_logpdf al be ga (x2 :: nil) - mhn_doc_logpdf al be ga (x2 :: nil).
Proof.
  exists 2, 3, (-1), 1, 2. repeat split; try lra.
  unfold mhn_logpdf, mhn_doc_logpdf, mhn_doc_term, mhn_getter_beta, mhn_getter_gamma. cbn [map rsum fold_right]. lra.
Qed.

(* ---------- Markov random fields: products over the finite differences dd = D (x - location) ---------- *)
Theorem lmrf_logpdf_doc scale dd : 0 < scale ->
  lmrf_logpdf scale dd = ln (rprod (map (fun t => laplace_pdf1 scale (0, t)) dd)).
Proof.
  intros Hs.
  rewrite <- (ln_rprod (fun t => laplace_pdf1 scale (0, t)) (fun t => - (ln 2 + ln scale) - Rabs t / scale)).
  2:{ apply Forall_forall. intros t _. split; [apply laplace_pdf1_pos; exact Hs|].
      rewrite <- laplace_term_ln by exact Hs. rewrite Rminus_0_r.
      replace (/ 2 / scale) with (/ (2 * scale)) by (field; lra).
      rewrite ln_Rinv, ln_mult by lra. reflexivity. }
  unfold lmrf_logpdf. induction dd as [|t dd IH]; cbn [map rsum fold_right length].
  - cbn. unfold Rdiv. lra.
  - rewrite S_INR. unfold rsum, Rdiv in *. lra.
Qed.

Theorem lmrf_pdf_doc scale dd : 0 < scale ->
  lmrf_pdf scale dd = rprod (map (fun t => laplace_pdf1 scale (0, t)) dd).
Proof.
  intros Hs. unfold lmrf_pdf. induction dd as [|t dd IH]; cbn [map rsum rprod fold_right length pow].
  - unfold Rdiv. rewrite Ropp_0, Rmult_0_l, exp_0. lra.
  - unfold rprod, rsum in *. rewrite <- IH. unfold laplace_pdf1. rewrite Rminus_0_r.
    replace (- (Rabs t + fold_right Rplus 0 (map Rabs dd)) / scale)
      with (- Rabs t / scale + - fold_right Rplus 0 (map Rabs dd) / scale) by (field; lra).
    rewrite exp_plus. ring.
Qed.

Theorem cmrf_logpdf_doc scale dd : 0 < scale ->
  cmrf_logpdf scale dd = ln (rprod (map (fun t => cauchy_pdf1 (0, scale, t)) dd)).
Proof.
  intros Hs.
  rewrite <- (ln_rprod (fun t => cauchy_pdf1 (0, scale, t)) (fun t => - ln PI + (ln scale - ln (t ^ 2 + scale ^ 2)))).
  2:{ apply Forall_forall. intros t _. split; [apply cauchy_pdf1_pos; exact Hs|].
      unfold cauchy_pdf1. rewrite Rminus_0_r. pose proof PI_RGT_0. pose proof (pow2_ge_0 t). assert (0 < scale ^ 2) by nra.
      replace (1 / (PI * scale * (1 + t ^ 2 / scale ^ 2))) with (scale / (PI * (t ^ 2 + scale ^ 2))) by (field; lra).
      unfold Rdiv. rewrite ln_mult; [|lra|apply Rinv_0_lt_compat; apply Rmult_lt_0_compat; lra].
      rewrite ln_Rinv by (apply Rmult_lt_0_compat; lra). rewrite ln_mult by lra. lra. }
  unfold cmrf_logpdf. rewrite rsum_map_add, rsum_map_const. lra.
Qed.

(* GMRF: Gaussian kernel of every difference with precision prec, plus a constant that does not depend on x *)
Theorem gmrf_logpdf_doc rank prec detarg dd :
  gmrf_logpdf rank prec detarg dd =
  / 2 * (INR rank * (ln prec - ln (2 * PI)) + ln detarg) + ln (rprod (map (fun t => exp (- / 2 * prec * t ^ 2)) dd)).
Proof.
  unfold gmrf_logpdf.
  rewrite <- (ln_rprod (fun t => exp (- / 2 * prec * t ^ 2)) (fun t => - / 2 * prec * t ^ 2)).
  2:{ apply Forall_forall. intros t _. split; [apply exp_pos | rewrite ln_exp; reflexivity]. }
  assert (E : - / 2 * (prec * rsum (map (fun t => t * t) dd)) = rsum (map (fun t => - / 2 * prec * t ^ 2) dd)).
  { induction dd as [|t dd IH]; cbn [map rsum fold_right]; [lra|]. unfold rsum in *. rewrite <- IH. ring. }
  lra.
Qed.

(* zero boundary condition, full rank: with detarg = det(D^T D) this is the Gaussian N(mean, (prec D^T D)^-1) in canonical form *)
Theorem gmrf_is_gauss_canon rank prec detarg dd : 0 < prec -> 0 < detarg ->
  gmrf_logpdf rank prec detarg dd =
  gauss_canon rank (- (INR rank * ln prec + ln detarg)) (prec * rsum (map (fun t => t * t) dd)).
Proof.
  intros Hp Hd. unfold gmrf_logpdf, gauss_canon, gauss_logupdf. lra.
Qed.

(* ---------- the un-normalised density differs from the normalised one by a constant in x ---------- *)
Theorem gauss_unnormalised_constant rank logdet q1 q2 :
  gauss_canon rank logdet q1 - gauss_logupdf q1 = gauss_canon rank logdet q2 - gauss_logupdf q2.
Proof. unfold gauss_canon. lra. Qed.

Theorem gauss_unnormalised_constant_value rank logdet q :
  gauss_canon rank logdet q - gauss_logupdf q = - / 2 * (INR rank * ln (2 * PI) + logdet).
Proof. unfold gauss_canon. lra. Qed.
