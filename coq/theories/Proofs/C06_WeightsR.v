(* C06 -- the weight certificate of the UGLA model, read over the reals, IS the documented weight:
   s >= 0 and s^4 ((D(x-loc))_i^2 + beta) = 1   <->   s^2 = 1 / sqrt((D(x-loc))_i^2 + beta),
   so W.sqrt() = diag(s) and W = diag(1/sqrt((D(x_k - loc))^2 + beta)) as in the docstring / paper. *)
From Coq Require Import Reals Lra.
Local Open Scope R_scope.

Lemma weight_certificate_real (d beta s : R) :
  0 < beta -> 0 <= s -> (s * s) * (s * s) * (d * d + beta) = 1 -> s * s = 1 / sqrt (d * d + beta).
Proof.
  intros Hb Hs E.
  assert (Ht : 0 < d * d + beta) by nra.
  assert (Hq : 0 < sqrt (d * d + beta)) by (apply sqrt_lt_R0; exact Ht).
  assert (Hw : 0 <= s * s) by nra.
  (* (s^2 * sqrt t)^2 = 1 with s^2 * sqrt t >= 0, hence s^2 * sqrt t = 1 *)
  assert (E2 : (s * s * sqrt (d * d + beta)) * (s * s * sqrt (d * d + beta)) = 1).
  { replace ((s * s * sqrt (d * d + beta)) * (s * s * sqrt (d * d + beta)))
      with ((s * s) * (s * s) * (sqrt (d * d + beta) * sqrt (d * d + beta))) by ring.
    rewrite sqrt_sqrt by lra. exact E. }
  assert (P : 0 <= s * s * sqrt (d * d + beta)) by (apply Rmult_le_pos; lra).
  assert (One : s * s * sqrt (d * d + beta) = 1) by nra.
  unfold Rdiv. rewrite Rmult_1_l. apply Rmult_eq_reg_r with (sqrt (d * d + beta)); [|lra].
  rewrite Rinv_l by lra. exact One.
Qed.

Lemma weight_certificate_real_conv (d beta s : R) :
  0 < beta -> s * s = 1 / sqrt (d * d + beta) -> (s * s) * (s * s) * (d * d + beta) = 1.
Proof.
  intros Hb E.
  assert (Ht : 0 < d * d + beta) by nra.
  assert (Hq : 0 < sqrt (d * d + beta)) by (apply sqrt_lt_R0; exact Ht).
  rewrite E. unfold Rdiv. rewrite !Rmult_1_l.
  rewrite <- (sqrt_sqrt (d * d + beta)) at 3 by lra. field. lra.
Qed.

From CV Require Import Base.Tac Base.LinAlg Model.C06_RTO.

(* the model's certificate law at the reals: every certified sw is the square root of the documented weight vector *)
Theorem weight_law_documented (D : list (list R)) (z : list R) (beta : R) (sw : list R) :
  0 < beta -> Forall (fun s => 0 <= s) sw ->
  weight_law R 0 1 Rplus Rmult D z beta sw ->
  Forall2 (fun d s => s * s = 1 / sqrt (d * d + beta)) (matvec 0 Rplus Rmult D z) sw.
Proof.
  intros Hb Hpos H. unfold weight_law in H.
  induction H as [|d s ds ss E H IH]; [constructor|].
  inversion Hpos as [|? ? Hs Hrest]; subst.
  constructor; [apply weight_certificate_real; assumption | apply IH; exact Hrest].
Qed.

Theorem documented_weight_law (D : list (list R)) (z : list R) (beta : R) (sw : list R) :
  0 < beta ->
  Forall2 (fun d s => s * s = 1 / sqrt (d * d + beta)) (matvec 0 Rplus Rmult D z) sw ->
  weight_law R 0 1 Rplus Rmult D z beta sw.
Proof.
  intros Hb H. unfold weight_law.
  induction H as [|d s ds ss E H IH]; constructor; [apply weight_certificate_real_conv; assumption | exact IH].
Qed.

From CV Require Import Proofs.C06_Lin Proofs.C06_UGLA Proofs.C06_Weights.
From Coq Require Import RealField.

Lemma Forall2_map_eq {A B} (f : A -> B) (g : B -> B) (ds : list A) (ss : list B) :
  Forall2 (fun d s => g s = f d) ds ss -> map g ss = map f ds.
Proof. intros H; induction H; simpl; [reflexivity | f_equal; assumption]. Qed.

(* UGLA over the reals: with any certified sw >= 0 for z = x_k - loc, the prior block of the normal operator is
   D^T diag(1/sqrt((D z)^2 + beta)) D -- the documented weights, for every difference operator D (1-d or 2-d) *)
Theorem ugla_prior_block_documented (c : ugla_cfg R) (z : list R) (beta : R) (sw x : list R) :
  0 < beta -> Forall (fun s => 0 <= s) sw -> length sw = length (g_D c) ->
  weight_law R 0 1 Rplus Rmult (g_D c) z beta sw ->
  DtWD R 0 Rplus Rmult c sw x
  = mattvec 0 Rplus Rmult (g_n c) (g_D c)
      (pmul R Rmult (map (fun d => 1 / sqrt (d * d + beta)) (matvec 0 Rplus Rmult (g_D c) z))
                    (matvec 0 Rplus Rmult (g_D c) x)).
Proof.
  intros Hb Hpos Hlen HW.
  rewrite (DtWD_weights R 0 1 Rplus Rmult Rminus Ropp RTheory c sw x Hlen).
  f_equal. f_equal.
  apply (Forall2_map_eq (fun d => 1 / sqrt (d * d + beta)) (fun s => s * s)).
  apply weight_law_documented; assumption.
Qed.
