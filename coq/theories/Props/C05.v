(* C05 -- Direct samples follow the distribution's own density and the given random stream.
   Property theorems only: each is closed by `exact <lemma>` and followed by Print Assumptions.
   (The covariance identities for matrices of every size are in Props/C05_mc.v, mathcomp style; the real-valued
   theorems -- generator wiring, ModifiedHalfNormal rejection schemes -- in Props/C05_R.v.)

   FULL STATEMENT (kept here because only parts of it are theorems): "for every samplable family, parameterisation
   and generator state, the draws of sample(N, rng) are distributed according to exp(logd)".  What is proved is its
   pointwise / algebraic content -- offset and covariance of the affine map of standard normals (C05_mc), the density
   of each numpy/scipy generator AS CALLED equals the family's density (C05_wiring_...), change of variables for the
   transformed draws, proposal x acceptance proportional to the target and acceptance <= 1 for the rejection samplers
   (C05_mhn_...), shapes (C05_wrapper_...), RNG isolation (C05_rng_...).  NOT proved: the laws of numpy's generators
   themselves (oracles) and the measure-theoretic step from these identities to "the law of the draws is pi";
   the MHN negative-gamma scheme's acceptance bound (Theorem 4 of Sun et al.) is proved in Props/C05_R.v (C05_mhn_negative_gamma).
   Third deepening round: Props/C05_push.v -- the change of variables in its differential form (`pushes`: bijection of the
   supports, monotone, differentiable inverse, base (ginv x) |ginv' x| = documented pdf x) for the transformation of the base
   variate that produces the draws of Normal, Uniform, Gamma (scale = 1/rate), Laplace, Cauchy, Lognormal, InverseGamma, Beta
   (2-d, _partial) and the MHN sqrt-Gamma proposal, and for chains of such transformations; Props/C05_mc.v -- the exact law of
   the eps-regularised neumann / periodic GMRF draws direction by direction and its explicit distance to the documented one;
   Props/C05_layout.v -- the repaired ModifiedHalfNormal._sample (one row per component, one column per draw). *)
From CV Require Import Base.Tac Base.Cmp Model.C05_Sample Proofs.C05_Sample.
From Coq Require Import QArith.
From Coq Require String.

(* ---------------- the wrapper Distribution.sample ---------------- *)
(* a conditional distribution refuses to sample, whatever N and whatever _sample would return; an unconditional one answers *)
Theorem C05_conditional_refused : forall (N : nat) (s : raw),
  sample_wrap true N s = WRefused /\ sample_wrap false N s <> WRefused.
Proof. intros N s. split; [exact (wrap_conditional_refused N s) | exact (wrap_unconditional_answers N s)]. Qed.
Print Assumptions C05_conditional_refused.

(* one draw (dim x 1 array from _sample): an array with one entry per component -- a single number when dim = 1 *)
Theorem C05_wrapper_shape_single : forall (dim : nat) (m : Qmat), wf_raw dim 1 m ->
  (dim <> 1%nat -> sample_wrap false 1 (Raw2 m) = WArray (qcol m 0) /\ length (qcol m 0) = dim) /\
  (dim = 1%nat -> exists x, m = [[x]] /\ sample_wrap false 1 (Raw2 m) = WScalar x).
Proof. exact wrap_single. Qed.
Print Assumptions C05_wrapper_shape_single.

(* several draws (dim x N): a sample collection holding the array as it is; draw j is column j, one entry per component *)
Theorem C05_wrapper_shape_many : forall (dim N : nat) (m : Qmat), wf_raw dim N m -> N <> 1%nat ->
  sample_wrap false N (Raw2 m) = WSamples (Raw2 m) /\
  forall j, (j < N)%nat -> length (draw (Raw2 m) j) = dim /\
                           forall i, (i < dim)%nat -> nth i (draw (Raw2 m) j) 0%Q = nth j (nth i m []) 0%Q.
Proof. exact wrap_many. Qed.
Print Assumptions C05_wrapper_shape_many.

(* the univariate families return generator(size=(N,dim)).T: draw j is exactly the j-th generated vector *)
Theorem C05_univariate_columns : forall (G : Qmat) (dim j : nat),
  Forall (fun r => length r = dim) G -> (j < length G)%nat -> draw (univariate_raw G) j = nth j G [].
Proof. exact univariate_draw. Qed.
Print Assumptions C05_univariate_columns.

(* REFUTED class (finding GMRF._sample|N=1:neumann-periodic-broadcast): as the code stands one draw from a GMRF with
   neumann/periodic boundary is an n*n array; with the proposed repair, and for the zero boundary, it has n entries *)
Theorem C05_gmrf_single_draw_refuted :
  exists n mean p, (1 < n)%nat /\ length mean = n /\ length p = n /\
    has_shape n n (gmrf_raw1 false Neumann n mean p) = true /\
    sample_wrap false 1 (Raw2 (gmrf_raw1 false Neumann n mean p)) = WArray (concat (outer_add mean p)) /\
    length (concat (outer_add mean p)) = (n * n)%nat /\
    sample_wrap false 1 (Raw2 (gmrf_raw1 true Neumann n mean p)) = WArray (qvadd mean p) /\
    sample_wrap false 1 (Raw2 (gmrf_raw1 false Zero n mean p)) = WArray (qvadd mean p).
Proof. exact gmrf_single_draw_refuted. Qed.
Print Assumptions C05_gmrf_single_draw_refuted.

(* ---------------- RNG isolation ---------------- *)
(* if every RNG call site reachable when a generator is given draws from that generator (the fact re-extracted from the
   source and re-proved in coq/gen/Gen_C05.v on every run), then for every control flow through those sites the values
   drawn and the generator's final position do not depend on the global stream, and the global position is unchanged *)
Theorem C05_rng_isolated : forall (sites : list site) fuel (g1 g2 r : stream) ctrl x,
  isolated sites = true -> (forall h s, ctrl h = Some s -> In s sites) ->
  outs (run fuel true g1 r ctrl x) = outs (run fuel true g2 r ctrl x) /\
  rpos (run fuel true g1 r ctrl x) = rpos (run fuel true g2 r ctrl x) /\
  gpos (run fuel true g1 r ctrl x) = gpos x.
Proof. exact rng_isolated. Qed.
Print Assumptions C05_rng_isolated.

Theorem C05_rng_deterministic : forall (sites : list site) fuel (g1 g2 r1 r2 : stream) ctrl x,
  isolated sites = true -> (forall h s, ctrl h = Some s -> In s sites) -> (forall k, r1 k = r2 k) ->
  outs (run fuel true g1 r1 ctrl x) = outs (run fuel true g2 r2 ctrl x).
Proof. exact rng_deterministic. Qed.
Print Assumptions C05_rng_deterministic.

(* REFUTED class (finding UserDefinedDistribution._sample|rng-ignored): a site calling a user callable that cannot
   receive rng is not isolated and its draws do depend on the global stream *)
Theorem C05_rng_user_defined_refuted :
  exists g1 g2 r x s, isolated [s] = false /\ s_src s = SOpaque /\
    outs (run 1 true g1 r (fun _ => Some s) x) <> outs (run 1 true g2 r (fun _ => Some s) x).
Proof. exact opaque_not_isolated. Qed.
Print Assumptions C05_rng_user_defined_refuted.

(* ---------------- Gaussian._sample: solver selection ---------------- *)
(* outside the triangular branch (sparse -> spsolve, general -> solve) the solver inverts the stored square root itself;
   with the proposed repair so does the triangular branch on an exactly lower-triangular matrix: then S T = I and
   Props/C05_mc.v gives T T^T = (S^T S)^-1 *)
Theorem C05_gaussian_solver_selection : forall (fixed sparse : bool) (S : Qmat),
  (gauss_branch sparse S <> BTri -> gauss_eff fixed sparse S = S) /\
  (exactly_lower S -> gauss_eff true sparse S = S).
Proof. intros. split; [exact (gauss_eff_not_tri fixed sparse S) | exact (gauss_eff_fixed_lower sparse S)]. Qed.
Print Assumptions C05_gaussian_solver_selection.

(* REFUTED class (finding Gaussian._sample|sqrtprec:lower-tri-nondiag): for S = [[1,0],[1,1]] the code as it stands
   reads only the upper triangle, the model accepts T = I, and T T^T = I is not the inverse of S^T S; the repaired
   selection rejects T = I and accepts S^-1, whose covariance matches *)
Theorem C05_gaussian_lower_tri_refuted :
  exists (S T : Qmat) (mean off : Qvec),
    is_lower S = true /\ tril S = S /\ triu S <> S /\
    gauss_ok false false mean S off T = true /\
    cov_matches tol6 1 (qmm (qtr S) S) T = false /\
    gauss_ok true false mean S off T = false /\
    gauss_ok true false mean S off [[1; 0]; [-1; 1]]%Q = true /\
    cov_matches tol6 1 (qmm (qtr S) S) [[1; 0]; [-1; 1]]%Q = true.
Proof. exact gauss_lower_tri_refuted. Qed.
Print Assumptions C05_gaussian_lower_tri_refuted.

(* REFUTED class (finding Gaussian._sample|sqrtprec:tiny-entries-judged-triangular; fix proposed): the triangularity test has an
   absolute tolerance, so the full matrix 2^-30 [[2,1],[1,1]] counts as lower triangular, only its lower triangle is inverted
   and the covariance is wrong; at scale 1 the same matrix takes the general solve, and with an exact test it does at every scale *)
Theorem C05_gaussian_tiny_scale_refuted :
  let c : Q := 1 # 1073741824 in
  let S1 : Qmat := [[2; 1]; [1; 1]]%Q in
  exists (T : Qmat) (mean off : Qvec),
    let S := qmscale c S1 in
    is_lower S = true /\ tril S <> S /\
    gauss_ok true false mean S off T = true /\
    cov_matches tol6 1 (qmm (qtr S1) S1) (qmscale c T) = false /\
    gauss_branch false S1 = BGeneral /\
    gauss_ok_exact false mean S off (qmscale (/ c) [[1; -1]; [-1; 2]]%Q) = true /\
    cov_matches tol6 1 (qmm (qtr S1) S1) [[1; -1]; [-1; 2]]%Q = true.
Proof. exact gauss_tiny_scale_refuted. Qed.
Print Assumptions C05_gaussian_tiny_scale_refuted.

(* REFUTED class (finding GMRF._sample|periodic:dft-eigenvalue-pairing, `fixed` by /repo commit e7f8cb4): the configuration
   GMRF(zeros(4),1,'periodic') as built by the code BEFORE the repair passes the model of the DFT sampler, and the covariance of
   its draws is not a generalised inverse of the precision P = D^T D of its own density.  The repaired code draws periodic
   fields by the neumann construction; that path is the one the correspondence evaluates now (check_gmrf_neumann with the
   model-computed periodic stencil, check_eps_law) and C05_gmrf_neumann_cov_eps / C05_gmrf_eps_law (Props/C05_mc.v) apply to it;
   the DFT model is evaluated only on a tree where the repair is reverted. *)
Theorem C05_gmrf_periodic_cov_refuted :
  exists n mean prec r P D Fre Fim ev w off T,
    gmrf_periodic_ok n mean prec r P D Fre Fim ev w off T = true /\
    qll_eqb (qmm (qtr D) D) P = true /\
    cov_matches tol6 prec P T = false.
Proof. exact gmrf_periodic_refuted. Qed.
Print Assumptions C05_gmrf_periodic_cov_refuted.

(* ---------------- the arithmetic of the executable checks ---------------- *)
(* the model's optimised dot product (common denominator, integer arithmetic, zeros skipped) is the textbook recursion
   a1*b1 + (a2*b2 + ...) -- the recursion `ldot` for which Props/C05_mc.v proves the covariance theorems over any field --
   and every entry of the model's matrix product is that sum *)
Theorem C05_qdot_is_dot : forall x y : Qvec, (qdot x y == qdot_ref x y)%Q.
Proof. exact qdot_is_dot. Qed.
Print Assumptions C05_qdot_is_dot.

Theorem C05_qmm_entry : forall (A B : Qmat) (i j : nat),
  (nth j (nth i (qmm A B) []) 0 == nth j (nth i (map (fun r => map (fun c => qdot_ref r c) (qtr B)) A) []) 0)%Q.
Proof. exact qmm_entry. Qed.
Print Assumptions C05_qmm_entry.

(* what an accepted EXACT correspondence cell establishes, in terms of textbook sums: S T = T S = I entrywise and
   offset = mean -- the hypotheses of the covariance theorems (with == on Q for = in a field) for the very instance that ran *)
Theorem C05_exact_cell_sound : forall (mean : Qvec) (S : Qmat) (off : Qvec) (T : Qmat),
  check_gauss_exact mean S off T = true ->
  (forall i j, (nth j (nth i (textbook_mm S T) []) 0 == nth j (nth i (qid (length S)) []) 0)%Q) /\
  (forall i j, (nth j (nth i (textbook_mm T S) []) 0 == nth j (nth i (qid (length S)) []) 0)%Q) /\
  (forall j, (nth j off 0 == nth j (bmean (length S) mean) 0)%Q).
Proof. exact exact_cell_sound. Qed.
Print Assumptions C05_exact_cell_sound.

(* ---------------- non-vacuity ---------------- *)
Example C05_example :
  (gauss_branch false [[2; 1]; [0; 1]]%Q = BGeneral /\
   gauss_ok false false [1; 2]%Q [[2; 1]; [0; 1]]%Q [1; 2]%Q [[1 # 2; -1 # 2]; [0; 1]]%Q = true /\
   cov_matches tol6 1 (qmm (qtr [[2; 1]; [0; 1]]%Q) [[2; 1]; [0; 1]]%Q) [[1 # 2; -1 # 2]; [0; 1]]%Q = true) /\
  sample_wrap false 2 (Raw2 [[1; 2]; [3; 4]; [5; 6]]%Q) = WSamples (Raw2 [[1; 2]; [3; 4]; [5; 6]]%Q) /\
  draw (Raw2 [[1; 2]; [3; 4]; [5; 6]]%Q) 1 = [2; 4; 6]%Q.
Proof.
  split; [exact gauss_general_example|]. split; vm_compute; reflexivity.
Qed.
