(* C08 -- the law of the current state after one doubling: top-level acceptance min(1, n'/n)
   followed by the uniform choice inside the new half. *)
From CV Require Import Base.Tac Base.Ext Model.C08_NUTS Proofs.C08_Prog Proofs.C08_Tree Proofs.C08_Top.
From Coq Require Import QArith Qabs Qminmax Lqa Qfield.

Section Law.
Variable S : Type.
Variable leap : bool -> S -> S.
Variable ham : S -> ext.
Variable lgd : S -> ext.
Variable uturn_ok : S -> S -> bool.
Variable alpha : S -> Q.
Variable logu : ext.
Variable eqb : S -> S -> bool.

Notation build := (build S leap ham uturn_ok alpha logu).
Notation doubling_dir := (doubling_dir S leap ham lgd uturn_ok alpha logu).
Notation finite_logd := (finite_logd S lgd).
Notation dir_skel := (dir_skel S leap ham uturn_ok alpha logu).
Notation dir_start := (dir_start S).
Notation top := (top S).

Definition cur_ind (k : S) (st : top) : Q := if eqb (p_cur st) k then 1 else 0.

(* the law before it is multiplied by n': stay with probability 1 - a, otherwise the sub-sampled candidate *)
Theorem doubling_dir_law0 guard (st : top) v k :
  let d := dir_skel st v in
  let a := acc_prob (k_n S d) (p_n st) in
  k_ok S d = true ->
  (guard = false \/ Forall (fun s => finite_logd s = true) (k_leaves S d)) ->
  dist (doubling_dir guard st v) (cur_ind k)
  == (1 - a) * cur_ind k st + a * selp S leap ham uturn_ok alpha logu eqb (dir_start st v) v (p_j st) k.
Proof.
  intros d a Hok Hfin. unfold C08_NUTS.doubling_dir. rewrite dist_bind.
  assert (E : dist (build (dir_start st v) v (p_j st))
                (fun t => dist (if t_ok t
                                then Flip false (acc_prob (t_n t) (p_n st))
                                       (fun b => Ret (top_update uturn_ok st v t (b && (if guard then finite_logd (t_sel t) else true))))
                                else Ret (top_update uturn_ok st v t false)) (cur_ind k))
              == dist (build (dir_start st v) v (p_j st)) (fun t => (1 - a) * cur_ind k st + a * ind S eqb k t)).
  { apply (dist_ext_out (fun t => skel_of S t = d /\ In (t_sel t) (t_leaves t))).
    - apply all_out_and; [apply build_skel | apply build_sel_leaf].
    - intros t [K L]. apply skel_fields in K. destruct K as (_ & _ & N & O & _ & _ & LL & _).
      rewrite O, Hok. cbn [dist].
      assert (G : (if guard then finite_logd (t_sel t) else true) = true).
      { destruct Hfin as [-> | F]; [reflexivity|]. destruct guard; [|reflexivity].
        rewrite Forall_forall in F. apply F. rewrite <- LL. exact L. }
      rewrite G, N. fold a. unfold cur_ind, ind. cbn. ring. }
  rewrite E, dist_affine. reflexivity.
Qed.

(* a sub-tree that says stop: the state does not move and the loop is no longer alive *)
Lemma doubling_dir_dead guard (st : top) v (f : top -> Q) :
  k_ok S (dir_skel st v) = false -> (forall st', p_s st' = false -> f st' == 0) ->
  dist (doubling_dir guard st v) f == 0.
Proof.
  intros Hstop Hf. unfold C08_NUTS.doubling_dir. rewrite dist_bind.
  rewrite (dist_ext_out (fun t => skel_of S t = dir_skel st v) _ _ (fun _ => 0)).
  - apply dist_const.
  - apply build_skel.
  - intros t K. apply skel_fields in K. destruct K as (_ & _ & _ & O & _). rewrite O, Hstop. cbn [dist].
    apply Hf. cbn. rewrite O, Hstop. reflexivity.
Qed.

Theorem doubling_dir_law guard (st : top) v k :
  let d := dir_skel st v in
  let a := acc_prob (k_n S d) (p_n st) in
  k_ok S d = true ->
  (guard = false \/ Forall (fun s => finite_logd s = true) (k_leaves S d)) ->
  dist (doubling_dir guard st v) (cur_ind k) * inject_Z (k_n S d)
  == a * inject_Z (occ S ham logu eqb k (k_leaves S d)) + (1 - a) * cur_ind k st * inject_Z (k_n S d).
Proof.
  intros d a Hok Hfin. unfold C08_NUTS.doubling_dir. rewrite dist_bind.
  assert (E : dist (build (dir_start st v) v (p_j st))
                (fun t => dist (if t_ok t
                                then Flip false (acc_prob (t_n t) (p_n st))
                                       (fun b => Ret (top_update uturn_ok st v t (b && (if guard then finite_logd (t_sel t) else true))))
                                else Ret (top_update uturn_ok st v t false)) (cur_ind k))
              == dist (build (dir_start st v) v (p_j st)) (fun t => (1 - a) * cur_ind k st + a * ind S eqb k t)).
  { apply (dist_ext_out (fun t => skel_of S t = d /\ In (t_sel t) (t_leaves t))).
    - apply all_out_and; [apply build_skel | apply build_sel_leaf].
    - intros t [K L]. apply skel_fields in K. destruct K as (_ & _ & N & O & _ & _ & LL & _).
      rewrite O, Hok. cbn [dist].
      assert (G : (if guard then finite_logd (t_sel t) else true) = true).
      { destruct Hfin as [-> | F]; [reflexivity|]. destruct guard; [|reflexivity].
        rewrite Forall_forall in F. apply F. rewrite <- LL. exact L. }
      rewrite G, N. fold a. unfold cur_ind, ind. cbn. ring. }
  rewrite E, dist_affine.
  fold (selp S leap ham uturn_ok alpha logu eqb (dir_start st v) v (p_j st) k).
  pose proof (selp_uniform S leap ham uturn_ok alpha logu eqb (p_j st) (dir_start st v) v k) as U.
  fold (dir_skel st v) in U. fold d in U. rewrite <- U. ring.
Qed.

End Law.
