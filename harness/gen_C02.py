"""C02 -- Metropolis-type kernels accept with exactly the Metropolis-Hastings probability.

Correspondence: single transitions (and short chains) of cuqi.experimental.mcmc.{MH,CWMH,PCN,MALA,ULA}
and cuqi.sampler.{MH,CWMH,pCN,MALA,ULA} under a scripted random stream vs Model/C02_MH.v.
Independent oracle: the MH probability min(1, pi(x')q(x|x') / (pi(x)q(x'|x))) computed from the target in
Fractions and from the proposal law READ OFF the running sampler (mean and gain of the proposal as a
function of the scripted noise, at x and at x'), plus cache/reject invariants and the NaN/-inf rule.
"""
import io, contextlib, math, itertools
from fractions import Fraction
import numpy as np
from common import *

# one physical line: common.run_shards maps coqc's error lines to ENCLOSURE cases assuming a one-line header
IMPORTS = ("From CV Require Import Base.Cmp Base.Ext Model.C02_MH Model.C02_Tune Proofs.C02_Balance Proofs.C02_Measure. "
           "From Coq Require Import QArith Reals Lra List. Import ListNotations. From Interval Require Import Tactic.")
RULE = ("one case = one transition (or one 3-step chain) of one sampler site (10 sites: 5 kernels x 2 interfaces) on one target "
        "(quadratic / quartic user-defined log-densities with optional NaN/-inf/+inf region, cuqi Gaussian posteriors with integer "
        "matrices), dims 1-3, scales scalar/vector/tiny/>1, histories fresh / after warm-up (tuned scale) / after state reload, "
        "log u tie (u=1) / just below / just above the MH threshold / random / u=0; optional constructor arguments (rng= objects, "
        "initial-point styles, callable target + dim, proposal= forms, per-component MH scale, pCN prior forms, tuple target, "
        "magnitudes 2^-20/2^20); every recorded tune() call and the first legacy sample_adapt adaptations (ENCLOSURE); lattice "
        "kernel enumerations; distinct = distinct (site, target, options, state, draws); trivial = zero proposal noise")

F0 = Fraction(0)
HALF = Fraction(1, 2)

SITES = {
    "E.MH":   dict(iface="exp", kind="mh",   sig="experimental.MH.step"),
    "L.MH":   dict(iface="leg", kind="mh",   sig="sampler.MH.single_update"),
    "E.CWMH": dict(iface="exp", kind="cw",   sig="experimental.CWMH.step"),
    "L.CWMH": dict(iface="leg", kind="cw",   sig="sampler.CWMH.single_update"),
    "E.PCN":  dict(iface="exp", kind="pcn",  sig="experimental.PCN.step"),
    "L.pCN":  dict(iface="leg", kind="pcn",  sig="sampler.pCN.single_update"),
    "E.MALA": dict(iface="exp", kind="mala", sig="experimental.MALA.step"),
    "L.MALA": dict(iface="leg", kind="mala", sig="sampler.MALA.single_update"),
    "E.ULA":  dict(iface="exp", kind="ula",  sig="experimental.ULA.step"),
    "L.ULA":  dict(iface="leg", kind="ula",  sig="sampler.ULA.single_update"),
}
SIG_NONFINITE = "|nonfinite-proposal-accepted"
SIG_MEAN = "|nonzero-prior-mean"
SIG_DIM1 = "|dim1-raises"
SIG_PROPMEAN = "|proposal-nonzero-mean"
SIG_NOTCENTRED = "|proposal-not-centred"
SIG_DTYPE = "|initial-point-dtype"
SIG_GRADBUF = "|gradient-buffer-aliased"
SIG_X0ALIAS = "experimental.Sampler.initialize|initial-point-aliased"


# ------------------------------------------------------------------------------------------------
# targets: float implementation handed to CUQIpy, exact Fraction evaluation for the oracle, Coq term
# ------------------------------------------------------------------------------------------------
def fr(v):
    return [frac(float(a)) for a in np.asarray(v, dtype=float).ravel()]


NONFIN = {"nan": float("nan"), "ninf": float("-inf"), "pinf": float("inf")}
COQ_NONFIN = {"nan": "NaN", "ninf": "NInf", "pinf": "PInf"}


class Tgt:
    """spec: {"kind": quad|quart|lin, params..., "hole": None | [k, thr, "nan"|"ninf"|"pinf"]}"""

    def __init__(self, spec):
        self.spec = spec
        self.kind = spec["kind"]
        self.hole = spec.get("hole")
        self.calls = []
        c = spec.get("c", 0)
        self.c = Fraction(int(c[0]), int(c[1])) if isinstance(c, (list, tuple)) else frac(c)
        if self.kind == "quad":
            self.P = np.array(spec["P"], dtype=float)
            self.m = np.array(spec["m"], dtype=float)
            self.dim = len(self.m)
        elif self.kind == "quart":
            self.b = np.array(spec["b"], dtype=float)
            self.dim = len(self.b)
        elif self.kind == "lattice":
            self.W = np.array(spec["W"], dtype=float)          # weights on {0..n-1}^d ; log-density log W, -inf elsewhere
            self.dim = self.W.ndim
        else:
            self.A = np.array(spec["A"], dtype=float)
            self.b = np.array(spec["b"], dtype=float)
            self.lam, self.dele = float(spec["lam"]), float(spec["del"])
            self.m0 = np.array(spec["m0"], dtype=float)
            self.dim = self.A.shape[1]

    # ---- what CUQIpy calls (plain float numpy) ----
    def f(self, x):
        v = self._f(x)
        rt = self.spec.get("ret")
        if rt == "array1":
            return np.array([v])
        if rt == "zerod":
            return np.array(v)
        return v

    def _f(self, x):
        x = np.asarray(x, dtype=float).reshape(-1)
        self.calls.append(x.copy())
        if self.kind == "lattice":
            idx = tuple(int(v) for v in x)
            if any(float(i) != v or i < 0 or i >= n_ for i, v, n_ in zip(idx, x, self.W.shape)):
                return -math.inf
            return float(np.log(self.W[idx]))
        if self.hole is not None and x[self.hole[0]] > self.hole[1]:
            return NONFIN[self.hole[2]]
        if self.kind == "quad":
            d = x - self.m
            return float(self.c) - 0.5 * float(d @ (self.P @ d))
        if self.kind == "quart":
            x2 = x * x
            return -0.25 * float(np.sum(x2 * x2)) + float(self.b @ x)
        raise RuntimeError("lin targets are cuqi objects")

    def g(self, x):
        v = self._g(x)
        if self.spec.get("gradbuf") == "strided":     # a fresh, non-contiguous view on every call
            w = np.zeros(2 * v.size)
            w[::2] = v
            return w[::2]
        if self.spec.get("gradbuf"):           # the adjoint-code pattern: fill and return one persistent work array
            if getattr(self, "_gbuf", None) is None:
                self._gbuf = np.empty_like(v)
            self._gbuf[...] = v
            return self._gbuf
        return v

    def _g(self, x):
        x = np.asarray(x, dtype=float).reshape(-1)
        if self.kind == "quad":
            return -(self.P @ (x - self.m))
        if self.kind == "quart":
            return -(x * x * x) + self.b
        raise RuntimeError("lin targets are cuqi objects")

    # ---- exact (oracle) ----
    def F(self, x):
        """x: list of Fractions.  Returns Fraction or 'nan'/'ninf'/'pinf'."""
        if self.hole is not None and x[self.hole[0]] > frac(self.hole[1]):
            return self.hole[2]
        if self.kind == "quad":
            d = [a - frac(b) for a, b in zip(x, self.m)]
            Pd = [sum(frac(self.P[i][j]) * d[j] for j in range(self.dim)) for i in range(self.dim)]
            return self.c - HALF * sum(a * b for a, b in zip(d, Pd))
        if self.kind == "quart":
            return -Fraction(1, 4) * sum(a ** 4 for a in x) + sum(frac(b) * a for a, b in zip(x, self.b))
        r = [sum(frac(self.A[i][j]) * x[j] for j in range(self.dim)) - frac(self.b[i]) for i in range(len(self.b))]
        d = [a - frac(b) for a, b in zip(x, self.m0)]
        return self.c - frac(self.lam) / 2 * sum(a * a for a in r) - frac(self.dele) / 2 * sum(a * a for a in d)

    def G(self, x):
        if self.kind == "quad":
            d = [a - frac(b) for a, b in zip(x, self.m)]
            return [-sum(frac(self.P[i][j]) * d[j] for j in range(self.dim)) for i in range(self.dim)]
        if self.kind == "quart":
            return [-(a ** 3) + frac(b) for a, b in zip(x, self.b)]
        r = [sum(frac(self.A[i][j]) * x[j] for j in range(self.dim)) - frac(self.b[i]) for i in range(len(self.b))]
        return [-frac(self.lam) * sum(frac(self.A[i][j]) * r[i] for i in range(len(self.b))) - frac(self.dele) * (x[j] - frac(self.m0[j]))
                for j in range(self.dim)]

    def exact_at(self, x):
        """True if every intermediate of f(x) and g(x) (natural evaluation order) is a binary rational with at most 50
        significant bits, so that the float evaluation is exact whatever the association order"""
        ok = [True]

        def t(v):
            d = v.denominator
            if d & (d - 1) or v.numerator.bit_length() > 50 or d.bit_length() > 200:
                ok[0] = False
            return v
        x = [t(a) for a in x]
        if self.kind == "quad":
            d = [t(a - frac(b)) for a, b in zip(x, self.m)]
            Pd = []
            for i in range(self.dim):
                acc = F0
                for j in range(self.dim):
                    acc = t(acc + t(frac(self.P[i][j]) * d[j]))
                Pd.append(acc)
            acc = F0
            for a, b in zip(d, Pd):
                acc = t(acc + t(a * b))
            t(self.c - t(HALF * acc))
        elif self.kind == "quart":
            acc = F0
            for a in x:
                a2 = t(a * a)
                t(a2 * a)
                acc = t(acc + t(a2 * a2))
            acc2 = F0
            for a, b in zip(x, self.b):
                acc2 = t(acc2 + t(frac(b) * a))
            t(t(-Fraction(1, 4) * acc) + acc2)
            for a, b in zip(x, self.b):
                t(-(a ** 3) + frac(b))
        else:
            return False
        return ok[0]

    def coq(self):
        if self.kind == "quad":
            b = "(BQuad %s %s %s)" % (cqmat(self.P), cqvec(self.m), cq(self.c))
        elif self.kind == "quart":
            b = "(BQuart %s)" % cqvec(self.b)
        else:
            b = "(BLin %s %s %s %s %s %s)" % (cqmat(self.A), cqvec(self.b), cq(self.lam), cqvec(self.m0), cq(self.dele), cq(self.c))
        h = "HNo" if self.hole is None else "(HGt %s %s %s)" % (cnat(self.hole[0]), cq(self.hole[1]), COQ_NONFIN[self.hole[2]])
        return "(mkT %s %s)" % (b, h)


def Fval(v):
    """Fraction-or-tag -> float"""
    return NONFIN[v] if isinstance(v, str) else float(v)


def cextF(v):
    return COQ_NONFIN[v] if isinstance(v, str) else "(Fin %s)" % cq(v)


def cstate(x, ld, gr):
    return "(mkSt %s %s %s)" % (cqvec(x), cext(ld), cqvec(gr))


# ------------------------------------------------------------------------------------------------
# drivers of the real implementation
# ------------------------------------------------------------------------------------------------
def _quiet():
    return contextlib.redirect_stdout(io.StringIO())


class Driver:
    """One sampler site on one target.  Natural state lives in the sampler (experimental) or in
    self.cur (legacy: what _sample would pass to single_update)."""

    def __init__(self, site, T, scale, x0, prior=None, opts=None):
        import cuqi
        self.cuqi = cuqi
        self.site, self.info, self.T = site, SITES[site], T
        self.kind, self.iface = self.info["kind"], self.info["iface"]
        self.prior_spec = prior
        self.opts = dict(opts or {})
        self.tune_ok = True
        self.tune_log = []
        self.acc_log = []
        self.xi_seen = []
        self.rng = None
        x0 = np.array(x0, dtype=float)
        self._build_target()
        self._build_sampler(scale, x0)

    # ---- target objects ----
    def _build_target(self):
        cuqi, T = self.cuqi, self.T
        drv = self
        if self.kind == "pcn":
            ps = self.prior_spec

            class SpyGaussian(cuqi.distribution.Gaussian):
                def sample(self, *a, **k):
                    r = super().sample(*a, **k)
                    drv.xi_seen.append(np.array(r, dtype=float).reshape(-1))
                    return r
            class SpyNormal(cuqi.distribution.Normal):
                def sample(self, *a, **k):
                    r = super().sample(*a, **k)
                    drv.xi_seen.append(np.array(r, dtype=float).reshape(-1))
                    return r
            form = ps.get("form", "scalar")
            mdt = int if self.opts.get("int_params") else float
            plain = bool(ps.get("plain"))             # the library's own class, not a recording subclass (exact-type dispatch)
            if form == "normal":            # independent normals given by standard deviations
                cls_ = cuqi.distribution.Normal if plain else SpyNormal
                self.prior = cls_(np.array(ps["mean"], dtype=mdt), np.array(ps["std"], dtype=float), name="x")
            else:
                cov = float(ps["cov"]) if form == "scalar" else np.array(ps["cov"], dtype=float)
                cls_ = cuqi.distribution.Gaussian if plain else SpyGaussian
                self.prior = cls_(np.array(ps["mean"], dtype=mdt), cov, name="x")
            if T.kind == "lin":
                model = cuqi.model.LinearModel(T.A)
                y = cuqi.distribution.Gaussian(model, 1.0 / T.lam, name="y")

                class SpyLik(cuqi.likelihood.Likelihood):
                    def logd(self, *a, **k):
                        T.calls.append(np.array(a[0], dtype=float).reshape(-1))
                        return super().logd(*a, **k)
                self.lik = SpyLik(y, T.b)
            else:
                self.lik = cuqi.likelihood.UserDefinedLikelihood(dim=T.dim, logpdf_func=T.f)
            self.post = cuqi.distribution.Posterior(self.lik, self.prior)
            self.target = (self.lik, self.prior) if (self.opts.get("pcn_tuple") and self.iface == "leg" and T.kind != "lin") else self.post
            self.eval_f = lambda x: float(np.ravel(self.lik.logd(np.asarray(x, dtype=float)))[0])
            self.eval_g = lambda x: np.zeros(0)
        elif T.kind == "lin":
            model = cuqi.model.LinearModel(T.A)
            y = cuqi.distribution.Gaussian(model, 1.0 / T.lam, name="y")
            if T.spec.get("box"):
                # a prior with BOUNDED support: Uniform on a box whose only reachable face is x_k = thr (the hole of the target spec);
                # the posterior log-density is -inf outside, a constant plus the Gaussian log-likelihood inside
                lo, hi = np.full(T.dim, -2.0 ** 20), np.full(T.dim, 2.0 ** 20)
                hi[T.hole[0]] = T.hole[1]
                xpr = cuqi.distribution.Uniform(lo, hi, name="x")
            else:
                xpr = cuqi.distribution.Gaussian(T.m0, 1.0 / T.dele, name="x")

            class SpyPost(cuqi.distribution.Posterior):
                def logd(self, *a, **k):
                    T.calls.append(np.array(a[0], dtype=float).reshape(-1))
                    return super().logd(*a, **k)
            self.target = SpyPost(y.to_likelihood(T.b), xpr)
            self.eval_f = lambda x: float(np.ravel(cuqi.distribution.Posterior.logd(self.target, np.asarray(x, dtype=float)))[0])
            self.eval_g = lambda x: np.array(self.target.gradient(np.asarray(x, dtype=float)), dtype=float).reshape(-1)
        else:
            if self.opts.get("target_form") == "lambda" and self.iface == "leg" and self.kind in ("mh", "cw"):
                self.target = T.f            # plain callable: the sampler wraps it itself and needs dim=
            else:
                self.target = cuqi.distribution.UserDefinedDistribution(dim=T.dim, logpdf_func=T.f, gradient_func=T.g)
            self.eval_f = lambda x: (T._f(x), T.calls.pop())[0]
            self.eval_g = T._g

    def _build_sampler(self, scale, x0):
        cuqi = self.cuqi
        E, Lg = cuqi.experimental.mcmc, cuqi.sampler
        drv = self
        o = self.opts
        if o.get("int_params"):
            sc = np.array([int(v) for v in scale]) if isinstance(scale, (list, tuple, np.ndarray)) else int(scale)
        else:
            sc = np.array(scale, dtype=float) if isinstance(scale, (list, tuple, np.ndarray)) else float(scale)
        d = self.T.dim
        # ---- the declaration style of the initial point ----
        xf = o.get("x0form", "array")
        strided = np.zeros(2 * d)
        strided[::2] = x0
        x0arg = {"array": x0, "list": [float(v) for v in x0], "tuple": tuple(float(v) for v in x0), "none": None,
                 "cuqi": cuqi.array.CUQIarray(x0.copy(), geometry=cuqi.geometry._DefaultGeometry1D(d)),
                 "int": np.array([int(v) for v in x0]), "float32": x0.astype(np.float32), "strided": strided[::2],
                 "scalar": float(x0[0])}[xf]
        if xf == "none":
            x0 = np.ones(d)
        # ---- optional proposal= ----
        kw = {}
        pr = o.get("proposal")
        if pr is not None and self.kind == "mh":
            class SpyProposal(cuqi.distribution.Gaussian):
                def sample(self, *a, **k):
                    r = super().sample(*a, **k)
                    drv.xi_seen.append(np.array(r, dtype=float).reshape(-1))
                    return r
            fam = pr.get("family", "gauss")
            if fam == "gauss":
                cov = float(pr["cov"]) if np.ndim(pr["cov"]) == 0 else np.array(pr["cov"], dtype=float)
                kw["proposal"] = SpyProposal(np.array(pr["mean"], dtype=float), cov)
            else:
                base_ = cuqi.distribution.Uniform if fam == "uniform" else cuqi.distribution.Cauchy

                class SpyFam(base_):
                    def sample(self, *a, **k):
                        r = super().sample(*a, **k)
                        drv.xi_seen.append(np.array(r, dtype=float).reshape(-1))
                        return r
                kw["proposal"] = SpyFam(np.array(pr["p1"], dtype=float), np.array(pr["p2"], dtype=float))
        elif pr is not None and self.kind == "cw":
            if pr == "locscale":
                kw["proposal"] = cuqi.distribution.Normal(mean=lambda location: location, std=lambda scale: scale, geometry=d)
            elif pr == "locscale2x":     # the conditioning variable is called like the sampler attribute but enters through a non-identity map
                kw["proposal"] = cuqi.distribution.Normal(mean=lambda location: location, std=lambda scale: 2 * scale, geometry=d)
            elif pr == "meanstd" and self.iface == "leg":
                kw["proposal"] = cuqi.distribution.Normal(geometry=d)
            elif pr == "callable" and self.iface == "leg":
                kw["proposal"] = lambda x_, s_: np.random.normal(x_, s_)
        # ---- optional rng= (legacy MALA / ULA) ----
        rm = o.get("rng")
        if rm and self.iface == "leg" and self.kind in ("mala", "ula"):
            self.rng = make_rng(rm, o.get("rng_seed", 0))
            kw["rng"] = self.rng
        if o.get("target_form") == "lambda" and self.iface == "leg" and self.kind in ("mh", "cw") and self.T.kind != "lin":
            kw["dim"] = d
        if self.iface == "exp":
            base = {"mh": E.MH, "cw": E.CWMH, "pcn": E.PCN, "mala": E.MALA, "ula": E.ULA}[self.kind]

            class Spy(base):                                   # tune() must leave point and caches alone
                def step(self):
                    a_ = super().step()
                    drv.acc_log.append([int(b) for b in np.ravel(a_)])
                    return a_

                def tune(self, skip_len, update_count):
                    before = drv._snapshot(self)
                    tname = "lambd" if drv.kind == "pcn" else "_scale_temp"
                    rec = None
                    if drv.kind in ("mh", "pcn", "cw"):
                        if drv.kind == "cw":
                            win = self._acc[update_count * skip_len:(update_count + 1) * skip_len]
                        else:
                            win = self._acc[-skip_len:]
                        # the window the adaptation is documented to use, from the harness's own record of the accept flags:
                        # the initial 1 followed by the flags of all COMPLETED iterations (the current step's flag is appended
                        # to _acc only after tune())
                        hist_ = [[1] * (drv.T.dim if drv.kind == "cw" else 1)] + drv.acc_log[:-1]
                        own = hist_[update_count * skip_len:(update_count + 1) * skip_len] if drv.kind == "cw" else hist_[-skip_len:]
                        rec = {"kind": drv.kind, "k": int(update_count) + 1, "dim": drv.T.dim,
                               "window": own, "window_in_sampler": [[int(b) for b in np.ravel(w)] for w in win],
                               "T": int(skip_len), "i": int(update_count),
                               "acc_in_sampler": [[int(b) for b in np.ravel(w)] for w in self._acc],
                               "temp0": np.array(getattr(self, tname), dtype=float).reshape(-1).tolist()}
                    r = super().tune(skip_len, update_count)
                    after = drv._snapshot(self)
                    if not drv._same(before, after):
                        drv.tune_ok = False
                    if rec is not None:
                        rec["temp1"] = np.array(getattr(self, tname), dtype=float).reshape(-1).tolist()
                        rec["scale1"] = np.array(self.scale, dtype=float).reshape(-1).tolist()
                        drv.tune_log.append(rec)
                    return r
            Spy.__name__ = base.__name__
            if o.get("defaults"):
                self.s = Spy(self.target, **kw)                      # every optional argument left at its shipped default
                x0 = np.ones(d)
            else:
                self.s = Spy(self.target, scale=sc, initial_point=x0arg, **kw)
            self.s.initialize()
        else:
            cls = {"mh": Lg.MH, "cw": Lg.CWMH, "pcn": Lg.pCN, "mala": Lg.MALA, "ula": Lg.ULA}[self.kind]
            if o.get("defaults") and self.kind in ("mh", "cw", "pcn"):
                self.s = cls(self.target, **kw)
                x0 = np.ones(d)
            else:
                self.s = cls(self.target, scale=sc, x0=x0arg, **kw)
            self.cur = (x0.copy(), self.eval_f(x0), self.eval_g(x0) if self.kind in ("mala", "ula") else np.zeros(0))
        if o.get("reassign_scale") is not None:          # attribute re-assigned on the live object
            self.s.scale = o["reassign_scale"]
        self.x0arg, self.build_kw = x0arg, kw
        if o.get("x0_overwrite") is not None and isinstance(x0arg, np.ndarray):
            # the caller re-uses ITS array after handing it over (aliasing over time): the sampler must not be affected
            x0arg[...] = np.array(o["x0_overwrite"], dtype=x0arg.dtype)
            if self.iface == "leg":          # the legacy sampler reads x0 when sampling starts: the new content IS its start
                xn = np.array(x0arg, dtype=float)
                self.cur = (xn.copy(), self.eval_f(xn), self.eval_g(xn) if self.kind in ("mala", "ula") else np.zeros(0))
        self.T.calls.clear()

    @staticmethod
    def _snapshot(s):
        out = [np.array(s.current_point, dtype=float).copy()]
        for k in ("current_target_logd", "current_likelihood_logd", "current_target_grad"):
            if hasattr(s, k):
                out.append(np.array(getattr(s, k), dtype=float).copy())
        return out

    @staticmethod
    def _same(a, b):
        return len(a) == len(b) and all(x.shape == y.shape and np.array_equal(x, y, equal_nan=True) for x, y in zip(a, b))

    # ---- state ----
    def scale(self):
        sc = np.array(self.s.scale, dtype=float).reshape(-1)
        if self.kind == "cw" and sc.size != self.T.dim:
            sc = np.broadcast_to(sc, (self.T.dim,)).copy()
        return sc

    def vector_scale(self):
        return self.kind == "mh" and np.size(self.s.scale) > 1

    def state(self):
        """(x, logd, grad) as cached by the sampler"""
        if self.iface == "leg":
            x, ld, gr = self.cur
            return np.array(x, dtype=float).reshape(-1).copy(), float(np.ravel(ld)[0]), np.array(gr, dtype=float).reshape(-1).copy()
        s = self.s
        x = np.array(s.current_point, dtype=float).reshape(-1).copy()
        ld = s.current_likelihood_logd if self.kind == "pcn" else s.current_target_logd
        gr = np.array(s.current_target_grad, dtype=float).reshape(-1).copy() if self.kind in ("mala", "ula") else np.zeros(0)
        return x, float(np.ravel(ld)[0]), gr

    def set_raw(self, x, ld, gr, scale=None):
        x = np.array(x, dtype=float)
        if self.iface == "leg":
            self.cur = (x.copy(), ld, np.array(gr, dtype=float).copy())
        else:
            s = self.s
            s.current_point = x.copy()
            if self.kind == "pcn":
                s.current_likelihood_logd = ld
            else:
                s.current_target_logd = ld
            if self.kind in ("mala", "ula"):
                s.current_target_grad = np.array(gr, dtype=float).copy()
        if scale is not None:
            self.s.scale = np.array(scale, dtype=float) if (self.kind == "cw" or np.size(scale) > 1) else float(np.ravel(scale)[0])

    # ---- histories ----
    def history(self, h):
        """h: {"type": fresh|warmup|reload, "seed": int, "n": int}"""
        if h["type"] == "fresh":
            return
        try:
            if h["type"] == "sibling":
                # a second sampler built from the SAME target / proposal / prior / initial-point objects runs first
                with ScriptedRandom(seed=h["seed"]), _quiet(), np.errstate(all="ignore"):
                    if self.iface == "exp":
                        sib = type(self.s)(self.target, scale=self.s.scale, initial_point=self.x0arg, **self.build_kw)
                        sib.sample(h["n"])
                    else:
                        sib = type(self.s)(self.target, scale=self.s.scale, x0=self.x0arg, **self.build_kw)
                        sib.sample(max(h["n"], 2))
            elif h["type"] == "prestep":
                # one scripted transition that is (almost surely) accepted, on this very sampler object, before the tested one
                self.step(h["zpre"], [1e-300] * max(1, self.T.dim))
            else:
                self._history(h)
        except NameError:            # legacy ULA refuses (raises) when its own run reaches a NaN value: stay at the fresh state
            self.hist_err = True
        except Exception as e:       # noqa -- reported by build_case
            self.hist_exc = "%s: %s" % (type(e).__name__, e)
        self.T.calls.clear()
        self.xi_seen.clear()

    def _history(self, h):
        with ScriptedRandom(seed=h["seed"]), _quiet(), np.errstate(all="ignore"):
            if self.iface == "exp":
                if h["type"] == "warmup":
                    self.s.warmup(h["n"], tune_freq=h.get("tune_freq", 0.1))
                else:                                   # reload: state of ANOTHER sampler object that ran n steps
                    other = Driver(self.site, Tgt(self.T.spec), h["scale2"], h["x02"], prior=self.prior_spec, opts=self.opts)
                    other.s.sample(h["n"])
                    st = other.s.get_state()
                    self.s.set_state(st)
            else:
                if h["type"] == "warmup":               # legacy: adaptation run, then continue from its last state
                    r = self.s.sample_adapt(h["n"])
                else:
                    r = self.s.sample(h["n"])
                x = np.array(r.samples[:, -1], dtype=float)
                ld = float(r.loglike_eval[-1])
                self.cur = (x, ld, self.eval_g(x) if self.kind in ("mala", "ula") else np.zeros(0))
        self.T.calls.clear()
        self.xi_seen.clear()

    # ---- one transition under a scripted stream ----
    def step(self, z, us, commit=True):
        """z: noise (standard-normal slots), us: list of uniforms.  Returns observation dict."""
        T = self.T
        T.calls.clear()
        self.xi_seen.clear()
        z = np.array(z, dtype=float)
        us = list(us)
        rec = {"loc": None, "std": None, "ret": None, "unexpected": []}

        def script(kind, a, k, idx):
            if kind == "randn":
                return z.reshape(a[0], a[1]) if len(a) == 2 and a[0] * a[1] == z.size else z.reshape(-1, 1)
            if kind == "normal":
                loc, std = np.array(a[0], dtype=float), np.array(a[1], dtype=float)
                rec["loc"], rec["std"] = loc.reshape(-1), std.reshape(-1)
                ret = loc + std * z
                rec["ret"] = np.array(ret, dtype=float).reshape(-1)
                return np.array(ret, dtype=float).reshape(a[2]) if len(a) > 2 else ret
            if kind == "rand":
                if a or k:
                    rec["unexpected"].append("rand%r" % (a,))
                return us.pop(0) if us else 0.5
            if kind == "uniform":
                if np.ndim(a[0]) > 0:              # a Uniform(low, high) proposal distribution: noise slots mapped to [0,1]
                    v = np.clip((z + 2.0) / 4.0, 0.0, 1.0)
                    return (np.array(a[0], dtype=float) + (np.array(a[1], dtype=float) - np.array(a[0], dtype=float)) * v).reshape(a[2])
                if len(a) < 2 or float(a[0]) != 0.0 or float(a[1]) != 1.0:
                    rec["unexpected"].append("uniform%r" % (a[:2],))      # the accept draw must be U(0,1)
                u = us.pop(0) if us else 0.5
                return np.full(a[2], u) if len(a) > 2 else u
            rec["unexpected"].append(kind)
            return None
        x0, ld0, gr0 = self.state()
        err = None
        if self.rng is not None:
            self.rng.begin(z, us, rec)
        if isinstance(self.opts.get("proposal"), dict) and self.opts["proposal"].get("family") == "cauchy":
            np.random.seed(int(abs(z[0]) * 1000) + 17)
        with ScriptedRandom(seed=1, script=script) as R, np.errstate(all="ignore"), _quiet():
            try:
                if self.iface == "exp":
                    acc = self.s.step()
                    out = None
                else:
                    if self.kind in ("mala", "ula"):
                        out = self.s.single_update(x0.copy(), ld0, gr0.copy())
                        acc = out[3]
                    else:
                        out = self.s.single_update(x0.copy(), ld0)
                        acc = out[2]
            except Exception as e:                      # noqa
                err = "%s: %s" % (type(e).__name__, e)
                acc, out = None, None
        log = [k for (k, _, _) in R.log]
        us_obs = None
        if self.rng is not None:
            if log:                                   # a sampler given rng= must not touch the global stream
                rec["unexpected"] += ["global:" + k for k in log]
            log = list(self.rng.log)
            us_obs = list(self.rng.us_seen)
        if err is None and self.iface == "leg":
            x1 = np.array(out[0], dtype=float).reshape(-1)
            ld1 = float(np.ravel(out[1])[0])
            gr1 = np.array(out[2], dtype=float).reshape(-1) if self.kind in ("mala", "ula") else np.zeros(0)
            if commit:
                self.cur = (x1.copy(), ld1, gr1.copy())
        elif err is None:
            x1, ld1, gr1 = self.state()
        else:
            x1, ld1, gr1 = x0, ld0, gr0
        return {"acc": acc, "x0": x0, "ld0": ld0, "gr0": gr0, "x1": x1, "ld1": ld1, "gr1": gr1, "err": err,
                "stars": [c.copy() for c in T.calls], "log": log, "loc": rec["loc"], "std": rec["std"], "ret": rec["ret"],
                "xi": self.xi_seen[0].copy() if self.xi_seen else None, "unexpected": rec["unexpected"], "us_obs": us_obs}


class _RngMixin:
    """records every draw made through a user-supplied generator; scripted mode returns loc + std*z and the given u"""
    def begin(self, z, us, rec):
        self.z, self.us, self.rec = np.array(z, dtype=float), list(us), rec
        self.log, self.us_seen = [], []

    def _normal(self, real, loc, std, size):
        loc_a, std_a = np.array(loc, dtype=float), np.array(std, dtype=float)
        self.log.append("normal")
        if self.scripted and self.__dict__.get("z") is not None:
            ret = loc_a + std_a * self.z
            ret = np.array(ret, dtype=float).reshape(size) if size is not None else ret
        else:
            ret = real(loc, std, size)
        rec = self.__dict__.setdefault("rec", {})
        rec["loc"], rec["std"], rec["ret"] = loc_a.reshape(-1), std_a.reshape(-1), np.array(ret, dtype=float).reshape(-1)
        return ret

    def _uniform(self, real, low, high, size):
        self.log.append("uniform")
        if self.scripted and self.__dict__.get("us") is not None:
            u = self.us.pop(0) if self.us else 0.5
            ret = np.full(size, u) if size is not None else u
        else:
            ret = real(low, high, size)
        if float(low) != 0.0 or float(high) != 1.0:
            self.__dict__.setdefault("rec", {}).setdefault("unexpected", []).append("uniform(%r,%r)" % (low, high))
        self.us_seen.append(float(np.ravel(ret)[0]))
        return ret


def make_rng(mode, seed):
    if mode == "generator":
        class RecGen(_RngMixin, np.random.Generator):
            scripted = False

            def normal(self, loc=0.0, scale=1.0, size=None):
                return self._normal(super().normal, loc, scale, size)

            def uniform(self, low=0.0, high=1.0, size=None):
                return self._uniform(super().uniform, low, high, size)
        r = RecGen(np.random.PCG64(seed))
    else:
        class RecRS(_RngMixin, np.random.RandomState):
            scripted = (mode == "scripted")

            def normal(self, loc=0.0, scale=1.0, size=None):
                return self._normal(super().normal, loc, scale, size)

            def uniform(self, low=0.0, high=1.0, size=None):
                return self._uniform(super().uniform, low, high, size)
        r = RecRS(seed)
    r.log, r.us_seen = [], []
    return r


def scratch(drv, scale):
    o = dict(drv.opts)
    if o.get("rng"):
        o["rng"] = "scripted"            # same code path (a generator object is supplied), controllable noise
    o["x0form"] = "array"
    # its own target object: a scratch sampler must not share work buffers (reused gradient array) with the sampler under test
    scr = Driver(drv.site, Tgt(drv.T.spec), scale, np.ones(drv.T.dim), prior=drv.prior_spec, opts=o)
    if o.get("defaults"):
        # a sampler built with every argument at its default starts from the default scale; the mechanism has to be read off at
        # the scale the sampler under test HAS NOW (after warm-up it is the tuned one)
        scr.s.scale = np.array(scale, dtype=float) if (scr.kind == "cw" or np.size(scale) > 1) else float(np.ravel(scale)[0])
    return scr


def propose(scr, x, z):
    """proposal point the sampler `scr` generates from state x under noise z (read off the implementation)"""
    x = np.array(x, dtype=float)
    ld = scr.eval_f(x)
    gr = scr.eval_g(x) if scr.kind in ("mala", "ula") else np.zeros(0)
    scr.T.calls.clear()
    scr.set_raw(x, ld, gr)
    o = scr.step(z, [0.5], commit=False)
    if o["err"] is not None or not o["stars"]:
        return None
    return o["stars"][0]


def mechanism(scr, x):
    """(mu, G): proposal mean and gain w.r.t. the scripted noise at state x"""
    d = scr.T.dim
    mu = propose(scr, x, np.zeros(d))
    if mu is None:
        return None
    cols = []
    for i in range(d):
        e = np.zeros(d)
        e[i] = 1.0
        p = propose(scr, x, e)
        if p is None:
            return None
        cols.append(p - mu)
    return mu, np.array(cols).T


def log_q(y, mu, G):
    S = G @ G.T
    r = np.asarray(y) - mu
    sign, logdet = np.linalg.slogdet(S)
    return -0.5 * float(r @ np.linalg.solve(S, r)) - 0.5 * logdet


# ------------------------------------------------------------------------------------------------
# the oracle: MH probability of the mechanism actually used
# ------------------------------------------------------------------------------------------------
def log_pi(drv, x):
    """target log-density (up to a constant) at float point x, from exact Fractions; 'nan'/'ninf'/'pinf' tags kept"""
    if not np.all(np.isfinite(np.asarray(x, dtype=float))):
        return "nan"
    v = drv.T.F(fr(x))
    if isinstance(v, str):
        return v
    v = float(v)
    if drv.kind == "pcn":
        ps = drv.prior_spec
        d = np.asarray(x, dtype=float) - np.array(ps["mean"], dtype=float)
        v += -0.5 * float(d @ prior_prec(ps) @ d)
    return v


def prior_prec(ps):
    n = len(ps["mean"])
    form = ps.get("form", "scalar")
    if form == "normal":
        return np.diag(1.0 / np.array(ps["std"], dtype=float) ** 2)
    if form == "scalar":
        return np.eye(n) / float(ps["cov"])
    if form == "vector":
        return np.diag(1.0 / np.array(ps["cov"], dtype=float))
    return np.linalg.inv(np.array(ps["cov"], dtype=float))


def true_log_ratio(drv, scr, x, xs):
    """log [pi(x')q(x|x')] - log [pi(x)q(x'|x)] with q read off the implementation; None if not finite/defined"""
    a, b = log_pi(drv, x), log_pi(drv, xs)
    if isinstance(a, str) or isinstance(b, str):
        return None
    m1, m2 = mechanism(scr, x), mechanism(scr, xs)
    if m1 is None or m2 is None:
        return None
    (mu1, G1), (mu2, G2) = m1, m2
    if abs(np.linalg.det(G1)) < 1e-300 or abs(np.linalg.det(G2)) < 1e-300:
        return None
    return b - a + log_q(x, mu2, G2) - log_q(xs, mu1, G1)


def family_logq(pr, t):
    """log-density (independent formulas) of the noise vector t under a Uniform(p1, p2) / Cauchy(p1, p2) proposal distribution"""
    p1, p2 = np.array(pr["p1"], dtype=float), np.array(pr["p2"], dtype=float)
    t = np.asarray(t, dtype=float)
    if pr["family"] == "uniform":
        if np.all(t >= p1 - 1e-12) and np.all(t <= p2 + 1e-12):
            return -float(np.sum(np.log(p2 - p1)))
        return -math.inf
    return -float(np.sum(np.log(math.pi * p2 * (1.0 + ((t - p1) / p2) ** 2))))


def family_log_ratio(drv, pr, x, xs, sc):
    a, b = log_pi(drv, x), log_pi(drv, xs)
    if isinstance(a, str) or isinstance(b, str):
        return None
    fwd = family_logq(pr, (np.asarray(xs) - np.asarray(x)) / sc)
    bwd = family_logq(pr, (np.asarray(x) - np.asarray(xs)) / sc)
    if fwd == -math.inf:
        return None
    return b - a + bwd - fwd


def pick_u(rng, strat, thr, delta=None):
    """uniform whose log sits where `strat` says relative to the log-threshold thr (<= 0)"""
    if strat == "tie":
        return 1.0
    if strat == "zero":
        return 0.0
    if thr is None or strat == "rand":
        return rng.choice([0.03125, 0.25, 0.5, 0.75, 0.96875, 1e-3, 1e-9])
    delta = delta or rng.choice([1e-3, 0.05, 0.5])
    if strat == "below":
        return math.exp(max(thr - delta, -700.0))
    lu = thr + delta                                        # above
    if lu >= 0:
        return 1.0 if thr < -1e-9 else rng.choice([0.5, 0.96875])
    return math.exp(lu)


def close(a, b, tol=1e-9):
    if isinstance(b, str):
        return (b == "nan" and math.isnan(a)) or (b == "ninf" and a == -math.inf) or (b == "pinf" and a == math.inf)
    if math.isnan(a) or math.isinf(a):
        return False
    return abs(a - float(b)) <= tol * (1 + abs(float(b)))


def vclose(a, b, tol=1e-9):
    return len(a) == len(b) and all(close(float(p), q, tol) for p, q in zip(a, b))


def is_bad(v):
    """log-density value that must never be accepted"""
    return v in ("nan", "ninf") if isinstance(v, str) else (math.isnan(v) or v == -math.inf)


# ------------------------------------------------------------------------------------------------
# one case
# ------------------------------------------------------------------------------------------------
_STATE = {}


def guards(ctx):
    """which variant of each site the current tree implements (see known_witnesses): the model is run in that variant;
    the ORACLE does not depend on it."""
    if "g" not in _STATE:
        _STATE["g"] = {site: probe_guard(site) for site in SITES if SITES[site]["kind"] not in ("ula",)}
        _STATE["c"] = {site: probe_centered(site) for site in ("E.PCN", "L.pCN")}
        DIM1_CW[0] = not (_witness_dim1(ctx, "E.CWMH")[0] or _witness_dim1(ctx, "L.CWMH")[0])
    return _STATE


def _probe_T(v):
    return Tgt({"kind": "quad", "P": [[1.0]], "m": [0.0], "c": 0, "hole": [0, 2.0, v]})


def _probe_step(site, v, x0, z, u, mean=0.0):
    T = _probe_T(v)
    kind = SITES[site]["kind"]
    drv = Driver(site, T, 1.0 if kind != "cw" else [1.0, 1.0], x0, prior={"mean": [mean] * len(x0), "cov": 1.0}) if kind != "cw" else None
    if kind == "cw":
        T = Tgt({"kind": "quad", "P": [[1.0, 0.0], [0.0, 1.0]], "m": [0.0, 0.0], "c": 0, "hole": [0, 2.0, v]})
        drv = Driver(site, T, [1.0, 1.0], x0)
    return drv.step(z, [u, u])


def probe_guard(site):
    kind = SITES[site]["kind"]
    two = kind == "cw"
    pad = [0.0] if two else []
    # MALA: x* = x + s/2 grad + xi = x - x/2 + xi (s = 1)
    def go(v, x, target_star):
        if kind == "mala":
            z = target_star - (x - 0.5 * x)
        elif kind == "pcn":
            z = target_star                                  # s = 1: x* = xi = z (zero mean, unit covariance)
        else:
            z = target_star - x
        o = _probe_step(site, v, [x] + pad, [z] + pad, 0.5)
        a = o["acc"]
        return bool(np.ravel(a)[0]) if a is not None else None
    t1 = go("nan", 1.0, 3.0)
    t2 = go("ninf", 3.0, 4.0)
    t3 = go("pinf", 1.0, 3.0)
    if t1:
        return "GNone"
    if t2:
        return "GNan"
    if not t3:
        return "GNanInf"
    return "GNone" if t3 and t2 else "GNanInf"


def probe_centered(site):
    T = _probe_T("nan")
    drv = Driver(site, T, 0.5, [1.0], prior={"mean": [2.0], "cov": 1.0})
    o = drv.step([0.5], [0.5])
    xs = o["stars"][0][0]
    a = math.sqrt(0.75)
    unc = a * 1.0 + 0.5 * 2.5
    cen = 2.0 + a * (1.0 - 2.0) + 0.5 * 0.5
    if abs(xs - cen) < 1e-9:
        return True
    return False


KCODE = {"randn": "Krandn", "rand": "Krand", "normal": "Knormal", "uniform": "Kuniform"}


def build_case(ctx, spec):
    """spec fully determines the case (it is the replay meta); returns (Case, info)"""
    site = spec["site"]
    info = SITES[site]
    kind, legacy = info["kind"], info["iface"] == "leg"
    T = Tgt(spec["target"])
    st = guards(ctx)
    opts = spec.get("opts") or {}
    real_rng = opts.get("rng") in ("randomstate", "generator")
    try:
        drv = Driver(site, T, spec["scale"], spec["x0"], prior=spec.get("prior"), opts=opts)
    except ValueError as e:
        pr_ = opts.get("proposal") if isinstance(opts.get("proposal"), dict) else {}
        asym = any(v != 0 for v in pr_.get("mean", [0])) or (pr_.get("family") == "uniform" and any(a_ != -b_ for a_, b_ in zip(pr_["p1"], pr_["p2"])))
        spec = dict(spec, refused=str(e)[:200])
        fail_ = None if asym else "the sampler refused a legitimate configuration: %s" % e
        return Case(expr="true", meta=spec, cell="%s/opt:%s/refused" % (site, spec.get("optcell", "")), kind="DECISION", impl_fail=fail_,
                    signature=(SITES[site]["sig"] + "|refuses-valid-configuration") if fail_ else ""), {"tune_log": []}
    prev_obj = drv.s.current_point if not legacy else None          # keep-alive: the object holding the state before
    drv.history(spec["hist"])
    if getattr(drv, "hist_exc", None):
        spec = dict(spec, raised=drv.hist_exc)
        return Case(expr="true", meta=spec, cell="%s/history-raises" % site, kind="DECISION",
                    impl_fail="%s history (%s) raised %s" % (site, spec["hist"]["type"], drv.hist_exc),
                    signature=info["sig"] + "|raises"), {"tune_log": []}
    if opts.get("reassign_proposal") and kind == "mh":
        # validation clauses must hold in every life-cycle state: the proposal is replaced on the LIVE sampler
        import cuqi as _cq
        d_ = T.dim
        newp = _cq.distribution.Gaussian(np.zeros(d_) if opts["reassign_proposal"] == "valid" else np.array(opts["bad_mean"], dtype=float), 1.0)
        try:
            drv.s.proposal = newp
            refused = False
        except ValueError:
            refused = True
        if opts["reassign_proposal"] == "invalid":
            spec = dict(spec, reassign_refused=refused)
            msg_ = None if refused else ("a proposal with non-zero mean %s was accepted when assigned to the live sampler (it is refused at construction)"
                                         % opts["bad_mean"])
            return Case(expr="true", meta=spec, cell="%s/opt:%s" % (site, spec.get("optcell", "")), kind="DECISION", impl_fail=msg_,
                        signature=(info["sig"] + SIG_PROPMEAN) if msg_ else ""), {"tune_log": []}
        drv.opts = dict(drv.opts, proposal=None)
        opts = dict(opts, proposal=None)
    x0, ld0, gr0 = drv.state()
    if not np.all(np.abs(x0) < 1e4):
        # the unadjusted chain (ULA) diverged during its history run: values of 1e10+ make 1e-9 comparisons meaningless;
        # generator domain: |x| < 1e4 -- restart from the fresh state
        spec = dict(spec, hist=dict(spec["hist"], type="fresh"))
        drv = Driver(site, T, spec["scale"], spec["x0"], prior=spec.get("prior"), opts=opts)
        x0, ld0, gr0 = drv.state()
    sc = drv.scale()
    vscale = drv.vector_scale()
    sc_arg = sc if (kind == "cw" or vscale) else float(sc[0])
    sc_eff = 2.0 * sc if (kind == "cw" and opts.get("proposal") == "locscale2x") else sc      # std the CW proposal is documented to use
    d = T.dim
    spec = dict(spec)
    if spec.get("steer"):
        # aim the first coordinate of the proposal into the region x_0 > 2 (where the log-density is NaN/-inf/+inf)
        s0 = float(sc[0])
        zz = list(spec["z"])
        if kind in ("mh", "cw"):
            need = (2.25 - x0[0]) / s0
        elif kind == "pcn":
            a_ = math.sqrt(max(0.0, 1 - s0 * s0))
            need = ((2.25 - a_ * x0[0]) / s0 - spec["prior"]["mean"][0]) / math.sqrt(spec["prior"]["cov"])
        else:
            need = (2.25 - (x0[0] + 0.5 * s0 * gr0[0])) / math.sqrt(s0)
        zz[0] = math.ceil(need * 4 + 1) / 4
        spec["z"], spec["steer"] = zz, False
    if T.hole is not None and not spec.get("settled"):
        # generator margin: without exact arithmetic keep the proposal's hole coordinate 1e-6 away from the threshold
        k_, thr_ = T.hole[0], T.hole[1]
        scr0 = scratch(drv, float(sc[0])) if kind != "cw" else None
        for _ in range(4):
            zt = np.array(spec["z"], dtype=float)
            pk = (x0[k_] + sc[k_] * zt[k_]) if kind == "cw" else (lambda p_: None if p_ is None else p_[k_])(propose(scr0, x0, zt))
            if pk is None or abs(pk - thr_) > 1e-6:
                break
            zz = list(spec["z"])
            zz[k_] = zz[k_] + 0.25
            spec["z"] = zz
    spec["settled"] = True
    z = np.array(spec["z"], dtype=float)
    fail, sig = None, ""
    notes = []

    def flag(msg, s):
        nonlocal fail, sig
        if site == "E.CWMH" and s in ("|state-cache", "|accept-rule") and opts.get("x0form") in ("int", "float32") \
                and "tune()" not in msg:
            s = SIG_DTYPE
        if opts.get("x0_overwrite") is not None and not legacy and s == "|state-cache" and "before the transition" in msg:
            if fail is None:
                fail, sig = msg + " (the caller overwrote, in place, the array it had passed as initial_point)", SIG_X0ALIAS
            return
        if T.spec.get("gradbuf") and site in ("E.MALA", "E.ULA") and s in ("|state-cache", "|accept-rule") and "tune()" not in msg:
            s = SIG_GRADBUF
        if fail is None:
            fail, sig = msg, info["sig"] + s

    # ---- oracle part 1: the cached values describe the current point (any history) ----
    e0 = T.F(fr(x0))
    if not close(ld0, e0):
        flag("before the transition the cached log-density %r is not the target's value %r at the current point %s (history %s)"
             % (ld0, Fval(e0), x0.tolist(), spec["hist"]["type"]), "|state-cache")
    if kind in ("mala", "ula") and not vclose(gr0, T.G(fr(x0))):
        flag("before the transition the cached gradient %s is not the target's gradient at the current point" % gr0.tolist(), "|state-cache")
    if not drv.tune_ok:
        flag("tune() changed the current point or a cached evaluation", "|state-cache")

    # ---- choose the uniforms ----
    us = spec.get("u")
    rho = None
    scr = None
    exact = bool(spec.get("exact")) and T.exact_at(fr(x0))
    if kind == "ula":
        scr = scratch(drv, float(sc[0]))
        xs_pred = propose(scr, x0, z)
        if xs_pred is not None and not (np.all(np.isfinite(xs_pred)) and np.all(np.abs(xs_pred) <= 1e8)):
            xs_pred = None
        exact = exact and xs_pred is not None and T.exact_at(fr(xs_pred))
    if kind == "cw" and exact:
        for mask in itertools.product([0, 1], repeat=d):
            pt = [frac(float(x0[j])) + frac(float(sc_eff[j])) * frac(float(z[j])) if mask[j] else frac(float(x0[j])) for j in range(d)]
            exact = exact and T.exact_at(pt)
    if kind in ("mh", "pcn", "mala"):
        scr = scratch(drv, sc_arg)
        xs_pred = propose(scr, x0, z)
        if xs_pred is not None and not (np.all(np.isfinite(xs_pred)) and np.all(np.abs(xs_pred) <= 1e8)):
            xs_pred = None
        exact = exact and xs_pred is not None and T.exact_at(fr(xs_pred))
        if exact and kind == "mala":
            s_ = frac(float(sc[0]))
            xq, xsq = fr(x0), fr(xs_pred)
            for (th_s, th_k) in ((xq, xsq), (xsq, xq)):
                gk = T.G(th_k)
                mis = [a - (b + s_ / 2 * c) for a, b, c in zip(th_s, th_k, gk)]
                tot = sum(m_ * m_ for m_ in mis) / s_
                exact = exact and all(is_dyadic_small(m_ * m_, 48) for m_ in mis) and is_dyadic_small(tot, 48)
        thr = None
        pr_ = opts.get("proposal") if isinstance(opts.get("proposal"), dict) else None
        nongauss = kind == "mh" and pr_ is not None and pr_.get("family", "gauss") != "gauss"
        if nongauss:
            exact = False
            if xs_pred is not None:
                rho = family_log_ratio(drv, pr_, x0, xs_pred, sc if vscale else float(sc[0]))
            if rho is not None and not math.isnan(rho):
                thr = min(0.0, rho)
        elif xs_pred is not None and not isinstance(log_pi(drv, x0), str):
            rho = true_log_ratio(drv, scr, x0, xs_pred)
            if rho is not None and not math.isnan(rho):
                thr = min(0.0, rho)
        thr_code = None
        if kind in ("pcn", "mh") and xs_pred is not None:
            a_, b_ = T.F(fr(x0)), T.F(fr(xs_pred))
            if not isinstance(a_, str) and not isinstance(b_, str):
                thr_code = min(0.0, float(b_ - a_))
        if us is None:
            strat = spec["ustrat"]
            if strat == "tie" and not exact and (rho is None or abs(rho) < 1e-6):
                strat = "rand"                              # no exact tie without exact arithmetic
            if strat == "between" and thr is not None and thr_code is not None and abs(thr - thr_code) > 1e-3:
                us = [math.exp(max(0.5 * (thr + thr_code), -700))]
            else:
                us = [pick_u(ctx.rng, "rand" if strat == "between" else strat, thr)]
    elif kind == "cw":
        # sequential thresholds along the oracle's own decisions
        if us is None:
            us = []
            xt = fr(x0)
            cur = T.F(xt)
            for j in range(d):
                xs_ = list(xt)
                xs_[j] = frac(float(float(x0[j]) + float(sc_eff[j]) * float(z[j])))
                new = T.F(xs_)
                thr = None
                if not isinstance(new, str) and not isinstance(cur, str):
                    thr = min(0.0, float(new - cur))
                strat = spec["ustrat"][j % len(spec["ustrat"])] if isinstance(spec["ustrat"], list) else spec["ustrat"]
                if strat == "tie" and not exact and (thr is None or abs(float(new - cur)) < 1e-6):
                    strat = "rand"
                u = pick_u(ctx.rng, strat, thr)
                us.append(u)
                lu = math.log(u) if u > 0 else -math.inf
                ok = (not is_bad(new)) and (thr is None and not isinstance(new, str) or (thr is not None and lu <= thr))
                if ok:
                    xt, cur = xs_, new
    else:
        us = []
    spec["u"] = [float(u) for u in us]
    with np.errstate(all="ignore"):
        logus = [float(np.log(u)) for u in us]

    # ---- the transition ----
    if not legacy:
        prev_obj = drv.s.current_point
        prev_val = np.array(prev_obj, dtype=float).copy()
    o = drv.step(z, us)
    if any((not np.all(np.isfinite(p_))) or np.any(np.abs(p_) > 1e8) for p_ in o["stars"]):
        # generator domain: proposals with non-finite or astronomically large coordinates (heavy-tailed noise, diverging
        # unadjusted chains) have no exact rational value to compare with; the case is dropped as trivial
        return Case(expr="true", meta=_jsonable(dict(spec, dropped="proposal outside |x| <= 1e8")), cell="%s/out-of-domain" % site,
                    trivial=True, kind="DECISION"), {"tune_log": drv.tune_log}
    if not legacy and o["err"] is None and not np.array_equal(np.array(prev_obj, dtype=float).reshape(-1), prev_val.reshape(-1)):
        flag("the transition modified, in place, the array object that held the previous state (recorded samples alias it)", "|state-cache")
    if real_rng and o["err"] is None:
        exact = False
        if o["us_obs"]:
            us = list(o["us_obs"])
            spec["u"] = [float(u) for u in us]
            with np.errstate(all="ignore"):
                logus = [float(np.log(u)) for u in us]
        if kind == "mala" and o["stars"]:
            rho = true_log_ratio(drv, scr, x0, o["stars"][0]) if not isinstance(log_pi(drv, x0), str) else None
    spec["exact"] = exact
    tolq = "0" if exact else "tol9"
    Tc = T.coq()
    logc = clist([KCODE.get(k, "Kuniform") for k in o["log"]])
    bad_log = any(k not in KCODE for k in o["log"]) or bool(o["unexpected"])
    x1, ld1, gr1 = o["x1"], o["ld1"], o["gr1"]
    cell = "%s/%s%s/%s/d%d" % (site, T.kind, "" if T.hole is None else "+" + T.hole[2], spec["hist"]["type"], d)
    if spec.get("optcell"):
        cell = "%s/opt:%s" % (site, spec["optcell"])
    o["tune_log"] = drv.tune_log
    trivial = bool(np.all(z == 0))

    if o["err"] is not None and not (kind == "ula" and legacy):
        flag("transition raised %s" % o["err"], SIG_DIM1 if (kind == "cw" and d == 1) else "|raises")
        return Case(expr="true", meta=spec, cell=cell, kind="DECISION", impl_fail=fail, signature=sig), o

    bad_draw = [t for t in o["unexpected"] if t.startswith("uniform") or t.startswith("rand")]
    if bad_draw:
        flag("the accept/reject uniform is not drawn from U(0,1): %s" % bad_draw, "|accept-draw-not-uniform01")
    # ---- oracle part 2: decision = MH probability; nonfinite never accepted; reject keeps everything ----
    if kind in ("mh", "pcn", "mala"):
        acc = bool(o["acc"])
        xs = o["stars"][0] if o["stars"] else None
        if xs is None:
            flag("the target was not evaluated during the transition", "|accept-rule")
        else:
            e_star = T.F(fr(xs))
            if (is_bad(e_star) or e_star == "pinf") and acc:
                # NaN / -inf: the property's last sentence; +inf: not a density value -- the samplers' documented guard
                # (`not np.isinf`) refuses it, and so does the oracle
                flag("proposal %s with target log-density %s was accepted (current log-density %r, log u = %r)"
                     % (xs.tolist(), e_star, ld0, logus[0]), SIG_NONFINITE)
            elif e0 == "ninf" and not isinstance(e_star, str) and math.isinf(ld0) and ld0 < 0:
                # pi(x) = 0 and pi(x') > 0: the MH ratio is +inf, probability 1 -- the chain must be able to enter the support
                if not acc and logus[0] <= 0:
                    flag("current log-density -inf, proposal %s has finite log-density %r (MH probability 1) but was rejected"
                         % (xs.tolist(), Fval(e_star)), "|zero-density-state-stuck")
            elif rho is not None and not math.isnan(rho) and not isinstance(e_star, str):
                thr = min(0.0, rho)
                lu = logus[0]
                margin = 1e-7 * (1 + abs(thr)) if math.isfinite(thr) else 0.0
                if abs(lu - thr) > margin or (lu == 0.0 and rho > margin):
                    exp_acc = lu <= thr
                    if exp_acc != acc:
                        s_ = "|accept-rule"
                        if kind == "pcn" and any(v != 0 for v in spec["prior"]["mean"]):
                            s_ = SIG_MEAN
                        if kind == "mh" and opts.get("proposal") and any(v != 0 for v in opts["proposal"].get("mean", [0])):
                            s_ = SIG_PROPMEAN
                        if kind == "mh" and opts.get("proposal") and opts["proposal"].get("family", "gauss") != "gauss":
                            s_ = SIG_NOTCENTRED
                        flag("x=%s x'=%s log u=%.12g: MH log-ratio of the proposal actually used = %.12g so the transition must %s, "
                             "the sampler %s" % (x0.tolist(), xs.tolist(), lu, rho, "accept" if exp_acc else "reject",
                                                 "accepted" if acc else "rejected"), s_)
            if acc:
                if not (vclose(x1, fr(xs), 0) and close(ld1, e_star)):
                    flag("after acceptance the state %s / cached log-density %r is not the proposal %s / its target value %r"
                         % (x1.tolist(), ld1, xs.tolist(), Fval(e_star)), "|state-cache")
                if kind == "mala" and not vclose(gr1, T.G(fr(xs))):
                    flag("after acceptance the cached gradient is not the gradient at the new point", "|state-cache")
            else:
                if not (np.array_equal(x1, x0) and (ld1 == ld0 or (math.isnan(ld1) and math.isnan(ld0))) and np.array_equal(gr1, gr0)):
                    flag("after rejection the state or a cached evaluation changed: %s/%r -> %s/%r" % (x0.tolist(), ld0, x1.tolist(), ld1),
                         "|state-cache")
    elif kind == "cw":
        accs = [bool(a) for a in np.ravel(o["acc"])]
        if o["loc"] is None or not np.array_equal(o["loc"], x0) or not np.array_equal(np.broadcast_to(o["std"], (d,)), sc_eff):
            flag("component proposals are not drawn from N(current point, scale^2): loc=%s std=%s" % (o["loc"], o["std"]), "|accept-rule")
        else:
            xt = fr(x0)
            cur = T.F(xt)
            if not close(ld0, cur):
                cur = None
            for j in range(d):
                if cur is None:
                    break
                xs_ = list(xt)
                xs_[j] = frac(float(o["ret"][j]))
                new = T.F(xs_)
                lu = logus[j]
                if (is_bad(new) or new == "pinf") and accs[j]:
                    flag("component %d: proposal %s with target log-density %s was accepted (running log-density %s, log u = %r)"
                         % (j, [float(v) for v in xs_], new, cur, lu), SIG_NONFINITE)
                elif cur == "ninf" and not isinstance(new, str):
                    if not accs[j] and lu <= 0:
                        flag("component %d: running log-density -inf, proposal has finite log-density (MH probability 1) but was rejected" % j,
                             "|zero-density-state-stuck")
                elif not isinstance(new, str) and not isinstance(cur, str):
                    thr = min(0.0, float(new - cur))
                    margin = 1e-7 * (1 + abs(thr))
                    if abs(lu - thr) > margin or (lu == 0.0 and float(new - cur) > margin):
                        if (lu <= thr) != accs[j]:
                            flag("component %d: x=%s proposal value %r log u=%.12g: log pi ratio = %.12g so it must %s, the sampler %s"
                                 % (j, [float(v) for v in xt], float(xs_[j]), lu, float(new - cur), "accept" if lu <= thr else "reject",
                                    "accepted" if accs[j] else "rejected"), "|accept-rule")
                if accs[j]:
                    xt, cur = xs_, new
            if cur is not None and not (vclose(x1, xt, 0) and close(ld1, cur)):
                flag("after the sweep the state %s / cached log-density %r is not the accepted coordinates %s / their target value %r"
                     % (x1.tolist(), ld1, [float(v) for v in xt], Fval(cur)), "|state-cache")
    else:   # ula
        if o["err"] is None:
            acc = bool(o["acc"])
            xs = o["stars"][0] if o["stars"] else None
            e_star = T.F(fr(xs)) if xs is not None else None
            if acc and xs is not None and not (vclose(x1, fr(xs), 0) and close(ld1, e_star) and vclose(gr1, T.G(fr(xs)))):
                flag("after acceptance state/caches are not the proposal and its evaluations", "|state-cache")
            if not acc and not (np.array_equal(x1, x0) and np.array_equal(gr1, gr0)):
                flag("after rejection the state changed", "|state-cache")
            if not legacy and xs is not None and (is_bad(e_star) or e_star == "pinf") and acc:
                flag("ULA accepted a proposal with log-density %s" % e_star, SIG_NONFINITE)

    # ---- the model on the same inputs ----
    g = st["g"].get(site, "GNone")
    if bad_log:
        expr = "false"
    elif kind == "mh":
        xi_in = o["xi"] if (opts.get("proposal") and o["xi"] is not None) else z
        fam_ = (opts.get("proposal") or {}).get("family", "gauss") if isinstance(opts.get("proposal"), dict) else "gauss"
        expr = "%s %s %s %s %s %s %s %s %s %s %s %s %s %s" % (
            "check_mh_v" if vscale else "check_mh",
            tolq, Tc, g, cqvec(sc) if vscale else cq(float(sc[0])), cstate(x0, ld0, gr0), cqvec(xi_in), cext(logus[0]),
            cqvec(o["stars"][0] if o["stars"] else []), cstate(x1, ld1, gr1), cbool(o["acc"]), logc, cbool(legacy),
            cnat({"gauss": 0, "cauchy": 6, "uniform": 7}[fam_]))
    elif kind == "cw":
        expr = "check_cwmh %s %s %s %s %s %s %s %s %s %s %s %s %s" % (
            tolq, Tc, g, cqvec(sc_eff), cstate(x0, ld0, gr0), cqvec(z), clist([cext(l) for l in logus]),
            cqvec(o["loc"] if o["loc"] is not None else []), cqvec(np.broadcast_to(o["std"], (d,)) if o["std"] is not None else []),
            cstate(x1, ld1, gr1), clist([cbool(a) for a in np.ravel(o["acc"])]), logc, cbool(legacy))
    elif kind == "pcn":
        if o["xi"] is None and spec["prior"].get("plain"):
            ps_ = spec["prior"]
            if ps_.get("form") == "normal":
                o["xi"] = o["ret"]
            else:
                o["xi"] = np.array(ps_["mean"], dtype=float) + np.sqrt(np.array(ps_["cov"], dtype=float)) * z
        s_ = float(sc[0])
        a_ = float(np.sqrt(max(1 - s_ ** 2, 0.0)))          # a scale above 1 (never produced by the unchanged tune) must not crash the harness
        expr = "check_pcn %s %s %s %s %s %s %s %s %s %s %s %s %s %s %s %s" % (
            tolq, Tc, cbool(st["c"][site]), g, cq(a_), cq(s_), cqvec(spec["prior"]["mean"]), cstate(x0, ld0, gr0),
            cqvec(o["xi"] if o["xi"] is not None else []), cext(logus[0]), cqvec(o["stars"][0] if o["stars"] else []),
            cstate(x1, ld1, gr1), cbool(o["acc"]), logc, cbool(legacy),
            cnat(5 if spec["prior"].get("form") == "normal" else 2))
    elif kind == "mala":
        expr = "check_mala %s %s %s %s %s %s %s %s %s %s %s %s %s" % (
            tolq, Tc, g, cq(float(sc[0])), cstate(x0, ld0, gr0), cqvec(o["ret"] if o["ret"] is not None else []), cext(logus[0]),
            cq(float(o["std"][0]) if o["std"] is not None else 0), cqvec(o["stars"][0] if o["stars"] else []),
            cstate(x1, ld1, gr1), cbool(o["acc"]), logc, cbool(legacy))
    else:
        obs = "None" if o["err"] is not None else "(Some (%s, %s))" % (cstate(x1, ld1, gr1), cbool(o["acc"]))
        expr = "check_ula %s %s %s %s %s %s %s %s %s" % (
            tolq, Tc, cbool(legacy), cq(float(sc[0])), cstate(x0, ld0, gr0), cqvec(o["ret"] if o["ret"] is not None else []),
            cq(float(o["std"][0]) if o["std"] is not None else 0), obs, logc)
    spec["observed"] = {"scale": sc.tolist(), "x0": x0.tolist(), "ld0": repr(ld0), "acc": np.ravel(o["acc"]).tolist() if o["acc"] is not None else None,
                        "x1": x1.tolist(), "ld1": repr(ld1), "log": o["log"], "mh_log_ratio": rho,
                        "model_variant": {"guard": g, "centered": st["c"].get(site)}}
    return Case(expr=expr, meta=spec, cell=cell, trivial=trivial, kind="EXACT" if spec.get("exact") else "DECISION",
                impl_fail=fail, signature=sig), o


# ------------------------------------------------------------------------------------------------
# generator: the configuration lattice
# ------------------------------------------------------------------------------------------------
def dy(rng, lo, hi, den):
    return rng.randint(lo * den, hi * den) / den


def gen_target(rng, fam, d, hole):
    if fam == "quad":
        while True:
            L_ = [[rng.randint(-2, 2) if j < i else (rng.randint(1, 3) if j == i else 0) for j in range(d)] for i in range(d)]
            P = (np.array(L_) @ np.array(L_).T).tolist()
            if rng.random() < 0.3:
                P = [[P[i][j] / 2 for j in range(d)] for i in range(d)]
            break
        spec = {"kind": "quad", "P": P, "m": [dy(rng, -2, 2, 2) for _ in range(d)], "c": rng.choice([0, -1.5, 2])}
    elif fam == "quart":
        spec = {"kind": "quart", "b": [dy(rng, -2, 2, 2) for _ in range(d)]}
    else:
        k = rng.randint(d, d + 1)
        A = [[rng.randint(-2, 2) for _ in range(d)] for _ in range(k)]
        for i in range(d):
            A[i][i] = A[i][i] or 1
        spec = {"kind": "lin", "A": A, "b": [rng.randint(-3, 3) for _ in range(k)], "lam": rng.choice([1.0, 4.0, 0.25]),
                "m0": [rng.randint(-1, 1) for _ in range(d)], "del": rng.choice([1.0, 0.25, 4.0]), "c": 0}
    spec["hole"] = None if hole is None else [rng.randrange(d) if d > 1 and False else 0, 2.0, hole]
    return spec


def lin_constant(site, tspec, prior):
    """certificate: the additive constant of a cuqi Gaussian target, read from ONE implementation evaluation at a reference point"""
    T = Tgt(dict(tspec, c=0))
    drv = Driver(site, T, 0.5, np.ones(T.dim), prior=prior)
    xr = np.full(T.dim, 0.5)
    v = drv.eval_f(xr)
    return frac(v) - T.F(fr(xr))


DIM1_CW = [True]          # CWMH on one-dimensional targets (possible since fix 94c30bb; probed in run())
HOLE_CLASSES = [None, "star:nan", "star:ninf", "star:pinf", "cur:nan", "cur:ninf"]
USTRATS = ["tie", "below", "above", "rand", "below", "above", "rand", "zero"]


def gen_spec(ctx, site, fam, hc, hist, idx, dim=None):
    rng = ctx.rng
    info = SITES[site]
    kind = info["kind"]
    d = rng.choice([1, 2, 3] if (kind != "cw" or DIM1_CW[0]) else [2, 3])
    if dim is not None:
        d = dim
    hole = None if hc is None else hc.split(":")[1]
    tspec = gen_target(rng, fam, d, hole)
    prior = None
    if kind == "pcn":
        if fam == "lin":
            tspec["del"], tspec["m0"] = 0.0, [0] * d
        mean = [0.0] * d if idx % 3 != 2 else mean_vec(rng, d, "mixed" if (idx % 2 == 0 and d >= 2) else "nonzero", (-3, -1, 2, 3))
        prior = {"mean": mean, "cov": rng.choice([1.0, 4.0, 0.25])}
    # scale
    if kind in ("mh",):
        scale = rng.choice([1.0, 0.5, 0.25, 2.0, 1 / 64, 0.3])
    elif kind == "cw":
        scale = rng.choice([1.0, 0.5, 2.0, 0.3]) if rng.random() < 0.4 else [rng.choice([1.0, 0.5, 0.25, 2.0, 1 / 64]) for _ in range(d)]
    elif kind == "pcn":
        scale = rng.choice([1.0, 0.5, 0.25, 0.6, 0.125, 1 / 64])
    elif kind == "ula":
        scale = rng.choice([0.25, 1 / 16, 0.3, 1 / 64])
    else:
        scale = rng.choice([1.0, 0.25, 1 / 16, 4.0, 0.5, 0.3, 1 / 64])
    # points
    x0 = [dy(rng, -2, 1, 4) for _ in range(d)]
    z = [dy(rng, -2, 2, 4) for _ in range(d)]
    steer = False
    if rng.random() < 0.04:
        z = [0.0] * d
    if hc is not None:
        where = hc.split(":")[0]
        if where == "cur":
            x0[0] = rng.choice([2.25, 3.0, 2.5])
        else:
            # steer the proposal's first coordinate into the region x_0 > 2
            x0[0] = rng.choice([1.0, 1.5, 1.75])
            steer = True                                     # z[0] is fixed in build_case once state and scale are known
    h = {"type": hist, "seed": rng.randint(0, 10 ** 6), "n": rng.choice([10, 20, 30])}
    if hist == "prestep":
        h["zpre"] = [dy(rng, -2, 2, 4) or 0.5 for _ in range(d)]
    if hist == "reload":
        h["scale2"] = scale
        h["x02"] = [dy(rng, -2, 1, 4) for _ in range(d)]
        if hc is not None and hc.startswith("cur"):
            h["x02"][0] = x0[0]
        h["n"] = rng.choice([3, 5, 8])
    ustrat = USTRATS[idx % len(USTRATS)]
    if kind == "pcn" and any(v != 0 for v in prior["mean"]):
        ustrat = "between"
    if kind == "cw":
        ustrat = [USTRATS[(idx + j) % len(USTRATS)] for j in range(d)]
    spec = {"site": site, "target": tspec, "prior": prior, "scale": scale, "x0": x0, "z": z, "hist": h, "ustrat": ustrat,
            "hole_class": hc, "steer": steer}
    return spec


def finalize_spec(ctx, spec):
    """things that need the implementation: lin constant, MALA steering into the hole, exactness flag"""
    site = spec["site"]
    kind = SITES[site]["kind"]
    if spec["target"]["kind"] == "lin":
        c = lin_constant(site, spec["target"], spec.get("prior"))
        spec["target"]["c"] = [c.numerator, c.denominator]
    sc = spec["scale"]
    pow2 = lambda v: v > 0 and frac(v).numerator == 1 or (frac(v).denominator == 1 and (frac(v).numerator & (frac(v).numerator - 1)) == 0)
    pow4 = lambda v: pow2(v) and frac(math.sqrt(v)) ** 2 == frac(v)
    ex = spec["hist"]["type"] == "fresh" and spec["target"]["kind"] in ("quad", "quart")
    if kind in ("mh",):
        ex = ex and (all(pow2(v) for v in sc) if isinstance(sc, list) else pow2(sc))
    elif kind == "cw":
        ex = ex and all(pow2(v) for v in (sc if isinstance(sc, list) else [sc]))
    elif kind == "pcn":
        ex = ex and sc == 1.0 and spec["prior"].get("form", "scalar") == "scalar" and pow4(spec["prior"]["cov"])
    else:
        ex = ex and pow4(sc)
    o_ = spec.get("opts") or {}
    if o_.get("proposal") and kind == "mh":
        ex = False
    if kind == "mh" and isinstance(sc, list):
        ex = ex and all(pow2(v) for v in sc)
    spec["exact"] = bool(ex)
    return spec


def _fix_c(spec):
    return spec


def run(ctx):
    rng = ctx.rng
    cases = []
    st = guards(ctx)
    ctx.note("model variants on this tree: guards %s, centred pCN proposal %s" % (st["g"], st["c"]))
    n_per = ctx.n(5, 40)
    tune_recs = []
    idx = 0
    for site in SITES:
        kind = SITES[site]["kind"]
        fams = ["quad", "quart", "lin"]
        for fam in fams:
            for hc in HOLE_CLASSES:
                if fam == "lin" and hc is not None:
                    continue
                if fam == "quart" and hc not in (None, "star:nan", "star:ninf"):
                    continue
                for hist in ("fresh", "warmup", "reload", "prestep"):
                    if kind == "ula" and SITES[site]["iface"] == "leg" and hist != "fresh" and hc is not None:
                        continue            # legacy ULA raises inside its own sampling loop on NaN
                    reps = n_per if hist == "fresh" else max(1, n_per // 2)
                    for _ in range(reps):
                        idx += 1
                        spec = finalize_spec(ctx, gen_spec(ctx, site, fam, hc, hist, idx))
                        c, ob = build_case(ctx, spec)
                        c.meta = _jsonable(c.meta)
                        cases.append(c)
                        tl = ob.get("tune_log", [])
                        if tl and len(tune_recs) < ctx.n(120, 1200):
                            tune_recs += [(site, tl[0])] + ([(site, tl[-1])] if len(tl) > 1 else [])
    # CWMH with a one-dimensional target (both interfaces)
    for site in ("E.CWMH", "L.CWMH"):
        spec = {"site": site, "target": {"kind": "quad", "P": [[1.0]], "m": [0.0], "c": 0, "hole": None}, "prior": None, "scale": 0.5,
                "x0": [1.0], "z": [0.5], "hist": {"type": "fresh", "seed": 0, "n": 0}, "ustrat": ["rand"], "hole_class": None, "exact": True}
        c, _ = build_case(ctx, spec)
        c.meta = _jsonable(c.meta)
        cases.append(c)
    # L16: a COMPOSITE target whose prior has bounded support (cuqi Posterior = Gaussian likelihood x Uniform prior): a proposal outside
    # the support has posterior log-density -inf and must be rejected, a state outside the support must be left at the first proposal
    # into it (MH probability 1), transitions inside the support follow the likelihood ratio
    for site in ("E.MH", "L.MH", "E.CWMH", "L.CWMH"):
        for hc in ("star:ninf", "cur:ninf", None):
            for _ in range(ctx.n(2, 10)):
                idx += 1
                spec = gen_spec(ctx, site, "lin", hc or "star:ninf", "fresh", idx)
                if hc is None:
                    spec["steer"], spec["hole_class"] = False, None
                    spec["x0"][0] = min(spec["x0"][0], 0.5)
                if hc == "cur:ninf" and _ % 2 == 0:
                    # aim the proposal's first coordinate back INTO the support (x_0 near 1): MH probability 1, must be accepted
                    s0_ = spec["scale"][0] if isinstance(spec["scale"], list) else spec["scale"]
                    spec["z"][0] = -math.ceil(((spec["x0"][0] - 1.0) / s0_) * 4) / 4
                spec["target"]["box"] = True
                spec["target"]["del"], spec["target"]["m0"] = 0.0, [0] * len(spec["x0"])
                spec["optcell"] = "L16:posterior-with-uniform-prior/%s" % (hc or "inside")
                spec["opts"] = {}
                c, ob = build_case(ctx, finalize_spec(ctx, spec))
                c.meta = _jsonable(c.meta)
                cases.append(c)
    oc, trecs = option_cases(ctx)
    cases += oc
    cases += tune_cases(ctx, tune_recs + trecs)
    cases += tune_twin_cases(ctx)
    cases += legacy_adapt_cases(ctx)
    cases += chain_cases(ctx)
    cases += lattice_cases(ctx)
    return Result(cases=cases, rule=RULE,
                  extra={"model_variants": {"guards": st["g"], "pcn_centered": st["c"]}},
                  assumptions=["numpy.random.{randn,normal,rand,uniform} are the only entry points the samplers draw from (scripted; the consumption "
                               "order is compared per case)",
                               "the oracle reads the proposal law off the implementation as (mean, gain) w.r.t. the scripted standard-normal slots and "
                               "assumes numpy's normal(loc,std) has law N(loc,std^2)",
                               "targets: exact rational evaluation in the EXACT cells (dyadic data, power-of-two scales); 1e-9 relative elsewhere; the "
                               "additive constant of cuqi Gaussian targets is a certificate read from one evaluation",
                               "model variant per site (unguarded / NaN-guarded / NaN+inf-guarded accept rule; centred or uncentred pCN proposal) is the one "
                               "the witness replay finds on the tree under test; the oracle is independent of it"])


def _jsonable(o):
    if isinstance(o, dict):
        return {k: _jsonable(v) for k, v in o.items()}
    if isinstance(o, (list, tuple)):
        return [_jsonable(v) for v in o]
    if isinstance(o, Fraction):
        return [o.numerator, o.denominator]
    if isinstance(o, (np.floating,)):
        return float(o)
    if isinstance(o, (np.integer,)):
        return int(o)
    if isinstance(o, np.ndarray):
        return o.tolist()
    if isinstance(o, float) and (math.isnan(o) or math.isinf(o)):
        return repr(o)
    return o


# ------------------------------------------------------------------------------------------------
# optional constructor arguments that select another code path (every cell enumerated; all run in the quick tier)
# ------------------------------------------------------------------------------------------------
def option_cells():
    cells = []
    for site in ("L.MALA", "L.ULA"):
        for mode in ("scripted", "randomstate", "generator"):
            cells.append((site, "rng=" + mode, {"rng": mode}, {}))
    for site in SITES:
        for xf in ("list", "none", "cuqi"):
            cells.append((site, "x0=" + xf, {"x0form": xf}, {}))
    for site in SITES:
        for xf in ("int", "float32", "strided"):
            cells.append((site, "x0=" + xf, {"x0form": xf}, {}))
        cells.append((site, "x0=zeros", {}, {"x0zeros": True}))
        if SITES[site]["kind"] != "cw":
            cells.append((site, "x0=scalar,dim=1", {"x0form": "scalar"}, {"dim": 1}))
        if SITES[site]["kind"] != "pcn":
            for rt in ("array1", "zerod"):
                cells.append((site, "logd-returns=" + rt, {}, {"ret": rt}))
        cells.append((site, "scale-reassigned", {}, {"reassign": True}))
        if SITES[site]["iface"] == "exp":
            cells.append((site, "reload-of-zero-logd", {}, {"zero_reload": True}))
        for nb in (1, 9, 10, 11):
            cells.append((site, "warmup-n=%d" % nb, {}, {"warm_n": nb}))
    for site in SITES:
        k_ = SITES[site]["kind"]
        cells.append((site, "L15:caller-overwrites-x0-array", {}, {"x0_overwrite": True}))
        cells.append((site, "L22:all-defaults", {"defaults": True}, {"defaults": True}))
        cells.append((site, "L25:sibling-sampler-shares-arguments", {}, {"hist": "sibling"}))
        cells.append((site, "L26:logd-offset", {}, {"offset": True}))
        cells.append((site, "L21:warmup-0-then-step", {}, {"warm_n": 0}))
        if k_ in ("mh", "cw", "mala", "ula"):
            cells.append((site, "L20:integer-scale", {"int_params": True}, {"int_scale": True}))
        if k_ == "pcn":
            cells.append((site, "L20:integer-prior-mean", {"int_params": True}, {"prior_form": "vector", "prior_mean": "mixed", "dim": 0}))
            for form in ("scalar", "vector", "normal"):
                cells.append((site, "L23:plain-%s-prior" % form, {}, {"prior_form": form, "prior_mean": "mixed", "dim": 0, "plain": True}))
        if k_ == "cw":
            cells.append((site, "L18:scale-with-zero-entry", {}, {"zero_scale": True}))
            cells.append((site, "L17:proposal-std=2*scale", {"proposal": "locscale2x"}, {}))
        if k_ in ("mala", "ula"):
            cells.append((site, "L19:gradient=strided-view", {}, {"gradbuf": "strided"}))
    for site in ("E.MH", "L.MH"):
        cells.append((site, "L18:vector-scale-with-zero-entry", {}, {"vscale": True, "zero_scale": True}))
        cells.append((site, "L14:proposal-reassigned-valid", {"reassign_proposal": "valid"}, {"hist": "prestep"}))
        cells.append((site, "L14:proposal-reassigned-nonzero-mean", {"reassign_proposal": "invalid"}, {"hist": "prestep"}))
    for site in ("E.MALA", "L.MALA", "E.ULA", "L.ULA"):
        cells.append((site, "gradient=reused-buffer", {}, {"gradbuf": True}))
        cells.append((site, "gradient=reused-buffer,after-step", {}, {"gradbuf": True, "hist": "prestep"}))
    for site in ("E.MH", "L.MH"):
        cells.append((site, "proposal=uniform-symmetric", {"proposal": {"family": "uniform", "sym": True}}, {}))
        cells.append((site, "proposal=uniform-asymmetric", {"proposal": {"family": "uniform", "sym": False}}, {}))
        cells.append((site, "proposal=cauchy-symmetric", {"proposal": {"family": "cauchy", "sym": True}}, {}))
    for site in ("L.MH", "L.CWMH"):
        cells.append((site, "target=lambda+dim", {"target_form": "lambda"}, {}))
        cells.append((site, "target=lambda+dim,x0=none", {"target_form": "lambda", "x0form": "none"}, {}))
    for site in ("E.MH", "L.MH"):
        cells.append((site, "proposal=gauss-scalar", {"proposal": {"mean": 0, "cov": "scalar"}}, {}))
        cells.append((site, "proposal=gauss-vector", {"proposal": {"mean": 0, "cov": "vector"}}, {}))
        cells.append((site, "proposal=gauss-matrix", {"proposal": {"mean": 0, "cov": "matrix"}}, {}))
        cells.append((site, "proposal=gauss-nonzero-mean", {"proposal": {"mean": 1, "cov": "matrix"}}, {}))
        cells.append((site, "proposal=gauss-mean-mixed-zero-entries", {"proposal": {"mean": "mixed", "cov": "vector"}}, {"dim": 0}))
        cells.append((site, "scale=vector", {}, {"vscale": True}))
    cells.append(("E.CWMH", "proposal=normal-locscale", {"proposal": "locscale"}, {}))
    for pr in ("locscale", "meanstd", "callable"):
        cells.append(("L.CWMH", "proposal=normal-" + pr, {"proposal": pr}, {}))
    for site in ("E.PCN", "L.pCN"):
        for form in ("scalar", "vector", "matrix", "normal"):
            for mean in (0, 1):
                cells.append((site, "prior=%s,mean%s0" % (form, "=" if mean == 0 else "!="), {}, {"prior_form": form, "prior_mean": mean}))
            cells.append((site, "prior=%s,mean-mixed-zero-entries" % form, {}, {"prior_form": form, "prior_mean": "mixed", "dim": 0}))
    cells.append(("L.pCN", "target=tuple", {"pcn_tuple": True}, {}))
    for site in ("E.MH", "L.MH", "E.CWMH", "L.CWMH", "E.MALA", "L.MALA", "E.ULA", "L.ULA"):
        for k in (-20, 20):
            cells.append((site, "magnitude=2^%d" % k, {}, {"mag": k}))
    return cells


def mean_vec(rng, d, pattern, choices=(-2, 1, 3)):
    if pattern in (0, "zero"):
        return [0.0] * d
    v = [float(rng.choice(choices)) for _ in range(d)]
    if pattern == "mixed" and d >= 2:
        zeros = rng.sample(range(d), rng.randint(1, d - 1))
        for i in zeros:
            v[i] = 0.0
    return v


def spd(rng, d, form):
    if form == "scalar":
        return rng.choice([0.25, 4.0, 0.5])
    if form == "vector":
        return [rng.choice([0.25, 1.0, 4.0, 0.5]) for _ in range(d)]
    L_ = np.array([[rng.randint(-1, 1) if j < i else (rng.choice([0.5, 1, 2]) if j == i else 0) for j in range(d)] for i in range(d)], dtype=float)
    return (L_ @ L_.T).tolist()


def option_cases(ctx):
    rng = ctx.rng
    out, tune_recs = [], []
    idx = 0
    for (site, name, opts, extra) in option_cells():
        kind = SITES[site]["kind"]
        for rep_ in range(ctx.n(2, 8)):
            idx += 1
            fam = rng.choice(["quad", "quart"]) if not extra.get("mag") else "quad"
            hist = "fresh" if (extra.get("mag") or rep_ % 2 == 0) else rng.choice(["warmup", "reload"])
            if opts.get("rng") == "scripted":
                hist = "fresh"
            if extra.get("warm_n") is not None:
                hist = "warmup"
            if extra.get("hist"):
                hist = extra["hist"]
            dim_ = extra.get("dim")
            if dim_ == 0:
                dim_ = rng.choice([2, 3])
            spec = gen_spec(ctx, site, fam, None, hist, idx, dim=dim_)
            d = len(spec["x0"])
            if extra.get("gradbuf"):
                spec["target"]["gradbuf"] = extra["gradbuf"]
            if extra.get("offset") and spec["target"]["kind"] == "quad":
                spec["target"]["c"] = rng.choice([2.0 ** 30, -2.0 ** 40, 2.0 ** 20 + 0.5])
            if extra.get("defaults") and SITES[site]["iface"] == "leg" and kind in ("mh", "pcn"):
                hist = "warmup"                       # legacy MH / pCN have no default scale for sample(); sample_adapt sets 0.1
                spec["hist"]["type"] = "warmup"
                spec["hist"]["n"] = max(spec["hist"]["n"], 10)      # Na = int(0.1 N) must be >= 1
            if extra.get("warm_n") is not None:
                n_ = extra["warm_n"]
                if SITES[site]["iface"] == "leg":
                    n_ = max(n_, 10)                  # legacy sample_adapt: Na = int(0.1 N) must be >= 1
                spec["hist"]["n"] = n_
                spec["hist"]["tune_freq"] = rng.choice([0.1, 0.5, 0.05, 1.0])
            if extra.get("zero_reload"):
                # the reloaded state has cached log-density exactly 0.0 (and a zero gradient): quadratic target at its mode, c = 0,
                # checkpoint taken before any step
                spec = gen_spec(ctx, site, "quad", None, "reload", idx, dim=extra.get("dim"))
                d = len(spec["x0"])
                spec["target"]["c"] = 0
                spec["hist"]["n"] = 0
                spec["hist"]["x02"] = list(spec["target"]["m"])
                if kind == "pcn":
                    spec["prior"] = {"mean": [0.0] * d, "cov": 1.0}
            if extra.get("x0zeros"):
                spec["x0"] = [0.0] * d
            if opts.get("x0form") == "int":
                spec["x0"] = [float(rng.randint(-2, 1)) for _ in range(d)]
                if spec["hist"]["type"] == "reload":
                    spec["hist"]["x02"] = [float(rng.randint(-2, 1)) for _ in range(d)]
            if extra.get("ret"):
                spec["target"]["ret"] = extra["ret"]
            # option cells never use scale 1 (where s, s^2 and sqrt(s) coincide)
            fix1 = lambda v: 0.5 if v == 1.0 else v
            spec["scale"] = [fix1(v) for v in spec["scale"]] if isinstance(spec["scale"], list) else fix1(spec["scale"])
            if spec["hist"].get("scale2") is not None:
                spec["hist"]["scale2"] = spec["scale"]
            o = {}
            for k_, v_ in opts.items():
                o[k_] = v_
            if isinstance(o.get("proposal"), dict) and o["proposal"].get("family"):
                fam_, sym_ = o["proposal"]["family"], o["proposal"]["sym"]
                if fam_ == "uniform":
                    hw = [rng.choice([1.0, 2.0, 0.5]) for _ in range(d)]
                    o["proposal"] = {"family": "uniform", "p1": [-h_ for h_ in hw] if sym_ else [0.0] * d, "p2": hw}
                else:
                    o["proposal"] = {"family": "cauchy", "p1": [0.0] * d, "p2": [rng.choice([1.0, 0.5, 2.0]) for _ in range(d)]}
                if not sym_:
                    spec["ustrat"] = "between"
            elif isinstance(o.get("proposal"), dict):
                o["proposal"] = {"mean": mean_vec(rng, d, {0: "zero", 1: "nonzero"}.get(o["proposal"]["mean"], o["proposal"]["mean"]), (-1, 1, 2)),
                                 "cov": spd(rng, d, o["proposal"]["cov"])}
                if any(o["proposal"]["mean"]):
                    spec["ustrat"] = "between"
            if o.get("rng"):
                o["rng_seed"] = rng.randint(0, 10 ** 6)
                spec["scale"] = rng.choice([0.3, 0.25, 0.5, 1 / 16]) if kind == "ula" else rng.choice([0.3, 0.25, 2.0, 0.5, 4.0])
            if o.get("x0form") == "none":
                spec["x0"] = [1.0] * d
                if hist == "reload":
                    spec["hist"]["x02"] = [1.0] * d
            if extra.get("x0_overwrite"):
                o["x0_overwrite"] = [v + 2.0 for v in spec["x0"]]
                spec["hist"]["type"] = "fresh" if SITES[site]["iface"] == "exp" else spec["hist"]["type"]
            if extra.get("defaults"):
                spec["x0"] = [1.0] * d
                if spec["hist"]["type"] == "reload":
                    spec["hist"]["type"] = "fresh"
            if extra.get("int_scale"):
                spec["scale"] = [rng.choice([1, 2]) for _ in range(d)] if kind == "cw" else rng.choice([2, 4] if kind in ("mala", "mh") else [1])
                if kind == "ula":
                    spec["scale"] = 1
                spec["hist"]["type"] = "fresh"
            if extra.get("plain"):
                spec_plain = True
            if o.get("reassign_proposal") == "invalid":
                o["bad_mean"] = mean_vec(rng, d, "mixed" if d >= 2 else "nonzero", (-1, 1, 2))
            if extra.get("reassign"):
                o["reassign_scale"] = rng.choice([0.25, 0.5, 0.125]) if kind not in ("mala", "ula") else rng.choice([0.25, 1 / 16])
                spec["hist"]["type"] = "fresh"
            if extra.get("vscale"):
                spec["scale"] = [rng.choice([1.0, 0.5, 0.25, 2.0, 0.3]) for _ in range(d)]
                spec["hist"]["type"] = "fresh"
            if extra.get("zero_scale"):
                sc_l = [rng.choice([0.5, 0.25, 2.0]) for _ in range(d)]
                sc_l[rng.randrange(d)] = 0.0
                spec["scale"] = sc_l
                spec["hist"]["type"] = "fresh"
            if extra.get("prior_form"):
                form = extra["prior_form"]
                mean = mean_vec(rng, d, {0: "zero", 1: "nonzero"}.get(extra["prior_mean"], extra["prior_mean"]))
                if form == "normal":
                    spec["prior"] = {"mean": mean, "form": "normal", "std": [rng.choice([0.5, 1.0, 2.0]) for _ in range(d)]}
                else:
                    spec["prior"] = {"mean": mean, "form": form, "cov": spd(rng, d, form)}
                spec["ustrat"] = "between" if any(mean) else spec["ustrat"] if spec["ustrat"] != "between" else "rand"
                if extra.get("plain"):
                    spec["prior"]["plain"] = True
            if extra.get("mag"):
                m_ = 2.0 ** extra["mag"]
                t = spec["target"]
                t["P"] = [[v / m_ / m_ for v in row] for row in t["P"]]
                t["m"] = [v * m_ for v in t["m"]]
                spec["x0"] = [v * m_ for v in spec["x0"]]
                sc_ = spec["scale"]
                f_ = m_ * m_ if kind in ("mala", "ula") else m_
                spec["scale"] = [v * f_ for v in sc_] if isinstance(sc_, list) else sc_ * f_
                if kind in ("mala", "ula") and not (frac(spec["scale"]).numerator == 1 or frac(spec["scale"]).denominator == 1):
                    spec["scale"] = 0.25 * f_
            spec["opts"], spec["optcell"] = o, name
            spec = finalize_spec(ctx, spec)
            c, ob = build_case(ctx, spec)
            c.meta = _jsonable(c.meta)
            out.append(c)
            tune_recs += [(site, r_) for r_ in ob.get("tune_log", [])[:1]]
    return out, tune_recs


def cr(x):
    f = frac(float(x))
    return "(IZR (%d) / IZR %d)" % (f.numerator, f.denominator)


TUNE_TAC = ("split; [unfold tune_temp, zeta, hat_acc, star_mh, star_pcn, star_cw; interval with (i_prec 80) | "
            "unfold Rmin; destruct (Rle_dec _ _); lra].")


def tune_cases(ctx, recs):
    """one ENCLOSURE case per recorded tuning step and component: the adapted (unclipped) scale is the model's
    exp(ln lam + zeta*(hat-star)) within 1e-9 relative, and scale = min(that, 1) exactly"""
    out = []
    for site, r in recs:
        star = {"mh": "star_mh", "pcn": "star_pcn", "cw": "(star_cw %d)" % r["dim"]}[r["kind"]]
        ncomp = len(r["temp0"])
        for c in range(ncomp):
            win = [w[c] if len(w) > c else w[0] for w in r["window"]]
            a, n = sum(win), len(win)
            lam, t1, s1 = r["temp0"][c], r["temp1"][c], r["scale1"][c if len(r["scale1"]) > c else 0]
            fail = None
            if not (0 < s1 <= 1) or not math.isfinite(s1):
                fail = "after tune() the scale %r is outside (0, 1]" % s1
            if n == 0 or not (lam > 0):
                continue
            expr = "(Rabs (tune_temp %s %d (hat_acc %d %d) %s - %s) <= %s /\\ %s = Rmin %s 1)%%R" % (
                cr(lam), r["k"], a, n, star, cr(t1), cr(1e-9 * (1 + abs(t1))), cr(s1), cr(t1))
            meta = {"op": "tune", "site": site, "rec": {k_: r[k_] for k_ in ("kind", "k", "dim", "temp0", "temp1", "scale1")},
                    "component": c, "accepted": a, "window": n}
            out.append(Case(expr=expr, meta=meta, cell="%s/tune" % site, kind="ENCLOSURE", tac=TUNE_TAC, impl_fail=fail,
                            signature=(SITES[site]["sig"].rsplit(".", 1)[0] + ".tune|scale-out-of-bounds") if fail else ""))
            if r.get("acc_in_sampler") is not None and len(r["acc_in_sampler"]) <= 400:
                # the window the Coq model (win_last / win_slice) selects from the history the sampler holds must be the window of
                # the harness's own record (a accepted out of n); the history itself must be 0/1 flags (hypothesis `flags` of
                # C02_tune_call_sound)
                hist = [w[c] if len(w) > c else w[0] for w in r["acc_in_sampler"]]
                wfail = None
                if any(b not in (0, 1) for b in hist):
                    wfail = "the acceptance history handed to tune() holds values other than 0/1: %s" % hist[:20]
                wexpr = "check_window %s %s %s %s %s %s" % (cbool(r["kind"] == "cw"), cnat(r["T"]), cnat(r["i"]),
                                                          clist([cz(b) for b in hist]), cz(a), cz(n))
                out.append(Case(expr=wexpr, meta=dict(meta, op="tune_window", T=r["T"], i=r["i"], history=hist),
                                cell="%s/tune-window" % site, kind="EXACT", impl_fail=wfail,
                                signature=(SITES[site]["sig"].rsplit(".", 1)[0] + ".tune|history-not-flags") if wfail else ""))
    return out


def tune_twin_cases(ctx):
    """monotonicity of the adaptation in the acceptance flags (C02_tune_flags_monotone), on the real tune(): two fresh samplers of
    the same class are handed histories that differ only by some rejected flags turned into accepted ones; the adapted parameter
    and the scale of the second must not be smaller, and both scales lie in (0,1].  Oracle: the ordering itself (no formula)."""
    rng = ctx.rng
    out = []
    for site in ("E.MH", "E.PCN", "E.CWMH"):
        kind = SITES[site]["kind"]
        for rep in range(ctx.n(3, 12)):
            d = rng.choice([2, 3]) if kind == "cw" else rng.choice([1, 2])
            T_ = rng.choice([1, 2, 4, 5, 10])
            i_ = rng.choice([0, 0, 1, 2, 5])
            n_hist = (i_ + 1) * T_
            lo = [[1] * (d if kind == "cw" else 1)] + [[rng.choice([0, 0, 1]) for _ in range(d if kind == "cw" else 1)] for _ in range(n_hist - 1)]
            hi = [[b if rng.random() < 0.5 else 1 for b in w] for w in lo]
            hi[0] = list(lo[0])
            scale0 = [rng.choice([0.5, 0.25, 1.0, 0.125, 0.0625]) for _ in range(d)] if kind == "cw" else rng.choice([0.5, 0.25, 1.0, 0.125])
            tspec = gen_target(rng, "quad", d, None)
            res = []
            for hist in (lo, hi):
                drv = Driver(site, Tgt(tspec), scale0, [0.0] * d, prior={"mean": [0.0] * d, "cov": 1.0} if kind == "pcn" else None)
                s_ = drv.s
                s_._acc = [np.array(w, dtype=float) if kind == "cw" else w[0] for w in hist]
                drv.acc_log = [list(w) for w in hist[1:]] + [[0] * len(hist[0])]      # the harness's own record: same flags + the step in progress
                n0 = len(drv.tune_log)
                with _quiet(), np.errstate(all="ignore"):
                    s_.tune(T_, i_)
                rec = drv.tune_log[n0] if len(drv.tune_log) > n0 else None
                res.append((rec, np.array(s_.scale, dtype=float).reshape(-1).tolist()))
            (r1, s1), (r2, s2) = res
            fail = None
            if r1 is None or r2 is None:
                fail = "tune() was not recorded"
            else:
                for c in range(len(r1["temp1"])):
                    t1, t2 = r1["temp1"][c], r2["temp1"][c]
                    a1, a2 = s1[c if len(s1) > c else 0], s2[c if len(s2) > c else 0]
                    if not (t1 <= t2 * (1 + 1e-12) and a1 <= a2 * (1 + 1e-12)):
                        fail = ("tune(%d, %d) is not monotone in the acceptance flags: component %d, flags %s -> parameter %r scale %r, "
                                "flags %s (pointwise >=) -> parameter %r scale %r" % (T_, i_, c, [w[c if len(w) > c else 0] for w in lo], t1, a1,
                                                                                      [w[c if len(w) > c else 0] for w in hi], t2, a2))
                        break
                    if not (0 < a1 <= 1 and 0 < a2 <= 1):
                        fail = "after tune() a scale is outside (0, 1]: %r / %r" % (a1, a2)
                        break
            sig = (SITES[site]["sig"].rsplit(".", 1)[0] + ".tune|not-monotone-in-acceptance") if fail else ""
            if r1 is None or r2 is None:
                out.append(Case(expr="true", meta={"op": "tune_twin", "site": site}, cell="%s/tune-monotone-twin" % site, kind="DECISION",
                                impl_fail=fail, signature=sig))
                continue
            first = True
            for tag, rr in (("lo", r1), ("hi", r2)):
                for cse in tune_cases(ctx, [(site, rr)]):
                    cse.cell = "%s/tune-monotone-twin" % site if cse.kind == "ENCLOSURE" else "%s/tune-window" % site
                    cse.meta = _jsonable(dict(cse.meta, twin=tag, T=T_, i=i_, lo=lo, hi=hi, scale0=scale0))
                    if first and fail:
                        cse.impl_fail, cse.signature = fail, sig
                    first = False
                    cse.key = ""
                    cse.__post_init__()
                    out.append(cse)
    return out


def legacy_adapt_cases(ctx):
    """legacy sample_adapt of MH / pCN / CWMH: the scale after each of the first adaptation steps (read through the callback)
    against the model run on the acceptance flags recovered from the states handed to the callback (CWMH: per component)"""
    rng = ctx.rng
    out = []
    for site in ("L.MH", "L.pCN", "L.CWMH"):
        kind = SITES[site]["kind"]
        for rep_ in range(ctx.n(2, 10)):
            d = rng.choice([2, 3]) if kind == "cw" else rng.choice([1, 2])
            tspec = gen_target(rng, "quad", d, None)
            T = Tgt(tspec)
            prior = {"mean": [0.0] * d, "cov": 1.0} if kind == "pcn" else None
            scale0 = [rng.choice([0.5, 0.25, 1.0, 0.125]) for _ in range(d)] if kind == "cw" else rng.choice([0.5, 0.25, 1.0, 0.125])
            x0 = [dy(rng, -2, 1, 4) for _ in range(d)]
            N = rng.choice([20, 30])
            drv = Driver(site, T, scale0, x0, prior=prior)
            seen = {}

            pts_ = {}

            def cb(smp, i_):
                seen[int(i_)] = np.array(drv.s.scale, dtype=float).reshape(-1).copy()
                pts_[int(i_)] = np.array(smp, dtype=float).reshape(-1).copy()     # the state right after transition i_
            drv.s.callback = cb
            seed = rng.randint(0, 10 ** 6)
            with ScriptedRandom(seed=seed), _quiet(), np.errstate(all="ignore"):
                r = drv.s.sample_adapt(N)
            # states from the copies taken in the callback (the returned chain of legacy CWMH is shifted by one column because
            # single_update writes into the previous column -- C14 finding -- so it is not used here)
            states = [np.array(x0, dtype=float)]
            t_ = 1
            while t_ in pts_:
                states.append(pts_[t_])
                t_ += 1
            ncomp = d if kind == "cw" else 1
            if kind == "cw":
                acc = [[1] * d] + [[int(a_ != b_) for a_, b_ in zip(states[t], states[t - 1])] for t in range(1, len(states))]
            else:
                acc = [[1]] + [[int(not np.array_equal(states[t], states[t - 1]))] for t in range(1, len(states))]
            Na = int(0.1 * N)
            star = {"mh": "star_mh", "pcn": "star_pcn", "cw": "(star_cw %d)" % d}[kind]
            for c in range(ncomp):
                lam0 = cr(scale0[c] if kind == "cw" else scale0)
                wins = []
                for j in range(3):
                    win = acc[j * Na:(j + 1) * Na]
                    if len(win) < Na:
                        break
                    a = sum(w[c] for w in win)
                    wins.append("(%s, %s)" % (cz(a), cz(Na)))
                    # the j-th unclipped parameter of the model's run over the windows so far (Model/C02_Tune.v tune_temps)
                    term = "(nth %d (tune_temps %s 1 %s %s) 0)" % (j, lam0, star, clist(wins))
                    if Na * (j + 1) not in seen:
                        break
                    sv = seen[Na * (j + 1)]
                    obs = float(sv[c] if len(sv) > c else sv[0])
                    fail = None if (0 < obs <= 1) else "legacy sample_adapt: scale %r outside (0, 1] after adaptation %d" % (obs, j + 1)
                    if obs < 1:
                        expr = "(Rabs (%s - %s) <= %s)%%R" % (term, cr(obs), cr(1e-9))
                    else:
                        expr = "(1 - %s <= %s)%%R" % (cr(1e-9), term)
                    meta = {"op": "legacy_adapt", "site": site, "target": tspec, "scale0": scale0, "x0": x0, "N": N, "seed": seed,
                            "adaptation": j + 1, "component": c, "acc": [w[c] for w in acc[:(j + 1) * Na]], "observed_scale": obs}
                    out.append(Case(expr=expr, meta=_jsonable(meta), cell="%s/sample_adapt" % site, kind="ENCLOSURE",
                                    tac=("cbv [tune_temps nth]. cbn [Z.add Pos.add Pos.succ]. "
                                         "unfold tune_temp, zeta, hat_acc, star_mh, star_pcn, star_cw; interval with (i_prec 80)."),
                                    impl_fail=fail, signature=(SITES[site]["sig"].rsplit(".", 1)[0] + ".sample_adapt|scale-out-of-bounds") if fail else ""))
    return out


# ------------------------------------------------------------------------------------------------
# short chains through sample(): recorded points, acceptance flags and the final cached state
# ------------------------------------------------------------------------------------------------
def chain_oracle(kind, T, scale, x_init, zs, us, pts, prior):
    """every recorded transition of a chain, judged on its own from the previously RECORDED point with the documented kernel
    (target and gradient from exact Fractions): expected next point = proposal if log u <= min(0, MH log-ratio) else the
    previous point.  Returns None or a description of the first transition that deviates."""
    prev = np.array(x_init, dtype=float)
    s = scale
    for k, (z, u, rec) in enumerate(zip(zs, us, pts)):
        z = np.array(z, dtype=float)
        xq = fr(prev)
        a = T.F(xq)
        if kind == "mh":
            xs = prev + s * z
        elif kind == "pcn":
            xs = z.copy()                                   # scale 1, zero-mean unit prior: the proposal is the prior draw
        else:
            g0 = np.array([float(v) for v in T.G(xq)])
            xs = prev + 0.5 * s * g0 + math.sqrt(s) * z
        b = T.F(fr(xs))
        lu = math.log(u[0]) if u[0] > 0 else -math.inf
        exp_acc = None
        if is_bad(b) or b == "pinf":
            exp_acc = False
        elif not isinstance(a, str):
            rho = float(b - a)
            if kind == "mala":
                g1 = np.array([float(v) for v in T.G(fr(xs))])
                fwd = -0.5 * float(np.sum((xs - prev - 0.5 * s * g0) ** 2)) / s
                bwd = -0.5 * float(np.sum((prev - xs - 0.5 * s * g1) ** 2)) / s
                rho += bwd - fwd
            thr = min(0.0, rho)
            if abs(lu - thr) > 1e-7 * (1 + abs(thr)) or (lu == 0.0 and rho > 1e-7):
                exp_acc = lu <= thr
        if exp_acc is not None:
            want = xs if exp_acc else prev
            if not vclose(rec, fr(want), 1e-9):
                return ("transition %d of the chain: from %s with noise %s and u=%r the documented kernel %s (next point %s), the "
                        "recorded next point is %s" % (k + 1, prev.tolist(), z.tolist(), u[0], "accepts" if exp_acc else "rejects",
                                                       want.tolist(), np.asarray(rec).tolist()))
        prev = np.array(rec, dtype=float)
    return None


def chain_cases(ctx):
    rng = ctx.rng
    st = guards(ctx)
    out = []
    variants = [(site, False) for site in ("E.MH", "E.CWMH", "E.PCN", "E.MALA", "L.MH", "L.pCN", "L.MALA")]
    variants += [("E.MALA", True), ("L.MALA", True)]            # gradient returned in a reused work buffer
    variants += [("L.MH", "step"), ("L.pCN", "step"), ("L.MALA", "step")]   # the legacy one-transition entry point Sampler.step(x)
    variants += [("L.MH", "overwrite"), ("L.pCN", "overwrite"), ("L.MALA", "overwrite")]   # caller re-uses its x0 array before sample()
    for site, gradbuf in variants:
        entry_step = gradbuf == "step"
        overwrite = gradbuf == "overwrite"
        if entry_step or overwrite:
            gradbuf = False
        info = SITES[site]
        kind, legacy = info["kind"], info["iface"] == "leg"
        for rep in range(ctx.n(4 if gradbuf else 3, 40)):
            d = rng.choice([2, 3] if kind == "cw" else [1, 2])
            fam = "quad" if kind == "mala" else rng.choice(["quad", "quart"])
            hole = rng.choice([None, None, "nan", "ninf"]) if not gradbuf else None
            tspec = gen_target(rng, fam, d, hole)
            if gradbuf:
                tspec["gradbuf"] = True
            T = Tgt(tspec)
            prior = {"mean": [0.0] * d, "cov": 1.0} if kind == "pcn" else None
            scale = {"mh": 0.5, "cw": [0.5] * d, "pcn": 1.0, "mala": 0.25}[kind]
            x0 = [dy(rng, -2, 1, 4) for _ in range(d)]
            n = 7 if gradbuf else (2 if entry_step else 3)
            zs = [[dy(rng, -3, 3, 4) for _ in range(d)] for _ in range(n)]
            uu = [[rng.choice([1.0, 0.75, 0.5, 0.25, 0.03125]) for _ in range(d if kind == "cw" else 1)] for _ in range(n)]
            if gradbuf:
                zs = [[dy(rng, -2, 2, 4) for _ in range(d)] for _ in range(n)]
                uu = [[rng.choice([0.9, 0.75, 0.5, 0.35, 0.2, 0.1])] for _ in range(n)]
            drv = Driver(site, T, scale, x0, prior=prior)
            zq, uq = [np.array(z_) for z_ in zs], [u_ for us_ in uu for u_ in us_]
            rets = []

            def script(k_, a, kw, i_):
                if k_ == "randn":
                    return zq.pop(0).reshape(-1, 1)
                if k_ == "normal":
                    r_ = np.array(a[0], dtype=float) + np.array(a[1], dtype=float) * zq.pop(0)
                    rets.append(np.array(r_, dtype=float).reshape(-1))
                    return np.array(r_, dtype=float).reshape(a[2])
                if k_ == "rand":
                    return uq.pop(0)
                if k_ == "uniform":
                    return np.full(a[2], uq.pop(0))
            if overwrite:
                xnew = np.array([v + 1.5 for v in x0])
                drv.x0arg[...] = xnew              # the legacy sampler reads x0 when sample() starts: this IS the start now
                drv.cur = (xnew.copy(), drv.eval_f(xnew), drv.eval_g(xnew) if kind == "mala" else np.zeros(0))
            x_init, ld_init, gr_init = drv.state()
            err = None
            with ScriptedRandom(seed=1, script=script), np.errstate(all="ignore"), _quiet():
                try:
                    if legacy and entry_step:
                        nxt = drv.s.step(np.array(x_init, dtype=float))
                        pts = [np.array(nxt, dtype=float).reshape(-1)]
                        lds = [Fval(T.F(fr(pts[0])))]           # step() hands back the point only
                        accs = None
                    elif legacy:
                        r = drv.s.sample(n)          # x0 is sample 0; n-1 transitions
                        pts = [np.array(r.samples[:, i], dtype=float) for i in range(1, n)]
                        lds = [float(v) for v in r.loglike_eval[1:]]
                        accs = None
                    else:
                        drv.s.sample(n)
                        pts = [np.array(p, dtype=float).reshape(-1) for p in drv.s._samples[-n:]]
                        accs = [[bool(b) for b in np.ravel(a_)] for a_ in drv.s._acc[-n:]]
                except Exception as e:   # noqa
                    err = repr(e)
            if err is not None:
                meta = {"op": "chain", "site": site, "target": tspec, "prior": prior, "scale": scale, "x0": x0, "zs": zs, "us": uu, "n": n}
                out.append(Case(expr="true", meta=_jsonable(meta), cell="%s/chain/raises" % site, kind="DECISION",
                                impl_fail="sampling %d steps raised %s" % (n, err), signature=info["sig"] + "|raises"))
                continue
            ntr = n - 1 if legacy else n
            # exact reference chain (oracle, Fractions): recompute decisions
            if kind == "cw":
                kq = "(KCW %s)" % st["g"][site]
                scq = cqvec(scale)
            elif kind == "mh":
                kq, scq = "(KMH %s)" % st["g"][site], cqvec([scale])
            elif kind == "pcn":
                kq, scq = "(KPCN %s %s 0 %s)" % (cbool(st["c"][site]), st["g"][site], cqvec(prior["mean"])), cqvec([scale])
            else:
                kq, scq = "(KMALA %s)" % st["g"][site], cqvec([scale])
            with np.errstate(all="ignore"):
                if kind == "mala":
                    noise = [np.sqrt(scale) * np.array(z_) for z_ in zs[:ntr]]
                else:
                    noise = [np.array(z_) for z_ in zs[:ntr]]
                draws = clist(["(%s, %s)" % (cqvec(nz), clist([cext(float(np.log(u_))) for u_ in us_])) for nz, us_ in zip(noise, uu[:ntr])])
            if legacy:
                # legacy interface records no per-step flags: flag = (point changed or equal proposal) is not observable; compare points + final
                xf, ldf = pts[-1], lds[-1]
                grf = drv.eval_g(xf) if kind == "mala" else np.zeros(0)
                # per-step accept flags recovered from the recorded chain: with non-zero scripted noise a transition was
                # accepted iff the recorded point moved
                obs_rec = None
                if kind != "pcn" and all(any(v != 0 for v in z_) for z_ in zs[:ntr]):
                    prev_ = [x_init] + pts[:-1]
                    accs = [[bool(not np.array_equal(p_, q_))] for p_, q_ in zip(pts, prev_)]
                    obs_rec = clist(["(%s, %s)" % (cqvec(p), clist([cbool(b) for b in a_])) for p, a_ in zip(pts, accs)])
                    if kind == "mala":
                        # ... unless drift and noise cancel exactly (proposal == current point: an accepted move that does not move,
                        # e.g. x = 0, grad = 2, s = 1/4, noise -1/4): the flag cannot be recovered, compare the points only
                        with np.errstate(all="ignore"):
                            if any(np.array_equal(np.asarray(q_, dtype=float) + 0.5 * scale * (T._g(q_) if T.kind in ("quad", "quart") else drv.eval_g(q_)) + nz_, np.asarray(q_, dtype=float))
                                   for q_, nz_ in zip(prev_, noise)):
                                obs_rec = None
            else:
                xf, ldf, grf = drv.state()
                obs_rec = clist(["(%s, %s)" % (cqvec(p), clist([cbool(b) for b in a_])) for p, a_ in zip(pts, accs)])
            # oracle: every recorded point's cached value is the target's value; final cache consistent
            fail, fsig = None, "|state-cache"
            ef = T.F(fr(xf))
            if not close(ldf, ef):
                fail = "after sample(%d) the cached log-density %r is not the target's value %r at the final point" % (n, ldf, Fval(ef))
            if fail is None and kind in ("mh", "pcn", "mala"):
                fail = chain_oracle(kind, T, scale, x_init, zs[:ntr], uu[:ntr], pts, prior)
                fsig = SIG_GRADBUF if (gradbuf and not legacy) else "|chain-transition"
            if fail is None and kind == "mala" and not legacy and not vclose(grf, T.G(fr(xf))):
                fail = "after sample(%d) the cached gradient %s is not the target's gradient at the final point" % (n, grf.tolist())
                fsig = SIG_GRADBUF if gradbuf else "|state-cache"
            tolc = "0" if all(T.exact_at(fr(p)) for p in [x_init] + pts) and (kind != "mala" or d == 1) else "tol9"
            if legacy and obs_rec is None:
                expr = "check_chain_pts %s %s %s %s %s %s %s %s" % (tolc, T.coq(), kq, scq, cstate(x_init, ld_init, gr_init), draws,
                                                                   cstate(xf, ldf, grf), clist([cqvec(p) for p in pts]))
            else:
                expr = "check_chain %s %s %s %s %s %s %s %s" % (tolc, T.coq(), kq, scq, cstate(x_init, ld_init, gr_init), draws,
                                                               cstate(xf, ldf, grf), obs_rec)
            meta = {"op": "chain", "site": site, "target": tspec, "prior": prior, "scale": scale, "x0": x0, "zs": zs, "us": uu, "n": n}
            out.append(Case(expr=expr, meta=_jsonable(meta), cell="%s/chain/%s%s%s" % (site, T.kind, "+gradbuf" if gradbuf else "", "/via-step(x)" if entry_step else ("/x0-overwritten" if overwrite else "")), kind="EXACT",
                            impl_fail=fail, signature=(info["sig"] + fsig) if fail else ""))
    return out


# ------------------------------------------------------------------------------------------------
# exact enumeration of the whole transition kernel on a lattice target: pi K = pi in Fractions
# ------------------------------------------------------------------------------------------------
NOISE = [(-1.0, Fraction(1, 4)), (0.0, Fraction(1, 2)), (1.0, Fraction(1, 4))]      # symmetric scripted noise law


def lattice_kernel(site, W, K):
    """enumerate K(x -> y) of the real sampler: all noise values x a midpoint grid of K uniforms per accept decision.
    Returns (sweep kernel, error, acceptance fractions (1-d), per-coordinate kernels (noise only in coordinate j))"""
    T = Tgt({"kind": "lattice", "W": W})
    d = T.dim
    shape = T.W.shape
    drv = Driver(site, T, 1.0 if d == 1 else [1.0] * d, [0.0] * d)
    states = list(itertools.product(*[range(n_) for n_ in shape]))
    ugrid = [(k + 0.5) / K for k in range(K)]
    kern = {x: {} for x in states}
    comp = [{x: {} for x in states} for _ in range(d)]
    accfrac = {}
    for x in states:
        xv = np.array(x, dtype=float)
        ld = float(np.log(T.W[x]))
        for zs in itertools.product(NOISE, repeat=d):
            z = [a for a, _ in zs]
            pz = Fraction(1)
            for _, p_ in zs:
                pz *= p_
            for us in itertools.product(ugrid, repeat=d):
                drv.set_raw(xv, ld, np.zeros(0))
                o = drv.step(z, list(us), commit=False)
                if o["err"] is not None:
                    raise RuntimeError(o["err"])
                y = tuple(int(v) for v in o["x1"])
                if any(float(i) != v for i, v in zip(y, o["x1"])) or y not in kern:
                    return None, "left the lattice: %s -> %s" % (x, o["x1"].tolist()), None, None
                kern[x][y] = kern[x].get(y, F0) + pz / (K ** d)
                for j in range(d):
                    if all(z[i] == 0 for i in range(d) if i != j):
                        comp[j][x][y] = comp[j][x].get(y, F0) + zs[j][1] / (K ** d)
                if d == 1 and z[0] != 0:
                    key = (x[0], int(x[0] + z[0]))
                    accfrac[key] = accfrac.get(key, F0) + (Fraction(1, K) if bool(o["acc"]) else F0)
    return kern, None, accfrac, comp


def lattice_verdict(W, kern, comp):
    """pi K = pi for the whole transition; detailed balance for every single-coordinate kernel (a CWMH sweep is a
    composition of reversible kernels: invariant, but not itself reversible)"""
    Wf = np.array(W)
    pi = {x: Fraction(int(Wf[x])) for x in kern}
    for y in kern:
        inflow = sum(pi[x] * kern[x].get(y, F0) for x in kern)
        if inflow != pi[y]:
            return "enumerated kernel does not leave pi invariant: weights %s, state %s: sum_x pi(x)K(x,y) = %s but pi(y) = %s" % (W, y, inflow, pi[y])
    for j, kj in enumerate(comp):
        for x in kj:
            if sum(kj[x].values()) != 1:
                return "enumerated coordinate-%d kernel is not stochastic at %s" % (j, x)
            for y in kj:
                if pi[x] * kj[x].get(y, F0) != pi[y] * kj[y].get(x, F0):
                    return "enumerated coordinate-%d kernel violates detailed balance between %s and %s (weights %s)" % (j, x, y, W)
    return None


def lattice_fraction_verdict(W, accfrac):
    """1-d lattices: the fraction of the uniform grid on which the move i -> j is accepted is the MH probability (1 out of a
    zero-density state into the support, 0 into a zero-density state); pairs of two zero-density states are not judged"""
    if not accfrac or np.array(W).ndim != 1:
        return None
    for (i, j) in sorted(accfrac):
        if not (0 <= j < len(W)) or (W[i] == 0 and W[j] == 0):
            continue
        want = Fraction(1) if W[i] == 0 else min(Fraction(1), Fraction(int(W[j]), int(W[i])))
        if accfrac[(i, j)] != want:
            return ("lattice weights %s: the move %d -> %d is accepted for a fraction %s of the uniform grid, the MH probability is %s"
                    % (W, i, j, accfrac[(i, j)], want))
    return None


def lattice_cases(ctx):
    rng = ctx.rng
    out = []
    for site in ("E.MH", "L.MH", "E.CWMH", "L.CWMH"):
        kind = SITES[site]["kind"]
        nrep = ctx.n(1, 4)
        for rep in range(nrep + ctx.n(1, 2)):
            holes = rep >= nrep         # targets that VANISH on part of the lattice (log-density -inf inside the state space): the
            #                             kernel of C02_invariance_countable / C02_detailed_balance_nonneg with alpha0 = acc0
            if kind == "mh":
                n, K = 5, 12
                W = [rng.choice([1, 2, 3, 4, 6, 12]) for _ in range(n)]
                if holes:
                    for z_ in rng.sample(range(n), rng.choice([1, 2, 3])):
                        W[z_] = 0
            else:
                n, K = 3, 6
                W = [[rng.choice([1, 2, 3, 6]) for _ in range(n)] for _ in range(n)]
                if holes:
                    for z_ in rng.sample(range(n * n), rng.choice([1, 2, 3])):
                        W[z_ // n][z_ % n] = 0
            with np.errstate(all="ignore"):
                kern, err, accfrac, comp = lattice_kernel(site, W, K)
            fail = err if kern is None else lattice_verdict(W, kern, comp)
            # tie to the theorem's alpha: observed acceptance fractions == qmin 1 (pi_j/pi_i) (1-d sites); with zero-density states
            # alpha0 (= acc0, C02_alpha0_is_acc0): 1 out of a zero-density state into the support, 0 into a zero-density state; pairs
            # of two zero-density states are excluded (the guarded code rejects, the flow is zero either way)
            if kind == "mh" and accfrac is not None:
                pairs = sorted(k_ for k_ in accfrac if 0 <= k_[1] < len(W) and not (W[k_[0]] == 0 and W[k_[1]] == 0))
                outside = [k_ for k_ in accfrac if not (0 <= k_[1] < len(W))]
                piq = "(fun i => nth i %s 1%%Q)" % cqvec(W)
                expr = "ql_eqb %s %s && ql_eqb %s %s" % (
                    clist(["(%s nat %s (fun _ _ => (1 # 4)%%Q) %s %s)" % ("alpha0" if holes else "alpha", piq, cnat(i), cnat(j)) for i, j in pairs]),
                    cqvec([accfrac[k_] for k_ in pairs]),
                    cqvec([accfrac[k_] for k_ in outside]), cqvec([0] * len(outside)))
                if holes and fail is None:
                    fail = lattice_fraction_verdict(W, accfrac)
            else:
                expr = "true"
            meta = {"op": "lattice", "site": site, "W": W, "K": K}
            out.append(Case(expr=expr, meta=meta, cell="%s/lattice%s" % (site, "+zero-density-states" if holes else ""), kind="EXACT", impl_fail=fail,
                            signature=(SITES[site]["sig"] + "|invariance") if fail else ""))
    return out


# ------------------------------------------------------------------------------------------------
# known findings: fixed witnesses
# ------------------------------------------------------------------------------------------------
def _witness_nonfinite(site):
    kind = SITES[site]["kind"]
    pad = [0.0] if kind == "cw" else []

    def go(v, x, target_star):
        if kind == "mala":
            z = target_star - (x - 0.5 * x)
        elif kind == "pcn":
            z = target_star
        else:
            z = target_star - x
        o = _probe_step(site, v, [x] + pad, [z] + pad, 0.5)
        return o["acc"] is not None and bool(np.ravel(o["acc"])[0])
    a = go("nan", 1.0, 3.0)
    b = go("ninf", 3.0, 4.0)
    return (a or b), ("NaN-valued proposal accepted from a finite state: %s; -inf-valued proposal accepted from a -inf state: %s "
                      "(1-d standard normal target, log-density replaced by NaN / -inf where x > 2, scale 1, u = 0.5)" % (a, b))


def _witness_mean(ctx, site):
    spec = {"site": site, "target": {"kind": "quad", "P": [[1.0]], "m": [1.0], "c": 0, "hole": None},
            "prior": {"mean": [3.0], "cov": 1.0}, "scale": 0.6, "x0": [1.0], "z": [-0.5],
            "hist": {"type": "fresh", "seed": 0, "n": 0}, "ustrat": "between", "hole_class": None, "exact": False}
    c, _ = build_case(ctx, spec)
    return (c.impl_fail is not None and c.signature.endswith(SIG_MEAN)), (c.impl_fail or "decision agrees with the MH probability of the proposal used")


def _witness_dim1(ctx, site):
    spec = {"site": site, "target": {"kind": "quad", "P": [[1.0]], "m": [0.0], "c": 0, "hole": None}, "prior": None, "scale": 0.5,
            "x0": [1.0], "z": [0.5], "hist": {"type": "fresh", "seed": 0, "n": 0}, "ustrat": ["rand"], "hole_class": None, "exact": True}
    c, _ = build_case(ctx, spec)
    return (c.impl_fail is not None and c.signature.endswith(SIG_DIM1)), (c.impl_fail or "transition performed")


def _witness_propmean(ctx, site):
    spec = {"site": site, "target": {"kind": "quad", "P": [[1.0]], "m": [0.0], "c": 0, "hole": None}, "prior": None,
            "scale": 1.0, "x0": [0.0], "z": [0.5], "hist": {"type": "fresh", "seed": 0, "n": 0}, "ustrat": "between",
            "hole_class": None, "exact": False, "opts": {"proposal": {"mean": [1.0], "cov": 1.0}}, "optcell": "proposal=gauss-nonzero-mean"}
    c, _ = build_case(ctx, spec)
    return (c.impl_fail is not None and c.signature.endswith(SIG_PROPMEAN)), (c.impl_fail or "decision agrees with the MH probability of the proposal used")


def _witness_notcentred(ctx, site):
    spec = {"site": site, "target": {"kind": "quad", "P": [[1.0]], "m": [0.0], "c": 0, "hole": None}, "prior": None,
            "scale": 1.0, "x0": [0.0], "z": [0.0], "hist": {"type": "fresh", "seed": 0, "n": 0}, "ustrat": "between",
            "hole_class": None, "exact": False, "opts": {"proposal": {"family": "uniform", "p1": [0.0], "p2": [1.0]}},
            "optcell": "proposal=uniform-asymmetric"}
    c, _ = build_case(ctx, spec)
    return (c.impl_fail is not None and c.signature.endswith(SIG_NOTCENTRED)), (c.impl_fail or "decision agrees with the MH probability of the proposal used")


def _witness_dtype(ctx):
    spec = {"site": "E.CWMH", "target": {"kind": "quad", "P": [[1.0, 0.0], [0.0, 1.0]], "m": [0.0, 0.0], "c": 0, "hole": None}, "prior": None,
            "scale": [0.5, 0.5], "x0": [1.0, 0.0], "z": [-0.5, 0.5], "hist": {"type": "fresh", "seed": 0, "n": 0}, "ustrat": ["tie", "tie"],
            "u": [1.0, 0.5], "hole_class": None, "exact": True, "opts": {"x0form": "int"}, "optcell": "x0=int"}
    c, _ = build_case(ctx, spec)
    return (c.impl_fail is not None and c.signature.endswith(SIG_DTYPE)), (c.impl_fail or "accepted coordinates are stored as proposed")


def _witness_gradbuf(ctx):
    spec = {"site": "E.MALA", "target": {"kind": "quad", "P": [[1.0]], "m": [0.0], "c": 0, "hole": None, "gradbuf": True}, "prior": None,
            "scale": 1.0, "x0": [0.0], "z": [2.0], "hist": {"type": "fresh", "seed": 0, "n": 0}, "ustrat": "rand", "u": [0.9],
            "hole_class": None, "exact": False, "opts": {}, "optcell": "gradient=reused-buffer"}
    c, _ = build_case(ctx, spec)
    return (c.impl_fail is not None and c.signature.endswith(SIG_GRADBUF)), (c.impl_fail or "decision agrees with the MH probability; cached gradient intact")


def _witness_x0alias(ctx):
    spec = {"site": "E.MH", "target": {"kind": "quad", "P": [[1.0]], "m": [0.0], "c": 0, "hole": None}, "prior": None,
            "scale": 0.5, "x0": [1.0], "z": [0.5], "hist": {"type": "fresh", "seed": 0, "n": 0}, "ustrat": "rand", "u": [0.5],
            "hole_class": None, "exact": True, "opts": {"x0_overwrite": [3.0]}, "optcell": "L15:caller-overwrites-x0-array"}
    c, _ = build_case(ctx, spec)
    return (c.impl_fail is not None and c.signature == SIG_X0ALIAS), (c.impl_fail or "the sampler's state is unaffected by the caller's write")


def known_witnesses(ctx):
    out = {}
    out[SIG_X0ALIAS] = _witness_x0alias(ctx)
    out[SITES["E.MALA"]["sig"] + SIG_GRADBUF] = _witness_gradbuf(ctx)
    out[SITES["E.CWMH"]["sig"] + SIG_DTYPE] = _witness_dtype(ctx)
    for site in ("E.MH", "L.MH"):
        out[SITES[site]["sig"] + SIG_NOTCENTRED] = _witness_notcentred(ctx, site)
    for site in ("E.MH", "L.MH"):
        out[SITES[site]["sig"] + SIG_PROPMEAN] = _witness_propmean(ctx, site)
    for site in ("L.MH", "L.CWMH", "L.pCN", "E.PCN", "L.MALA"):
        out[SITES[site]["sig"] + SIG_NONFINITE] = _witness_nonfinite(site)
    for site in ("E.PCN", "L.pCN"):
        out[SITES[site]["sig"] + SIG_MEAN] = _witness_mean(ctx, site)
    for site in ("E.CWMH", "L.CWMH"):
        out[SITES[site]["sig"] + SIG_DIM1] = _witness_dim1(ctx, site)
    return out


def search(ctx):
    """wider search for a failing input of the property itself (thorough-sized generation, oracle only)"""
    saved = ctx.tier
    ctx.tier = "thorough"
    try:
        res = run(ctx)
    finally:
        ctx.tier = saved
    return [c for c in res.cases if c.impl_fail]


def classify(meta, detail):
    m = meta.get("meta", meta)
    site = m.get("site")
    base = SITES[site]["sig"] if site in SITES else "C02"
    d = str(detail)
    if "was accepted" in d and "log-density" in d:
        return base + SIG_NONFINITE
    if "raised" in d:
        return base + (SIG_DIM1 if SITES.get(site, {}).get("kind") == "cw" and len(m.get("x0", [])) == 1 else "|raises")
    if "cached" in d or "state" in d:
        return base + "|state-cache"
    if SITES.get(site, {}).get("kind") == "pcn" and m.get("prior") and any(v != 0 for v in m["prior"]["mean"]):
        return base + SIG_MEAN
    return base + "|accept-rule"


def oracle(ctx, meta):
    m = meta.get("meta", meta)
    if m.get("op") == "chain":
        return None
    if m.get("op") == "lattice":
        with np.errstate(all="ignore"):
            kern, err, accfrac, comp = lattice_kernel(m["site"], m["W"], m["K"])
        return err if kern is None else (lattice_verdict(m["W"], kern, comp) or lattice_fraction_verdict(m["W"], accfrac))
    if m.get("op") in ("tune", "tune_window", "tune_twin", "legacy_adapt"):
        return None             # the oracle verdict of these cases (scale in (0,1], 0/1 history, monotone twin) is set when they are built
    c, _ = build_case(ctx, _fix_c(_unjson(m)))
    return c.impl_fail


def _unjson(m):
    m = json.loads(json.dumps(m))
    def fixf(v):
        if isinstance(v, str) and v in ("nan", "inf", "-inf"):
            return float(v)
        return v
    m["u"] = [fixf(v) for v in m["u"]] if m.get("u") is not None else None
    return m


def replay(ctx, meta):
    m = meta.get("meta", meta)
    print(json.dumps({k: v for k, v in meta.items() if k != "meta"}, indent=1)[:3000])
    if m.get("op") == "lattice":
        with np.errstate(all="ignore"):
            kern, err, accfrac, comp = lattice_kernel(m["site"], m["W"], m["K"])
        print("site", m["site"], "weights", m["W"], "uniform grid", m["K"])
        if kern is None:
            print("implementation:", err)
            return 0
        pi = {x: Fraction(int(np.array(m["W"])[x])) for x in kern}
        for x in kern:
            print("  K(%s -> .) =" % (x,), {y: str(v) for y, v in sorted(kern[x].items())})
        for y in kern:
            print("  sum_x pi(x) K(x,%s) = %s   pi(%s) = %s" % (y, sum(pi[x] * kern[x].get(y, F0) for x in kern), y, pi[y]))
        print("oracle verdict:", lattice_verdict(m["W"], kern, comp) or lattice_fraction_verdict(m["W"], accfrac)
              or "pi K = pi, every coordinate kernel is reversible, acceptance fractions are the MH probabilities")
        return 0
    if m.get("op") in ("chain", "tune", "tune_window", "tune_twin", "legacy_adapt") or "site" not in m:
        print(json.dumps(m, indent=1)[:4000])
        return 0
    c, o = build_case(ctx, _fix_c(_unjson(m)))
    print("site            :", m["site"], " target:", m["target"], " prior:", m.get("prior"))
    print("state before    : x=%s logd=%r grad=%s scale=%s" % (o["x0"].tolist(), o["ld0"], o["gr0"].tolist(), c.meta["observed"]["scale"]))
    print("draws           : z=%s u=%s" % (m["z"], c.meta["u"]))
    print("implementation  : evaluated target at %s ; acc=%s ; state after x=%s logd=%r" % ([s.tolist() for s in o["stars"]], o["acc"], o["x1"].tolist(), o["ld1"]))
    print("oracle          : MH log-ratio of the proposal actually used = %r ; verdict: %s" % (c.meta["observed"]["mh_log_ratio"], c.impl_fail or "property holds on this case"))
    rc, out = eval_in_coq(IMPORTS, c.expr, tag="replay_C02")
    print("model (Coq)     : check =", out.split("=")[-1].strip()[:200] if rc == 0 else out[-500:])
    return 0
