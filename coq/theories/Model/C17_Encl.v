(* C17 -- the tactic closing the generated ENCLOSURE cases: unfold the real-valued model formulas of
   Model/C17_TPR.v and enclose with coq-interval.  Only the generated case files import this. *)
From Coq Require Import Reals List ZArith.
From Interval Require Import Tactic.
From CV Require Import Model.C17_TPR.

Ltac c17_red :=
  cbv [gauss_psf_R gauss_w rsum map fold_right nth legacy_gauss_R legacy_vonmises_R legacy_sinc_R
       sq ssq gauss_iid_logpdf gauss_diag_logpdf post_logd_iid post_logd_diag fst snd length INR
       ph_gauss_R ph_sinc_R ph_vonmises_R ph_bumps_R ph_dgauss_R poisson_default_R heat_default_R dgauss_inc_R].
Ltac c17_encl := c17_red; interval with (i_prec 90).
(* certificate + enclosure: the left conjunct is an executable check of the model (vm_compute), the right one the enclosure *)
Ltac c17_both := split; [vm_compute; reflexivity | c17_encl].
