(* C04 -- proofs, part 3: normalisation where the installed libraries allow it (Coquelicot RInt):
   the Laplace density integrates to 1 - exp(-T/b) over [mu - T, mu + T] for every T >= 0, and this
   tends to 1 as T -> +infinity.  (Uniform: uniform_normalised in Proofs/C04_Dens.v.) *)
From CV Require Import Base.Tac Model.C04_Dens Proofs.C04_Dens.
From Coq Require Import Reals Lra.
From Coquelicot Require Import Coquelicot.
Local Open Scope R_scope.

Definition laplace_dens (mu b x : R) : R := laplace_pdf1 b (mu, x).      (* 1/(2b) exp(-|x - mu|/b) *)

Lemma laplace_RInt_right mu b T : 0 < b -> 0 <= T ->
  is_RInt (laplace_dens mu b) mu (mu + T) (/ 2 * (1 - exp (- T / b))).
Proof.
  intros Hb HT.
  apply is_RInt_ext with (f := fun x => / (2 * b) * exp (- (x - mu) / b)).
  { intros x Hx. rewrite Rmin_left, Rmax_right in Hx by lra.
    unfold laplace_dens, laplace_pdf1. rewrite Rabs_pos_eq by lra. unfold Rdiv. rewrite Rmult_1_l. reflexivity. }
  evar_last.
  - apply (is_RInt_derive (fun x => - / 2 * exp (- (x - mu) / b))).
    + intros x _. auto_derive; [exact I|].
      replace (- (x + - mu) * / b) with (- (x - mu) / b) by (unfold Rdiv; ring). field; lra.
    + intros x _. apply (ex_derive_continuous (fun x => / (2 * b) * exp (- (x - mu) / b))). auto_derive. exact I.
  - unfold minus, plus, opp; cbn.
    replace (mu + T - mu) with T by ring. replace (mu - mu) with 0 by ring.
    replace (- 0 / b) with 0 by (field; lra). rewrite exp_0. lra.
Qed.

Lemma laplace_RInt_left mu b T : 0 < b -> 0 <= T ->
  is_RInt (laplace_dens mu b) (mu - T) mu (/ 2 * (1 - exp (- T / b))).
Proof.
  intros Hb HT.
  apply is_RInt_ext with (f := fun x => / (2 * b) * exp ((x - mu) / b)).
  { intros x Hx. rewrite Rmin_left, Rmax_right in Hx by lra.
    unfold laplace_dens, laplace_pdf1. rewrite Rabs_left by lra. unfold Rdiv. rewrite Rmult_1_l.
    f_equal. f_equal. lra. }
  evar_last.
  - apply (is_RInt_derive (fun x => / 2 * exp ((x - mu) / b))).
    + intros x _. auto_derive; [exact I|].
      replace ((x + - mu) * / b) with ((x - mu) / b) by (unfold Rdiv; ring). field; lra.
    + intros x _. apply (ex_derive_continuous (fun x => / (2 * b) * exp ((x - mu) / b))). auto_derive. exact I.
  - unfold minus, plus, opp; cbn.
    replace (mu - T - mu) with (- T) by ring. replace (mu - mu) with 0 by ring.
    replace (0 / b) with 0 by (field; lra). rewrite exp_0. lra.
Qed.

(* probability mass of [mu - T, mu + T] *)
Theorem laplace_mass mu b T : 0 < b -> 0 <= T ->
  is_RInt (laplace_dens mu b) (mu - T) (mu + T) (1 - exp (- T / b)).
Proof.
  intros Hb HT. evar_last.
  - apply (is_RInt_Chasles (laplace_dens mu b) (mu - T) mu (mu + T));
      [apply laplace_RInt_left | apply laplace_RInt_right]; assumption.
  - unfold plus; cbn. lra.
Qed.

Lemma lim_exp_neg b : 0 < b -> is_lim (fun T => exp (- T / b)) p_infty 0.
Proof.
  intros Hb.
  apply (is_lim_comp exp (fun T => - T / b) p_infty 0 m_infty).
  - apply is_lim_exp_m.
  - evar_last.
    + apply is_lim_ext with (f := fun T => (- / b) * T); [intros T; field; lra|].
      apply (is_lim_scal_l (fun T => T) (- / b) p_infty p_infty). apply is_lim_id.
    + assert (Hn : - / b < 0) by (assert (0 < / b) by (apply Rinv_0_lt_compat; exact Hb); lra).
      unfold Rbar_mult; cbn. destruct (Rle_dec 0 (- / b)) as [H|H]; [exfalso; lra|]. reflexivity.
  - exists 0. intros T _. discriminate.
Qed.

(* the density integrates to one over the real line: the mass of [mu - T, mu + T] tends to 1 *)
Theorem laplace_normalised mu b : 0 < b ->
  is_lim (fun T => RInt (laplace_dens mu b) (mu - T) (mu + T)) p_infty 1.
Proof.
  intros Hb.
  apply is_lim_ext_loc with (f := fun T => 1 - exp (- T / b)).
  - exists 0. intros T HT. symmetry. apply is_RInt_unique. apply laplace_mass; lra.
  - evar_last.
    + apply is_lim_minus'; [apply is_lim_const | apply lim_exp_neg; exact Hb].
    + cbn. f_equal. lra.
Qed.

(* ---------- Cauchy: the cdf factor IS the integral of the density factor ---------- *)
Theorem cauchy_cdf_is_integral l s a b : 0 < s ->
  is_RInt (fun t => cauchy_pdf1 (l, s, t)) a b (cauchy_cdf1 (l, s, b) - cauchy_cdf1 (l, s, a)).
Proof.
  intros Hs.
  apply (is_RInt_derive (fun t => cauchy_cdf1 (l, s, t)) (fun t => cauchy_pdf1 (l, s, t))).
  - intros x _. apply cauchy_cdf1_derive. exact Hs.
  - intros x _. apply (ex_derive_continuous (fun t => cauchy_pdf1 (l, s, t))).
    unfold cauchy_pdf1. pose proof PI_RGT_0. pose proof (pow2_ge_0 (x - l)). assert (0 < s ^ 2) by nra.
    assert (0 <= (x - l) ^ 2 / s ^ 2) by (apply Rle_mult_inv_pos; assumption).
    auto_derive.
    replace ((x + - l) * ((x + - l) * 1) * / (s * (s * 1))) with ((x - l) ^ 2 / s ^ 2) by (field; lra).
    assert (0 < PI * s * (1 + (x - l) ^ 2 / s ^ 2)) by (apply Rmult_lt_0_compat; [apply Rmult_lt_0_compat|]; lra).
    lra.
Qed.

(* and it is a probability: strictly between 0 and 1 *)
Theorem cauchy_cdf_bounds l s x : 0 < s -> 0 < cauchy_cdf1 (l, s, x) < 1.
Proof. intros Hs. apply cauchy_cdf1_limits. exact Hs. Qed.

(* ---------- Cauchy: the density integrates to one over the real line ---------- *)
Lemma lim_atan_p : is_lim atan p_infty (PI / 2).
Proof.
  apply is_lim_spec. intros eps. pose proof PI_RGT_0 as Hpi.
  set (e := Rmin (pos eps) (PI / 4)).
  assert (He : 0 < e) by (unfold e; apply Rmin_pos; [apply cond_pos | lra]).
  assert (He2 : e <= PI / 4) by (unfold e; apply Rmin_r).
  assert (He3 : e <= pos eps) by (unfold e; apply Rmin_l).
  exists (tan (PI / 2 - e)). intros y Hy.
  assert (Hb : - (PI / 2) < PI / 2 - e < PI / 2) by lra.
  pose proof (atan_increasing _ _ Hy) as Hinc. rewrite (atan_tan _ Hb) in Hinc.
  pose proof (atan_bound y) as [_ Hub].
  rewrite Rabs_left by lra. lra.
Qed.

Lemma lim_div_p s : 0 < s -> is_lim (fun T => T / s) p_infty p_infty.
Proof.
  intros Hs. assert (Hi : 0 < / s) by (apply Rinv_0_lt_compat; exact Hs).
  evar_last.
  - apply is_lim_ext with (f := fun T => (/ s) * T); [intros T; field; lra|].
    apply (is_lim_scal_l (fun T => T) (/ s) p_infty p_infty). apply is_lim_id.
  - unfold Rbar_mult; cbn. destruct (Rle_dec 0 (/ s)) as [H|H]; [|exfalso; lra].
    destruct (Rle_lt_or_eq_dec 0 (/ s) H) as [H'|H']; [reflexivity | exfalso; lra].
Qed.

Theorem cauchy_mass l s T : 0 < s ->
  is_RInt (fun t => cauchy_pdf1 (l, s, t)) (l - T) (l + T) (2 / PI * atan (T / s)).
Proof.
  intros Hs. evar_last; [apply cauchy_cdf_is_integral; exact Hs|].
  unfold cauchy_cdf1. pose proof PI_RGT_0.
  replace ((l + T - l) / s) with (T / s) by (field; lra).
  replace ((l - T - l) / s) with (- (T / s)) by (field; lra).
  rewrite atan_opp. field. lra.
Qed.

Theorem cauchy_normalised l s : 0 < s ->
  is_lim (fun T => RInt (fun t => cauchy_pdf1 (l, s, t)) (l - T) (l + T)) p_infty 1.
Proof.
  intros Hs. pose proof PI_RGT_0 as Hpi.
  apply is_lim_ext with (f := fun T => 2 / PI * atan (T / s)).
  - intros T. symmetry. apply is_RInt_unique. apply cauchy_mass. exact Hs.
  - evar_last.
    + apply (is_lim_scal_l (fun T => atan (T / s)) (2 / PI) p_infty (PI / 2)).
      apply (is_lim_comp atan (fun T => T / s) p_infty (PI / 2) p_infty).
      * apply lim_atan_p.
      * apply lim_div_p. exact Hs.
      * exists 0. intros T _. discriminate.
    + cbn. f_equal. field. lra.
Qed.
