(* C13 -- fun2par on ARBITRARY function values: output shapes for every geometry, and column-wise action of
   KLExpansion.fun2par and StepExpansion.fun2par on batches. *)
From CV Require Import Base.Tac Base.Cmp Base.LinAlg Base.QcLin Model.C13_Geom Model.C13_Float
     Proofs.C13_Lists Proofs.C13_Index Proofs.C13_Geom Proofs.C13_Step Proofs.C13_MatMap Proofs.C13_All.
From Coq Require Import QArith Qcanon.

(* ---------------- KLExpansion.fun2par ---------------- *)
Lemma kl_fun2par_col_length (dst : list Qc -> list Qc) N m coefs tau f :
  (forall x, length x = N -> length (dst x) = N) -> length coefs = m -> (m <= N)%nat -> length f = N ->
  length (kl_fun2par_col dst N m coefs tau f) = m.
Proof.
  intros Hd Hc Hm Hf. unfold kl_fun2par_col. rewrite map2_length, firstn_length, Hd by (rewrite map_length; exact Hf). lia.
Qed.

Theorem kl_fun2par_columnwise (dst : list Qc -> list Qc) N m coefs tau k (a : arr Qc) :
  (forall x, length x = N -> length (dst x) = N) -> length coefs = m -> (2 <= m)%nat -> (m <= N)%nat -> (k <> 1)%nat ->
  shp a = [N; k] ->
  exists b, kl_fun2par dst N m coefs tau a = Some b /\ shp b = [m; k] /\ length (dat b) = (m * k)%nat /\
    forall j, (j < k)%nat ->
      kl_fun2par dst N m coefs tau (mkArr [N] (col_of 0%Qc N k j (dat a))) = Some (mkArr [m] (col_of 0%Qc m k j (dat b))).
Proof.
  intros Hd Hc Hm2 HmN Hk Hs.
  destruct (colwise_columnwise m N (kl_fun2par_col dst N m coefs tau) k a) as [b [E1 [E2 [E3 E4]]]]; try assumption; try lia.
  - intros c Hcl. apply kl_fun2par_col_length; assumption.
  - exists b. rewrite kl_fun2par_colwise by lia. split; [exact E1|]. split; [exact E2|]. split; [exact E3|].
    intros j Hj. rewrite kl_fun2par_colwise by lia. apply E4. exact Hj.
Qed.

(* ---------------- StepExpansion.fun2par as a total column-wise map when no step is empty ---------------- *)
Definition proj_val (pr : proj) (vals : list Qc) : Qc :=
  match vals with
  | [] => 0%Qc
  | v :: r => match pr with PMean => (qsum vals / qcn (length vals))%Qc | PMax => qmaxl v r | PMin => qminl v r end
  end.
Definition step_fun2par_colQ (idx : list (list nat)) (pr : proj) (f : list Qc) : list Qc :=
  map (fun ids => proj_val pr (map (fun t => nth t f 0%Qc) ids)) idx.

Lemma step_project_nonempty pr vals : vals <> [] -> step_project pr vals = Some (Some (proj_val pr vals)).
Proof. destruct vals as [|v r]; [congruence|]. intros _. reflexivity. Qed.

Lemma step_fun2par_col_total idx pr f : Forall (fun ids => ids <> []) idx ->
  step_fun2par_col idx pr f = Some (map Some (step_fun2par_colQ idx pr f)).
Proof.
  intros Hne. unfold step_fun2par_col, step_fun2par_colQ. rewrite map_map.
  apply omap_list_some. intros ids Hin. apply step_project_nonempty.
  rewrite Forall_forall in Hne. specialize (Hne ids Hin). destruct ids; [congruence | discriminate].
Qed.

Lemma step_fun2par_colQ_length idx pr f : length (step_fun2par_colQ idx pr f) = length idx.
Proof. unfold step_fun2par_colQ. apply map_length. Qed.

Theorem step_fun2par_total_colwise N idx pr (a : arr Qc) : Forall (fun ids => ids <> []) idx ->
  step_fun2par_total N idx pr a = colwise (length idx) N (step_fun2par_colQ idx pr) a.
Proof.
  intros Hne. unfold step_fun2par_total, step_fun2par, colwise. destruct (batch_in N a) as [k|]; [|reflexivity].
  rewrite (omap_list_some _ (fun c => map Some (step_fun2par_colQ idx pr c))) by (intros c _; apply step_fun2par_col_total; exact Hne).
  cbn [obind]. unfold squeeze_arr. cbn [shp dat].
  rewrite <- (map_map (step_fun2par_colQ idx pr) (map Some)).
  rewrite of_cols_map_Some by (apply Forall_forall; intros c Hc; apply in_map_iff in Hc as [c0 [<- _]]; apply step_fun2par_colQ_length).
  rewrite all_some_map_Some. reflexivity.
Qed.

Theorem step_fun2par_columnwise N idx pr k (a : arr Qc) :
  Forall (fun ids => ids <> []) idx -> (length idx <> 1)%nat -> (k <> 1)%nat -> shp a = [N; k] ->
  exists b, step_fun2par_total N idx pr a = Some b /\ shp b = [length idx; k] /\ length (dat b) = (length idx * k)%nat /\
    forall j, (j < k)%nat ->
      step_fun2par_total N idx pr (mkArr [N] (col_of 0%Qc N k j (dat a))) = Some (mkArr [length idx] (col_of 0%Qc (length idx) k j (dat b))).
Proof.
  intros Hne Hn Hk Hs.
  destruct (colwise_columnwise (length idx) N (step_fun2par_colQ idx pr) k a) as [b [E1 [E2 [E3 E4]]]]; try assumption.
  - intros c _. apply step_fun2par_colQ_length.
  - exists b. rewrite step_fun2par_total_colwise by exact Hne. split; [exact E1|]. split; [exact E2|]. split; [exact E3|].
    intros j Hj. rewrite step_fun2par_total_colwise by exact Hne. apply E4. exact Hj.
Qed.

(* documented projection: parameter i is the mean / max / min of the function values at the nodes of step i *)
Theorem step_fun2par_value N idx pr (f : list Qc) i : Forall (fun ids => ids <> []) idx -> (length idx <> 1)%nat ->
  length f = N -> (i < length idx)%nat ->
  exists p, step_fun2par_total N idx pr (mkArr [N] f) = Some (mkArr [length idx] p) /\
            nth i p 0%Qc = proj_val pr (map (fun t => nth t f 0%Qc) (nth i idx [])).
Proof.
  intros Hne Hn Hf Hi. exists (step_fun2par_colQ idx pr f). split.
  - rewrite step_fun2par_total_colwise by exact Hne. apply colwise_vec; cbn [shp dat]; try assumption; try reflexivity.
    apply step_fun2par_colQ_length.
  - unfold step_fun2par_colQ.
    rewrite nth_indep with (d' := proj_val pr (map (fun t => nth t f 0%Qc) [])) by (rewrite map_length; exact Hi).
    apply (map_nth (fun ids => proj_val pr (map (fun t => nth t f 0%Qc) ids))).
Qed.

(* ---------------- output shape of fun2par for every geometry ---------------- *)
Fixpoint g_inv_ok (g : geom) : Prop :=
  match g with
  | GCont1D _ | GDiscrete _ => True
  | GCont2D n1 n2 => (2 <= n1 * n2)%nat
  | GImage r c _ _ => (0 < r * c)%nat
  | GMapped g' _ fi => fi <> None /\ g_inv_ok g'
  | GMappedLin g' M Mi => (exists R, Mi = Some R /\ mat_cols R = length M /\ fshape g' = [length R]) /\ g_inv_ok g'
  | GKL N nm coefs _ dstM _ => (2 <= kl_modes N nm)%nat /\ length coefs = kl_modes N nm /\ length dstM = N
  | GStep N idx _ => Forall (fun ids => ids <> []) idx /\ (length idx <> 1)%nat
  end.

(* fun2par of ANY array of the reported fun_shape succeeds and has the reported par_shape *)
Theorem g_fun2par_shape g : forall (f : arr Qc), g_inv_ok g -> shp f = fshape g -> length (dat f) = prodn (fshape g) ->
  exists p, g_fun2par g f = Some p /\ shp p = g_par_shape g /\ length (dat p) = g_par_dim g.
Proof.
  induction g as [n|n|n1 n2|r c o v|g IH fm fi|g IH M Mi|N nm coefs tau dstM idstM|N idx pr]; intros f Hok Hs Hl;
    unfold g_par_dim; cbn [g_par_shape g_fun2par fshape g_inv_ok] in *.
  - exists f. rewrite Hs in *. repeat split; assumption.
  - exists f. rewrite Hs in *. repeat split; assumption.
  - rewrite (cont2d_fun2par_eq 0%Qc n1 n2 1) by (try lia; rewrite Hs; cbn; lia).
    eexists. split; [reflexivity|]. cbn [shp dat]. rewrite np_squeeze_mk by lia. unfold vb_shape. cbn [Nat.eqb].
    split; [reflexivity|]. rewrite Hl. cbn; lia.
  - destruct v.
    + exists f. cbn [image_fun2par]. rewrite Hs in *. repeat split; assumption.
    + unfold image_fun2par. eexists. split; [reflexivity|]. cbn [shp dat]. rewrite Hs.
      replace (prodn [r; c]) with (r * c)%nat by (cbn; lia). split; [reflexivity|].
      replace (prodn [(r * c)%nat]) with (r * c)%nat by (cbn; lia).
      destruct o; [rewrite Hl; cbn; lia | rewrite to_F_length; cbn; lia].
  - destruct Hok as [Hfi Hok]. destruct fi as [f'|]; [|congruence].
    apply IH; [exact Hok | exact Hs | unfold arr_map; cbn [dat]; rewrite map_length; exact Hl].
  - destruct Hok as [[R [-> [HR Hfs]]] Hok].
    rewrite matmap_vec by (rewrite Hs, HR; reflexivity). cbn [obind].
    apply IH; cbn [shp dat]; [exact Hok | symmetry; exact Hfs | rewrite qmatvec_length, Hfs; cbn [prodn fold_right]; rewrite Nat.mul_1_r; reflexivity].
  - destruct Hok as [Hm [Hc Hdl]].
    assert (Hdst : forall x, length x = N -> length (qmatvec dstM x) = N) by (intros x _; unfold qmatvec; rewrite matvec_length; exact Hdl).
    replace (prodn [N]) with N in Hl by (cbn; lia).
    rewrite kl_fun2par_colwise by lia. rewrite colwise_vec; try assumption; try lia.
    + eexists. split; [reflexivity|]. split; [reflexivity|]. cbn [dat].
      rewrite kl_fun2par_col_length; try assumption; [cbn; lia | apply kl_modes_le].
    + apply kl_fun2par_col_length; try assumption. apply kl_modes_le.
  - destruct Hok as [Hne Hn]. replace (prodn [N]) with N in Hl by (cbn; lia).
    change (obind (step_fun2par N idx pr f) (fun r => option_map (mkArr (shp r)) (all_some (dat r)))) with (step_fun2par_total N idx pr f).
    rewrite step_fun2par_total_colwise by exact Hne. rewrite colwise_vec; try assumption; try apply step_fun2par_colQ_length.
    eexists. split; [reflexivity|]. split; [reflexivity|]. cbn [dat]. rewrite step_fun2par_colQ_length. cbn; lia.
Qed.

(* ---------------- MappedGeometry with a matrix map: column-wise on batches ---------------- *)
(* whenever the wrapped geometry's par2fun is column-wise on a batch (hypothesis: its value b and its columns), so is
   the mapped geometry's: column j of M @ par2fun(P) is M @ par2fun(column j of P) *)
Theorem mappedlin_columnwise g M Mi pd k (a b : arr Qc) :
  shp b = [mat_cols M; k] -> g_par2fun g a = Some b ->
  (forall j, (j < k)%nat -> g_par2fun g (mkArr [pd] (col_of 0%Qc pd k j (dat a)))
                            = Some (mkArr [mat_cols M] (col_of 0%Qc (mat_cols M) k j (dat b)))) ->
  exists c, g_par2fun (GMappedLin g M Mi) a = Some c /\ shp c = [length M; k] /\ length (dat c) = (length M * k)%nat /\
    forall j, (j < k)%nat ->
      g_par2fun (GMappedLin g M Mi) (mkArr [pd] (col_of 0%Qc pd k j (dat a)))
      = Some (mkArr [length M] (col_of 0%Qc (length M) k j (dat c))).
Proof.
  intros Sb Eb Hcols.
  destruct (matmap_columnwise M (mat_cols M) k b eq_refl Sb) as [c [E1 [E2 [E3 E4]]]].
  exists c. cbn [g_par2fun]. rewrite Eb. cbn [obind]. split; [exact E1|]. split; [exact E2|]. split; [exact E3|].
  intros j Hj. rewrite (Hcols j Hj). cbn [obind]. apply E4. exact Hj.
Qed.

(* instance: over the identity geometries (Continuous1D, Discrete) the hypothesis is trivially true *)
Theorem mappedlin_columnwise_cont1d n M Mi k (a : arr Qc) : n = mat_cols M -> shp a = [n; k] ->
  exists c, g_par2fun (GMappedLin (GCont1D n) M Mi) a = Some c /\ shp c = [length M; k] /\ length (dat c) = (length M * k)%nat /\
    forall j, (j < k)%nat ->
      g_par2fun (GMappedLin (GCont1D n) M Mi) (mkArr [n] (col_of 0%Qc n k j (dat a)))
      = Some (mkArr [length M] (col_of 0%Qc (length M) k j (dat c))).
Proof.
  intros Hn Hs. apply (mappedlin_columnwise (GCont1D n) M Mi n k a a).
  - rewrite Hs, Hn. reflexivity.
  - reflexivity.
  - intros j _. cbn [g_par2fun]. rewrite Hn. reflexivity.
Qed.
