"""C15 -- MAP/ML estimates are true maximisers; direct Gaussian sampling has exact moments.

Correspondence: cuqi.problem.BayesianProblem.MAP / ML / sample_posterior(_sampleMapCholesky) / _solve_max_point /
_check_posterior  vs  Model/C15_MAP.v.

 * op=map     closed-form branch over the input lattice (model form x geometry x covariance form x parameterisation
              x mean form x shape): returned vector (tol 1e-8 against the model's exact rational value) or the kind
              of exception raised
 * op=sample  direct route under a scripted numpy.random.randn: offset, read-off factor L (lower, positive diagonal,
              L L^T = exact posterior covariance), one further scripted draw, consumption log, callback, shape
 * op=route   which branch MAP / sample_posterior take (classes, dimensions against config.MAX_DIM_INV)
 * op=setup   _solve_max_point with a recording stub solver: solver class, gradient handed over, start point,
              objective = -logd, returned point = solver's point, info label, geometry of the result
 * op=opt     the real optimiser on linear-Gaussian problems kept off the closed-form branch: returned point against
              the model's exact posterior mean / weighted-least-squares solution (tol 1e-4)
 * op=optng   the real optimiser on smooth log-concave non-Gaussian posteriors: route decision in Coq, maximality by
              the oracle only
 * op=optns   the same on NON-smooth log-concave priors (Laplace, LMRF): finding ..|nonsmooth-prior:bfgs-finite-differences
 * op=disp    (round 5) the optimiser route observed at the SciPy boundary of cuqi/solver/_solver.py under scripted answers:
              routine / method / gradient mode / start point / returned point and success flag  vs  Model/C15_Opt.v entry_calls, opt_entry
 * op=select  (round 5) sample_posterior run for real under scripted normals: which _sample* method ran and, on the direct
              route, offset and factor of the draws  vs  sample_posterior_entry (selection + law in one function)
 * opt cells additionally evaluate check_opt_stop (SciPy's stopping test with the exact gradient, curvature certificate, distance
   bound) and optng cells check_curvature (+ monotonicity of the implementation's gradient field, prior formulas: oracle)

The independent oracle states the property itself: exact posterior mean / covariance in Fractions (precision form,
own Gauss-Jordan), the posterior's own logd in a neighbourhood of the returned point and its gradient there.
"""
import io, contextlib, itertools, math
from fractions import Fraction
import numpy as np
from common import *

IMPORTS = ("From CV Require Import Base.Cmp Base.QcLin Model.C15_MAP Model.C15_Opt.\n"
           "From Coq Require Import QArith.")
RULE = ("linear-Gaussian problems with dyadic data, m,n<=4 (quick) / <=6 (thorough): model form (dense, function, scipy-sparse) x "
        "geometry (default, Continuous1D/Discrete, StepExpansion with function model) x noise and prior covariance form (scalar, "
        "size-1 vector, vector, matrix, sparse) x parameterisation (cov, prec, sqrtcov, sqrtprec, +compute_cov) x mean form "
        "(vector, scalar) x shape (m<n, m=n, m>n); direct sampling under scripted normals; route decisions over prior/"
        "likelihood/model classes and MAX_DIM_INV; _solve_max_point with a stub solver; real optimiser on linear-Gaussian and "
        "log-concave problems. distinct = distinct meta; trivial = route/setup decisions with default arguments only")

SIG_NOISE = "BayesianProblem.MAP|direct:vector-noise-cov:row-broadcast"
SIG_PRIOR = "BayesianProblem.MAP|direct:vector-prior-cov:dot-product"
SIG_OTHER = "BayesianProblem.MAP|direct"
SIG_GEOM = "BayesianProblem.MAP|direct:matrix-model+nonidentity-geometry"
SIG_NONLIN = "BayesianProblem.MAP|direct:LinearModel+nonlinear-geometry-map"
NONID = ("mapped_lin", "mapped_sq", "range_mapped_lin", "kl", "step_mat")
SIG_SAMPLE = "BayesianProblem._sampleMapCholesky"
SIG_ROUTE = "BayesianProblem._check_posterior"
SIG_SETUP = "BayesianProblem._solve_max_point"
SIG_OPT = "BayesianProblem._solve_max_point|optimiser"
SIG_NONSMOOTH = "BayesianProblem._solve_max_point|nonsmooth-prior:bfgs-finite-differences"
SIG_ML = "BayesianProblem.ML"
SIG_CCOV = "Gaussian.compute_cov"

PARAMS = ["cov", "prec", "sqrtcov", "sqrtprec"]
KINDS = ["scalar", "vector", "matrix", "sparse"]
DCLS = ["Gaussian", "GMRF", "LMRF", "CMRF", "Laplace", "Cauchy", "RegularizedGaussian", "Other",
        "RegularizedGMRF", "Beta", "InverseGamma", "Lognormal"]


# ---------------------------------------------------------------------------------------------------------
# exact arithmetic helpers of the ORACLE (Fractions; independent of the Coq model)
# ---------------------------------------------------------------------------------------------------------
def F(x):
    return frac(x)


def f_inv(M):
    n = len(M)
    a = [[F(v) for v in row] + [Fraction(int(i == j)) for j in range(n)] for i, row in enumerate(M)]
    for k in range(n):
        piv = next((r for r in range(k, n) if a[r][k] != 0), None)
        if piv is None:
            return None
        a[k], a[piv] = a[piv], a[k]
        d = a[k][k]
        a[k] = [v / d for v in a[k]]
        for r in range(n):
            if r != k and a[r][k] != 0:
                c = a[r][k]
                a[r] = [v - c * w for v, w in zip(a[r], a[k])]
    return [row[n:] for row in a]


def f_mm(A, B):
    return [[sum(A[i][k] * B[k][j] for k in range(len(B))) for j in range(len(B[0]))] for i in range(len(A))]


def f_mv(A, x):
    return [sum(a * b for a, b in zip(row, x)) for row in A]


def f_T(A):
    return [list(c) for c in zip(*A)]


def f_dense(kind, val, dim):
    """the covariance-like matrix MEANT by a scalar / vector / matrix argument"""
    if kind == "scalar":
        return [[F(val) if i == j else Fraction(0) for j in range(dim)] for i in range(dim)]
    if kind == "vector":
        v = [F(a) for a in val]
        if len(v) == 1:
            v = v * dim
        return [[v[i] if i == j else Fraction(0) for j in range(dim)] for i in range(dim)]
    return [[F(a) for a in row] for row in val]


def intended_cov(g, dim):
    """exact covariance the user specified through (param, kind, value)"""
    M = f_dense(g["kind"], g["val"], dim)
    p = g["param"]
    if p == "cov":
        return M
    if p == "prec":
        return f_inv(M)
    if p == "sqrtcov":
        return f_mm(M, f_T(M))
    return f_inv(f_mm(f_T(M), M))          # sqrtprec R: prec = R^T R


def posterior_exact(A, b, x0, Ce, Cx):
    """(mean, covariance) from the precision form, exact"""
    Pe, Px = f_inv(Ce), f_inv(Cx)
    At = f_T(A)
    H = f_mm(f_mm(At, Pe), A)
    H = [[H[i][j] + Px[i][j] for j in range(len(Px))] for i in range(len(Px))]
    rhs = [u + v for u, v in zip(f_mv(At, f_mv(Pe, b)), f_mv(Px, x0))]
    C = f_inv(H)
    return f_mv(C, rhs), C, H


def close_v(a, e, tol=1e-7, rel=False):
    if rel:      # magnitude sweep: relative to the largest component of the exact value
        s = max([abs(float(y)) for y in e] + [0.0])
        return len(a) == len(e) and all(abs(float(x) - float(y)) <= tol * s for x, y in zip(a, e))
    return len(a) == len(e) and all(abs(float(x) - float(y)) <= tol * (1 + abs(float(y))) for x, y in zip(a, e))


# ---------------------------------------------------------------------------------------------------------
# building the problem of a meta dict on the implementation
# ---------------------------------------------------------------------------------------------------------
STYLES = ["ndarray", "list", "0d", "1x1", "npfloat", "matrix", "fortran", "csc"]


def np_cov_value(g):
    """the Python object handed to Gaussian(...): every declaration style of the same scalar / vector / matrix"""
    import scipy.sparse as sps
    k, v, st = g["kind"], g["val"], g.get("style", "ndarray")
    if k == "scalar":
        return {"0d": np.array(float(v)), "1x1": np.array([[float(v)]]), "npfloat": np.float64(v), "list": [float(v)]}.get(st, float(v))
    if k == "vector":
        return [float(a) for a in v] if st == "list" else np.array(v, dtype=float)
    if k == "matrix":
        M = np.array(v, dtype=float)
        return {"list": M.tolist(), "matrix": np.matrix(M), "fortran": np.asfortranarray(M)}.get(st, M)
    M = np.array(v, dtype=float)
    return sps.csc_matrix(M) if st == "csc" else sps.csr_matrix(M)


def build_gaussian(cuqi, mean, g, geometry=None):
    v = np_cov_value(g)
    if g.get("int") and isinstance(v, np.ndarray):
        v = v.astype(np.int64)
    elif g.get("int") and isinstance(v, float):
        v = int(v)
    kw = {g["param"]: v}
    if geometry is not None:
        kw["geometry"] = geometry
    if g.get("mds") is None:
        return cuqi.distribution.Gaussian(mean, **kw)
    # the dim > MIN_DIM_SPARSE branches (eigen-decomposition based factors, sparse storage) at small sizes
    old_mds = cuqi.config.MIN_DIM_SPARSE
    cuqi.config.MIN_DIM_SPARSE = g["mds"]
    try:
        return cuqi.distribution.Gaussian(mean, **kw)
    finally:
        cuqi.config.MIN_DIM_SPARSE = old_mds


def step_geometry(cuqi, n, reps):
    return cuqi.geometry.StepExpansion(np.linspace(0, 1, n * reps), n_steps=n)


def build_problem(cuqi, meta):
    """returns (BP, A_eff as numpy array m x n (parameter to parameter), n, m)"""
    import scipy.sparse as sps
    A = np.array(meta["A"], dtype=float)
    m = A.shape[0]
    geom = meta.get("geom", "default")
    form = meta.get("model", "dense")
    dg = rg = None
    A_eff = A
    if geom == "named":
        n = A.shape[1]
        dg = cuqi.geometry.Discrete(["v%d" % i for i in range(n)])
        rg = cuqi.geometry.Continuous1D(m)
    elif geom == "step":
        n = meta["n"]
        dg = step_geometry(cuqi, n, meta["reps"])
        P = np.column_stack([np.asarray(dg.par2fun(e)) for e in np.eye(n)])
        A_eff = A @ P
    elif geom in NONID:
        # MATRIX model + non-identity geometry: get_matrix() hands MAP the stored function-space matrix (C07 finding #19);
        # the Coq model gets that stored matrix (faithful), the oracle the true parameter-to-parameter map
        n = meta["n"]
        c = float(meta.get("c", 2))
        G = cuqi.geometry
        if geom == "mapped_lin":
            dg = G.MappedGeometry(G.Continuous1D(n), map=lambda x, c=c: c * x, imap=lambda x, c=c: x / c)
        elif geom == "mapped_sq":
            dg = G.MappedGeometry(G.Continuous1D(n), map=lambda x: x ** 2 + x, imap=None)
        elif geom == "range_mapped_lin":
            rg = G.MappedGeometry(G.Continuous1D(m), map=lambda x, c=c: c * x, imap=lambda x, c=c: x / c)
        elif geom == "kl":
            dg = G.KLExpansion(np.linspace(0, 1, n))
        elif geom == "step_mat":
            dg = step_geometry(cuqi, n, meta["reps"])
    else:
        n = A.shape[1]
    dt = meta.get("dt")
    A_in = A
    if dt in ("int", "intcov"):
        A_in = A.astype(np.int64)
    elif dt == "float32":
        A_in = A.astype(np.float32)
    elif dt == "fortran":
        A_in = np.asfortranarray(A)
    elif dt == "view":                      # non-contiguous view into a larger buffer
        big = np.full((2 * A.shape[0], 3 * A.shape[1]), 7.0)
        big[::2, ::3] = A
        A_in = big[::2, ::3]
    elif dt == "readonly":
        A_in = A.copy()
        A_in.setflags(write=False)
    if form == "dense":
        model = cuqi.model.LinearModel(A_in, range_geometry=rg, domain_geometry=dg)
    elif form == "sparse":
        model = cuqi.model.LinearModel(sps.csr_matrix(A), range_geometry=rg, domain_geometry=dg)
    elif form == "func":
        model = cuqi.model.LinearModel(lambda x: A @ x, lambda y: A.T @ y,
                                       range_geometry=rg if rg is not None else m,
                                       domain_geometry=dg if dg is not None else n)
    elif form == "func_buf":     # callables that write into persistent buffers and return them (aliasing between calls)
        fb, ab = np.zeros(m), np.zeros(A.shape[1])
        model = cuqi.model.LinearModel(lambda x: np.matmul(A, x, out=fb), lambda y: np.matmul(A.T, y, out=ab),
                                       range_geometry=rg if rg is not None else m,
                                       domain_geometry=dg if dg is not None else n)
    elif form == "func_strided":  # callables returning NON-contiguous results (strided views of larger work arrays, Fortran columns)
        wf, wa = np.zeros(2 * m), np.asfortranarray(np.zeros((A.shape[1], 2)))
        def fwd_s(x):
            wf[::2] = A @ x
            return wf[::2]
        def adj_s(y):
            wa[:, 1] = A.T @ y
            return wa[:, 1]
        model = cuqi.model.LinearModel(fwd_s, adj_s, range_geometry=rg if rg is not None else m, domain_geometry=dg if dg is not None else n)
    elif form == "general_buf":   # general Model whose forward and gradient fill and return the SAME arrays on every call
        gf, gg = np.zeros(m), np.zeros(A.shape[1])
        model = cuqi.model.Model(lambda x: np.matmul(A, x, out=gf), m, n, gradient=lambda direction, wrt: np.matmul(A.T, direction, out=gg))
    elif form == "general":      # not a LinearModel: the closed-form branch must not be taken
        model = cuqi.model.Model(lambda x: A @ x, m, n, gradient=lambda direction, wrt: A.T @ direction)
    else:
        raise ValueError(form)
    mean = meta["mean"]
    if mean["kind"] == "scalar":
        x = build_gaussian(cuqi, float(mean["val"]), meta["cx"], geometry=dg if dg is not None else n)
    else:
        mv = np.array(mean["val"], dtype=float)
        if meta.get("dt") in ("int", "intcov"):
            mv = mv.astype(np.int64)
        elif meta.get("dt") == "readonly":
            mv.setflags(write=False)
        mst = meta.get("mean_style", "ndarray")
        if mst == "list":
            mv = mv.tolist()
        elif mst == "cuqiarray":
            mv = cuqi.array.CUQIarray(mv, geometry=dg if dg is not None else cuqi.geometry._DefaultGeometry1D(len(mv)))
        x = build_gaussian(cuqi, mv, meta["cx"], geometry=dg)
    x.name = meta.get("names", ["x", "y"])[0]         # before the likelihood is built: its conditioning variable takes this name
    if form in ("general", "general_buf"):
        y = build_gaussian(cuqi, model(x), meta["ce"])
    else:
        y = build_gaussian(cuqi, model @ x, meta["ce"])
    x.name, y.name = meta.get("names", ["x", "y"])      # names are otherwise inferred from the caller's stack
    bv = np.array(meta["b"], dtype=float)
    if meta.get("dt") in ("int", "intcov"):
        bv = bv.astype(np.int64)
    elif meta.get("dt") == "float32":
        bv = bv.astype(np.float32)
    elif meta.get("dt") == "readonly":
        bv.setflags(write=False)
    if meta.get("data_style") == "list":
        bv = bv.tolist()
    elif meta.get("data_style") == "cuqiarray":
        bv = cuqi.array.CUQIarray(bv, geometry=model.range_geometry)
    if meta.get("data_style") == "ctor":
        BP = cuqi.problem.BayesianProblem(y, x, **{y.name: bv})           # data handed to the constructor instead of set_data
    else:
        BP = cuqi.problem.BayesianProblem(y, x).set_data(**{y.name: bv})
    computed = {}
    if geom in NONID:
        # the true parameter-to-parameter map, written down independently of the model object under test
        c = float(meta.get("c", 2))
        if geom == "mapped_lin":
            T, cols = c * A, c * A
        elif geom == "range_mapped_lin":
            T, cols = A / c, A / c
        elif geom == "kl":
            Pk = np.column_stack([np.asarray(dg.par2fun(e), dtype=float) for e in np.eye(n)])     # the geometry's expansion (C13)
            T = cols = A @ Pk
        elif geom == "step_mat":
            T = cols = A @ np.kron(np.eye(n), np.ones((meta["reps"], 1)))
        else:                                   # mapped_sq: x -> x^2 + x is not linear; its values at unit vectors are 2 e_i
            T, cols = None, 2 * A
        computed["A_true"] = T
        computed["A_cols"] = cols               # what get_matrix() assembles by probing forward (repaired get_matrix)
    for key, dist in (("ce", BP.likelihood.distribution), ("cx", BP.prior)):
        if meta[key].get("compute_cov"):
            computed[key] = np.array(dist.compute_cov(), dtype=float)
    return BP, A_eff, m, n, computed


def err_kind(e):
    if isinstance(e, NotImplementedError):
        return "NotImpl"
    if isinstance(e, np.linalg.LinAlgError):
        return "LinAlg"
    if isinstance(e, ValueError):
        return "Value"
    if isinstance(e, AttributeError):
        return "Attr"
    return "Other:" + type(e).__name__


def quiet(f, *a, **k):
    with contextlib.redirect_stdout(io.StringIO()):
        return f(*a, **k)


# ---------------------------------------------------------------------------------------------------------
# Coq encoders
# ---------------------------------------------------------------------------------------------------------
def c_gdesc(g, dim, computed=None):
    k = g["kind"]
    s, v, M = 0, [], []
    if k == "scalar":
        s = g["val"]
    elif k == "vector":
        v = g["val"]
    else:
        M = g["val"]
    return ("{| gd_param := %s; gd_kind := %s; gd_s := %s; gd_v := %s; gd_M := %s; gd_computed := %s |}" % (
        cnat(PARAMS.index(g["param"])), cnat(KINDS.index(k)), cq(s), cqvec(v), cqmat(M),
        "None" if computed is None else ("(Some %s)" % cqmat(computed) if np.all(np.isfinite(np.array(computed, dtype=float))) else "(Some [])")))


def c_obs(o):
    if isinstance(o, str):
        return {"NotImpl": "ONotImpl", "Value": "OValue", "LinAlg": "OLinAlg", "Attr": "OAttr"}.get(o, "OOther")
    return "(OVal %s)" % cqvec(o)


def model_x0(meta, n):
    mean = meta["mean"]
    return [mean["val"]] if mean["kind"] == "scalar" else list(mean["val"])


def full_x0(meta, n):
    mean = meta["mean"]
    return [F(mean["val"])] * n if mean["kind"] == "scalar" else [F(v) for v in mean["val"]]


# ---------------------------------------------------------------------------------------------------------
# state of the proposed repair (fixes/C15_vector_cov.diff): probed on the implementation
# ---------------------------------------------------------------------------------------------------------
WITNESS_NOISE = {"op": "map", "A": [[1, 2, 0], [0, 1, 1]], "b": [1, -1], "mean": {"kind": "vec", "val": [0, 0, 0]},
                 "ce": {"param": "cov", "kind": "vector", "val": [0.5, 2]},
                 "cx": {"param": "cov", "kind": "matrix", "val": [[1, 0, 0], [0, 2, 0], [0, 0, 4]]}, "model": "dense", "geom": "default"}
WITNESS_PRIOR = {"op": "map", "A": [[1, 2], [0, 1]], "b": [1, -1], "mean": {"kind": "vec", "val": [0, 0]},
                 "ce": {"param": "cov", "kind": "matrix", "val": [[0.5, 0], [0, 2]]},
                 "cx": {"param": "cov", "kind": "vector", "val": [1, 2]}, "model": "dense", "geom": "default"}


GEOM_FIXED = [False]      # state of fixes/C07_get_matrix_parameter_map.diff on the tree under test (probed in run)
WITNESS_NONLIN = {"op": "map", "A": [[1, 2, 0], [0, 1, 1]], "b": [1, -1], "n": 3, "mean": {"kind": "vec", "val": [0.5, 1, -0.5]},
                  "ce": {"param": "cov", "kind": "scalar", "val": 0.5}, "cx": {"param": "cov", "kind": "scalar", "val": 2},
                  "model": "dense", "geom": "mapped_sq"}
WITNESS_GEOM = {"op": "map", "A": [[1, 2, 0], [0, 1, 1]], "b": [1, -1], "n": 3, "c": 2, "mean": {"kind": "vec", "val": [0, 0, 0]},
                "ce": {"param": "cov", "kind": "scalar", "val": 0.5}, "cx": {"param": "cov", "kind": "scalar", "val": 2},
                "model": "dense", "geom": "mapped_lin"}


def make_x0(cuqi, spec, BP):
    """the caller's initial guess in every style"""
    st, v = spec["style"], spec["val"]
    if st == "scalar":
        return float(v)
    if st == "list":
        return [float(a) for a in v]
    if st == "cuqiarray":
        return cuqi.array.CUQIarray(np.array(v, dtype=float), geometry=BP.model.domain_geometry)
    return np.array(v, dtype=float)


def run_map(cuqi, meta):
    """-> (obs, A_eff, m, n, computed, extras)"""
    BP, A_eff, m, n, computed = build_problem(cuqi, meta)
    extras = {}
    try:
        kw = {}
        if meta.get("x0arg") is not None:
            kw["x0"] = make_x0(cuqi, meta["x0arg"], BP)
        if meta.get("disp") is not None:
            kw["disp"] = bool(meta["disp"])
        r = quiet(BP.MAP, **kw)
        obs = [float(v) for v in np.asarray(r).ravel()]
        if not np.all(np.isfinite(obs)):
            extras["nonfinite"] = str(obs)
            obs = "Other:nonfinite"
        extras["wrap_ok"] = bool(isinstance(r, cuqi.array.CUQIarray) and r.geometry is BP.posterior.geometry and r.is_par
                                 and r.info == {"solver": "direct"} and np.asarray(r).shape == (n,))
        if meta.get("history"):
            # keep-alive: the first estimate is kept, the problem is used again (direct sampling, MAP, ML objective), then
            # everything handed in or out earlier is re-read bit for bit
            first = np.array(r, dtype=float).copy()
            snap = lambda: [np.array(getattr(BP.prior, "mean")).copy(), np.array(BP.data).copy(),
                            np.array(BP.model.get_matrix().todense() if hasattr(BP.model.get_matrix(), "todense") else BP.model.get_matrix()).copy()]
            before = snap()
            try:
                with ScriptedRandom(seed=3):
                    quiet(BP.sample_posterior, 2)
            except Exception:
                pass
            try:
                BP.likelihood.logd(first)
            except Exception:
                pass
            r2 = quiet(BP.MAP)
            after = snap()
            extras["wrap_ok"] = bool(extras["wrap_ok"] and np.array_equal(np.asarray(r), first) and np.array_equal(np.asarray(r2), first)
                                     and all(np.array_equal(a, c) for a, c in zip(before, after)))
            # the same problem object with its prior replaced: the estimate must be the one of the NEW problem
            if meta["mean"]["kind"] == "vec" and meta.get("geom", "default") not in NONID and meta["cx"]["param"] == "cov":
                new_mean = [float(v) + 1.0 + i for i, v in enumerate(meta["mean"]["val"])]
                orig_prior = BP.prior
                newp = build_gaussian(cuqi, np.array(new_mean), meta["cx"], geometry=BP.prior.geometry)
                newp.name = BP.prior.name
                BP.prior = newp
                try:
                    r3 = quiet(BP.MAP)
                finally:
                    BP.prior = orig_prior
                exp3, _, _ = posterior_exact([[F(v) for v in row] for row in A_eff.tolist()], [F(v) for v in meta["b"]], [F(v) for v in new_mean],
                                             intended_cov(meta["ce"], m), intended_cov(meta["cx"], n))
                if not close_v([float(v) for v in np.asarray(r3)], exp3):
                    extras["wrap_ok"] = False
                    extras["hist"] = "after replacing the prior of the same problem object MAP() returned %s, the posterior mean is %s" % (
                        np.asarray(r3), [float(v) for v in exp3])
                # in-place re-assignment of attributes of the SAME Gaussian objects: mean, then covariance (scaled by 4)
                try:
                    keep_mean, keep_cov = BP.prior.mean, BP.prior.cov
                    BP.prior.mean = np.array(new_mean)
                    r4 = quiet(BP.MAP)
                    bad4 = not close_v([float(v) for v in np.asarray(r4)], exp3)
                    g4 = dict(meta["cx"])
                    g4["val"] = g4["val"] * 4 if g4["kind"] == "scalar" else (np.array(g4["val"]) * 4).tolist()
                    BP.prior.cov = np_cov_value(g4)
                    r5 = quiet(BP.MAP)
                    exp5, _, _ = posterior_exact([[F(v) for v in row] for row in A_eff.tolist()], [F(v) for v in meta["b"]], [F(v) for v in new_mean],
                                                 intended_cov(meta["ce"], m), intended_cov(g4, n))
                    bad5 = not close_v([float(v) for v in np.asarray(r5)], exp5)
                    BP.prior.cov = keep_cov
                    BP.prior.mean = keep_mean
                    r6 = quiet(BP.MAP)
                    if bad4 or bad5 or not np.array_equal(np.asarray(r6), first):
                        extras["wrap_ok"] = False
                        extras["hist"] = "after re-assigning prior.mean / prior.cov on the same objects MAP() is not the estimate of the current problem (mean: %s, cov: %s, restored: %s)" % (
                            not bad4, not bad5, np.array_equal(np.asarray(r6), first))
                except Exception as e:
                    extras["wrap_ok"] = False
                    extras["hist"] = "re-assigning prior.mean / prior.cov on the same objects raised %r" % (e,)
            # compute_cov() then re-assignment of the defining factor: the cached covariance must not survive
            for key, dist, dim in (("cx", BP.prior, n), ("ce", BP.likelihood.distribution, m)):
                g = meta[key]
                if g.get("compute_cov") and g["param"] in ("sqrtprec", "prec", "sqrtcov") and g["kind"] in ("matrix", "scalar", "vector"):
                    old_val = getattr(dist, g["param"])
                    g2 = dict(g)
                    g2["val"] = g2["val"] * 2 if g2["kind"] == "scalar" else (np.array(g2["val"]) * 2).tolist()
                    setattr(dist, g["param"], np_cov_value(g2))
                    try:
                        quiet(BP.MAP)
                        stale = True
                    except NotImplementedError:
                        stale = False
                    except Exception:
                        stale = False
                    setattr(dist, g["param"], old_val if not hasattr(old_val, "copy") else old_val.copy())
                    dist.compute_cov()
                    r7 = quiet(BP.MAP)
                    if stale or not np.allclose(np.asarray(r7), first, rtol=1e-10, atol=1e-12):
                        extras["wrap_ok"] = False
                        extras["hist"] = "after compute_cov() and re-assignment of %s.%s MAP() %s" % (
                            key, g["param"], "used the stale cached covariance instead of refusing" if stale else "does not come back to the first estimate once restored")
    except Exception as e:
        obs = err_kind(e)
        extras["wrap_ok"] = True
        extras["exc"] = repr(e)[:200]
    return obs, A_eff, m, n, computed, extras, BP


def map_oracle(cuqi, meta, obs, A_eff, m, n, BP, computed=None):
    """the property on the implementation: a returned point is the posterior mean, a stationary point and no nearby
    point has larger posterior density; a refusal is not a failure"""
    if isinstance(obs, str):
        if obs == "Other:nonfinite":
            return "MAP returned non-finite values"
        if obs.startswith("Other"):
            return "MAP raised an unexpected exception kind: %s" % obs
        return None
    Ce, Cx = intended_cov(meta["ce"], m), intended_cov(meta["cx"], n)
    A_true = A_eff
    if computed is not None and "A_true" in computed:
        A_true = computed["A_true"]
        if A_true is None:      # forward map not linear in the parameters: judge by the posterior's own logd
            return refine_fail(BP.posterior, np.array(obs), "MAP (closed form, parameter map not linear)")
    A = [[F(v) for v in row] for row in A_true.tolist()]
    mean, C, H = posterior_exact(A, [F(v) for v in meta["b"]], full_x0(meta, n), Ce, Cx)
    if not close_v(obs, mean, rel=bool(meta.get("scale"))):
        return "MAP returned %s but the posterior mean is %s" % ([float("%.9g" % v) for v in obs], [float("%.9g" % float(v)) for v in mean])
    x = np.array(obs)
    if meta.get("scale"):
        return None
    try:
        lp = float(BP.posterior.logd(x))
        rs = np.random.RandomState(7)
        for k in range(6):
            d = rs.standard_normal(n) * 10.0 ** (-(k % 3) - 1)
            if float(BP.posterior.logd(x + d)) > lp + 1e-9 * (1 + abs(lp)):
                return "posterior.logd is larger at a nearby point (+%s) than at the returned MAP" % d
    except NotImplementedError:
        pass
    return None


def probe_fixed(cuqi):
    obs, A_eff, m, n, _, _, BP = run_map(cuqi, WITNESS_NOISE)
    bad_noise = map_oracle(cuqi, WITNESS_NOISE, obs, A_eff, m, n, BP)
    obs2, A_eff2, m2, n2, _, _, BP2 = run_map(cuqi, WITNESS_PRIOR)
    bad_prior = map_oracle(cuqi, WITNESS_PRIOR, obs2, A_eff2, m2, n2, BP2)
    return bad_noise, bad_prior, obs, obs2


def known_witnesses(ctx):
    import cuqi
    bad_noise, bad_prior, o1, o2 = probe_fixed(cuqi)
    out = {SIG_NOISE: (bool(bad_noise), bad_noise or "witness returns the posterior mean"),
           SIG_PRIOR: (bool(bad_prior), bad_prior or "witness returns the posterior mean (or is refused)")}
    try:
        obs, A_eff, m, n, computed, extras, BP = run_map(cuqi, WITNESS_GEOM)
        bad = map_oracle(cuqi, WITNESS_GEOM, obs, A_eff, m, n, BP, computed)
        out[SIG_GEOM] = (bool(bad), bad or "witness returns the posterior mean (or is refused)")
    except Exception as e:
        out[SIG_GEOM] = (False, "witness call now fails: %r" % (e,))
    try:
        obs, A_eff, m, n, computed, extras, BP = run_map(cuqi, WITNESS_NONLIN)
        bad = map_oracle(cuqi, WITNESS_NONLIN, obs, A_eff, m, n, BP, computed)
        out[SIG_NONLIN] = (bool(bad), bad or "witness: the closed form is refused or is a maximiser")
    except Exception as e:
        out[SIG_NONLIN] = (False, "witness call now fails: %r" % (e,))
    try:
        st, same_lik, data_same, map_same, m1, m2 = sprior_observe(cuqi, WITNESS_SPRIOR)
        bad = not (same_lik and data_same and map_same)
        out[SIG_SPRIOR] = (bad, "after sample_prior() MAP() changed from %s to %s (likelihood object kept: %s)" % (m1, m2, same_lik) if bad else "witness: problem unchanged by sample_prior()")
    except Exception as e:
        out[SIG_SPRIOR] = (False, "witness call now fails: %r" % (e,))
    # non-smooth prior: the maximiser of the witness posterior is (0, 0); MAP() returns normally with another point
    try:
        BP = build_classes(cuqi, WITNESS_NONSMOOTH)
        r = quiet(BP.MAP)
        x = np.asarray(r, dtype=float)
        gap = float(BP.posterior.logd(np.zeros(2))) - float(BP.posterior.logd(x))
        bad = gap > 1e-6
        out[SIG_NONSMOOTH] = (bad, "MAP() returned %s (info success=%s) but posterior.logd is larger by %.3g at [0, 0]" % (np.round(x, 6).tolist(), r.info.get("success"), gap)
                              if bad else "witness: MAP() is within 1e-6 of the maximum")
    except Exception as e:
        out[SIG_NONSMOOTH] = (False, "witness call now fails: %r" % (e,))
    return out


# ---------------------------------------------------------------------------------------------------------
# generators
# ---------------------------------------------------------------------------------------------------------
def dy(rng, lo=-4, hi=4, den=2):
    return rng.randint(lo * den, hi * den) / den


def gen_A(rng, m, n):
    while True:
        A = [[rng.choice([0, 0, 1, -1, 2, -2, 0.5, 1.5, -0.5, 3]) for _ in range(n)] for _ in range(m)]
        if np.linalg.matrix_rank(np.array(A)) == min(m, n):
            return A


def gen_spd(rng, d):
    G = [[rng.choice([0, 0, 1, -1, 0.5]) for _ in range(d)] for _ in range(d)]
    D = [rng.choice([0.5, 1, 2, 1.5]) for _ in range(d)]
    M = np.array(G) @ np.array(G).T + np.diag(D)
    return M.tolist()


def gen_structured(rng, d, structure):
    """SPD dyadic matrices that are NOT generic: exactly decoupled blocks (also in a permuted order), arrow-shaped zeros"""
    sizes = []
    left = d
    while left > 0:
        k = min(left, rng.choice([1, 2, 2, 3]))
        sizes.append(k)
        left -= k
    M = np.zeros((d, d))
    i = 0
    for k in sizes:
        M[i:i + k, i:i + k] = np.array(gen_spd(rng, k))
        i += k
    if structure == "arrow":
        M = np.diag([rng.choice([2, 3, 4]) for _ in range(d)]).astype(float)
        for j in range(1, d):
            M[0, j] = M[j, 0] = rng.choice([0.5, -0.5, 0])
        M[0, 0] = d + 1.0
    elif structure == "permblock":
        perm = list(range(d))
        rng.shuffle(perm)
        M = M[np.ix_(perm, perm)]
    return M.tolist()


def gen_cov(rng, kind, dim, param="cov"):
    if kind in ("block", "permblock", "arrow"):
        return {"param": param, "kind": "matrix", "val": gen_structured(rng, dim, kind), "structure": kind}
    if kind == "scalar":
        return {"param": param, "kind": "scalar", "val": rng.choice([0.25, 0.5, 1, 2, 1.5, 4])}
    if kind == "vec1":
        return {"param": param, "kind": "vector", "val": [rng.choice([0.25, 0.5, 2, 1.5, 4])]}
    if kind == "vector":
        return {"param": param, "kind": "vector", "val": [rng.choice([0.25, 0.5, 1, 2, 1.5, 4]) for _ in range(dim)]}
    if kind == "diagm":
        return {"param": param, "kind": "matrix", "val": np.diag([rng.choice([0.25, 0.5, 1, 2, 4]) for _ in range(dim)]).tolist()}
    M = gen_spd(rng, dim)
    return {"param": param, "kind": "sparse" if kind == "sparse" else "matrix", "val": M}


FACTORS = ["upper", "lower", "symroot", "general", "signedperm"]


def gen_factor(rng, d, shape):
    """a nonsingular dyadic d x d square-root factor R of the requested shape (precision R^T R / covariance R R^T)"""
    while True:
        U = np.triu(np.array([[rng.choice([0, 0.5, -0.5, 1, -1]) for _ in range(d)] for _ in range(d)], dtype=float), 1)
        U += np.diag([rng.choice([0.5, 1, 2, 1.5]) for _ in range(d)])
        if shape == "upper":
            R = U
        elif shape == "lower":
            R = U.T
        elif shape == "symroot":
            G = np.array([[rng.choice([0, 0, 0.5, -0.5]) for _ in range(d)] for _ in range(d)])
            R = G + G.T + np.diag([rng.choice([2, 3, 2.5]) for _ in range(d)])
            if np.min(np.linalg.eigvalsh(R)) <= 0.2:
                continue
        elif shape == "general":
            R = U + np.tril(np.array([[rng.choice([0, 0.5, -0.5, 1]) for _ in range(d)] for _ in range(d)], dtype=float), -1)
        else:
            perm = list(range(d))
            rng.shuffle(perm)
            Pm = np.zeros((d, d))
            for i, j in enumerate(perm):
                Pm[i, j] = rng.choice([1, -1])
            R = Pm @ U
        if d > 1 and shape != "upper" and np.allclose(R, np.triu(R)):
            continue                          # must NOT be upper triangular (that is the class every derived factor is in)
        if abs(np.linalg.det(R)) > 0.2 and np.linalg.cond(R) < 30:
            return R.tolist()


def well_conditioned(meta, A_eff, m, n):
    try:
        Ce = np.array([[float(v) for v in r] for r in intended_cov(meta["ce"], m)])
        Cx = np.array([[float(v) for v in r] for r in intended_cov(meta["cx"], n)])
    except Exception:
        return False
    S = A_eff @ Cx @ A_eff.T + Ce
    H = A_eff.T @ np.linalg.inv(Ce) @ A_eff + np.linalg.inv(Cx)
    # the row-broadcast / dot-product systems of the unrepaired code must be well conditioned as well
    S2 = A_eff @ Cx @ A_eff.T + np.diag(Ce)[None, :] * np.ones((m, 1))
    cs = [np.linalg.cond(S), np.linalg.cond(H)]
    if m <= n + 1:
        cs.append(np.linalg.cond(S2))
    # (for m > n + 1 the row-broadcast system A Cx A^T + 1 v^T of the unrepaired code has rank <= n + 1 < m: exactly
    #  singular; numpy then raises LinAlgError -- what the model says -- or returns garbage, which the oracle reports
    #  under the vector-noise-covariance signature)
    if m == n:
        w = A_eff @ (A_eff @ np.diag(Cx))
        cs.append(np.linalg.cond(Ce + w[None, :]))
    return all(np.isfinite(c) and c < 2e3 for c in cs)


def lattice_map(ctx):
    """explicit enumeration of the cells of the closed-form branch; the seed only picks the numbers"""
    cells = []
    shapes = [(2, 3), (3, 3), (3, 2), (1, 2), (2, 1), (1, 1), (2, 2)] + ([(4, 4), (3, 5), (5, 3), (6, 4), (4, 6)] if ctx.thorough else [(4, 3)])
    covkinds = ["scalar", "vec1", "vector", "matrix", "sparse", "diagm"]
    # 1. covariance forms, cov= parameterisation, every (noise kind x prior kind) x three shapes
    for ke in covkinds:
        for kx in covkinds:
            for (m, n) in [(2, 3), (3, 3), (3, 2)]:
                cells.append(dict(m=m, n=n, ke=ke, kx=kx, pe="cov", px="cov", model="dense", geom="default", mean="vec"))
    # 2. shapes x {vector noise, vector prior, matrix}
    for (m, n) in shapes:
        for ke, kx in [("vector", "matrix"), ("matrix", "vector"), ("matrix", "matrix"), ("scalar", "scalar"), ("vector", "scalar"), ("scalar", "vector")]:
            cells.append(dict(m=m, n=n, ke=ke, kx=kx, pe="cov", px="cov", model="dense", geom="default", mean="vec"))
    # 3. model forms x geometry
    for model, geom in [("dense", "named"), ("func", "default"), ("func", "named"), ("sparse", "default"), ("func", "step"), ("sparse", "named")]:
        for ke, kx in [("matrix", "matrix"), ("scalar", "matrix"), ("vector", "matrix"), ("matrix", "scalar"), ("sparse", "vector")]:
            for (m, n) in [(2, 3), (3, 3), (3, 2)]:
                cells.append(dict(m=m, n=n, ke=ke, kx=kx, pe="cov", px="cov", model=model, geom=geom, mean="vec"))
    # 4. parameterisations: refusals, and compute_cov() before the call
    for pe, px in itertools.product(PARAMS, PARAMS):
        for cc in (False, True):
            if pe == "cov" and px == "cov" and not cc:
                continue
            for ke, kx in [("scalar", "scalar"), ("vector", "diagm"), ("diagm", "vector")]:
                cells.append(dict(m=2, n=3, ke=ke, kx=kx, pe=pe, px=px, model="dense", geom="default", mean="vec",
                                  cce=cc and (pe != "cov" or ke == "vector"), ccx=cc and (px != "cov" or kx == "vector")))
    # 7. declaration styles of the same covariance / mean / data (style != structure)
    for ke, kx, se, sx in [("scalar", "scalar", "1x1", "npfloat"), ("scalar", "scalar", "npfloat", "list"), ("vector", "vector", "list", "ndarray"),
                           ("vector", "matrix", "ndarray", "list"), ("matrix", "matrix", "list", "matrix"), ("matrix", "matrix", "fortran", "list"),
                           ("diagm", "matrix", "matrix", "fortran"), ("sparse", "sparse", "csc", "csr")]:
        for (m, n) in [(2, 3), (3, 2)]:
            for mst, dst in [("list", "list"), ("cuqiarray", "cuqiarray"), ("ndarray", "ctor")]:
                cells.append(dict(m=m, n=n, ke=ke, kx=kx, pe="cov", px="cov", model="dense", geom="default", mean="vec",
                                  se=se, sx=sx, mean_style=mst, data_style=dst, history=True))
    # 8. callables writing into persistent buffers; repeated use of one problem (history)
    for ke, kx in [("matrix", "matrix"), ("scalar", "vector"), ("vector", "scalar")]:
        for (m, n) in [(2, 3), (3, 3), (3, 2)]:
            for model in ("func_buf", "func_strided", "dense", "func", "sparse"):
                cells.append(dict(m=m, n=n, ke=ke, kx=kx, pe="cov", px="cov", model=model, geom="default", mean="vec", history=True))
    # 9. magnitude sweep (dyadic factors; compared relative to the largest component): data scale t (b, x0 by t, covariances
    #    by t^2) and model scale t (A by t, prior covariance by t^-2, prior mean by 1/t)
    for k in (-30, -8, 8, 14):
        for kind in ("data", "model"):
            for ke, kx in [("matrix", "matrix"), ("scalar", "scalar"), ("vector", "vector"), ("diagm", "matrix")]:
                for (m, n) in [(2, 3), (3, 2)]:
                    cells.append(dict(m=m, n=n, ke=ke, kx=kx, pe="cov", px="cov", model="dense", geom="default", mean="vec", scale=(kind, k)))
    # 10. the optional arguments of MAP on the closed-form route: x0 in every style and relation to the prior mean, disp
    for ke, kx in [("matrix", "matrix"), ("scalar", "scalar"), ("vector", "vector")]:
        for (m, n) in [(2, 3), (3, 3), (3, 2)]:
            for i, xs in enumerate(["prior", "other", "zeros", "scalar", "list", "cuqiarray"]):
                cells.append(dict(m=m, n=n, ke=ke, kx=kx, pe="cov", px="cov", model=["dense", "func", "sparse"][i % 3], geom="default", mean="vec",
                                  x0arg=xs, disp=bool((i + m) % 2)))
    # 11. user-supplied square-root factors of every shape (stored as given for sqrtprec), noise AND prior, compute_cov() first
    for par in ("sqrtprec", "sqrtcov"):
        for fac in FACTORS:
            for side in ("noise", "prior", "both"):
                for (m, n) in [(2, 3), (3, 3), (3, 2)]:
                    cells.append(dict(m=m, n=n, ke="factor" if side != "prior" else "matrix", kx="factor" if side != "noise" else "matrix",
                                      pe=par if side != "prior" else "cov", px=par if side != "noise" else "cov", fac=fac,
                                      model="dense", geom="default", mean="vec", cce=side != "prior", ccx=side != "noise", history=(m == 3 and n == 3)))
    # 12. dtype and memory layout of every input (integer / float32 / Fortran / strided view / read-only; integer covariances)
    for dtk in ("int", "intcov", "float32", "fortran", "view", "readonly"):
        for ke, kx in [("matrix", "matrix"), ("vector", "vector"), ("scalar", "scalar")]:
            for (m, n) in [(2, 3), (3, 2)]:
                cells.append(dict(m=m, n=n, ke=ke, kx=kx, pe="cov", px="cov", model="dense" if dtk != "float32" else "sparse", geom="default",
                                  mean="vec", dt=dtk, history=(dtk in ("readonly", "view"))))
    # 13. falsy-but-legitimate values: zero data, zero prior mean with a zero / 0.0 initial guess
    for ke, kx in [("matrix", "matrix"), ("scalar", "vector")]:
        for (m, n) in [(2, 3), (3, 2)]:
            cells.append(dict(m=m, n=n, ke=ke, kx=kx, pe="cov", px="cov", model="dense", geom="default", mean="vec", falsy="b"))
            cells.append(dict(m=m, n=n, ke=ke, kx=kx, pe="cov", px="cov", model="dense", geom="default", mean="vec", falsy="x0", x0arg="scalar", disp=False))
    # 14. scipy-sparse covariance with ONE stored entry (1x1): np.size == 1 -> C.ravel() -> AttributeError (a refusal)
    for (m, n, ke, kx) in [(1, 2, "sparse", "scalar"), (1, 1, "sparse", "matrix"), (2, 1, "matrix", "sparse"), (1, 1, "sparse", "sparse"), (1, 3, "sparse", "vector")]:
        cells.append(dict(m=m, n=n, ke=ke, kx=kx, pe="cov", px="cov", model="dense", geom="default", mean="vec", single=True))
    # 15. names: the unknown / the data variable named like attributes and arguments of the code (mean, cov, x0, data, b, prec)
    for xn, yn in [("mean", "y"), ("x0", "b"), ("prec", "y"), ("sqrtprec", "cov_e"), ("data", "mean_y"), ("disp", "Ns")]:   # (an unknown named `cov` collides with the attribute of the cov-parameterised data distribution at conditioning: raises, C01)
        for (m, n) in [(2, 3), (3, 2)]:
            cells.append(dict(m=m, n=n, ke="matrix", kx="vector", pe="cov", px="cov", model="dense", geom="default", mean="vec", names=(xn, yn)))
    # 16. exact zeros inside otherwise generic data: initial guess / prior mean / data with SOME zero components
    for (m, n) in [(2, 3), (3, 3), (3, 2)]:
        cells.append(dict(m=m, n=n, ke="matrix", kx="matrix", pe="cov", px="cov", model="dense", geom="default", mean="vec", x0arg="mixed", disp=True, zeros=True))
        cells.append(dict(m=m, n=n, ke="vector", kx="scalar", pe="cov", px="cov", model="func", geom="default", mean="vec", zeros=True))
    # 17. large common offsets of data and prior mean (the estimate moves with them; compared relative to the largest component)
    for k in (16, 24):
        for ke, kx in [("matrix", "matrix"), ("scalar", "vector")]:
            for (m, n) in [(3, 3), (3, 2)]:
                cells.append(dict(m=m, n=n, ke=ke, kx=kx, pe="cov", px="cov", model="dense", geom="default", mean="vec", offset=k))
    # 6. matrix model + non-identity geometry (finding ..|matrix-model+nonidentity-geometry; step_mat is a refusal)
    for geom in NONID:
        for (m, n) in [(2, 3), (3, 3), (3, 2)]:
            for ke, kx in [("scalar", "scalar"), ("matrix", "matrix")]:
                cells.append(dict(m=m, n=n, ke=ke, kx=kx, pe="cov", px="cov", model="dense", geom=geom, mean="vec"))
    # 5. scalar prior mean (length-1 array): n = 1 works, n > 1 is refused
    for (m, n) in [(2, 1), (1, 1), (2, 3), (3, 3)]:
        for ke, kx in [("scalar", "scalar"), ("matrix", "matrix"), ("vector", "scalar")]:
            cells.append(dict(m=m, n=n, ke=ke, kx=kx, pe="cov", px="cov", model="dense", geom="default", mean="scalar"))
    return cells


def instantiate(rng, c, op="map"):
    m, n = c["m"], c["n"]
    for attempt in range(200):
        meta = {"op": op, "model": c["model"], "geom": c["geom"]}
        if c["geom"] in ("step", "step_mat"):
            reps = rng.choice([2, 3])
            meta["n"], meta["reps"] = n, reps
            meta["A"] = gen_A(rng, m, n * reps)
        elif c["geom"] in NONID:
            meta["n"] = n
            meta["c"] = rng.choice([2, 0.5, 4])
            meta["A"] = gen_A(rng, m, n)
        else:
            meta["A"] = gen_A(rng, m, n)
        meta["b"] = [dy(rng) for _ in range(m)]
        meta["mean"] = ({"kind": "scalar", "val": dy(rng)} if c["mean"] == "scalar"
                        else {"kind": "vec", "val": [rng.choice([0, 0, dy(rng)]) for _ in range(n)] if rng.random() < 0.7 else [0] * n})
        meta["ce"] = ({"param": c["pe"], "kind": "matrix", "val": gen_factor(rng, m, c["fac"]), "factor": c["fac"]} if c["ke"] == "factor"
                      else gen_cov(rng, c["ke"], m, c["pe"]))
        meta["cx"] = ({"param": c["px"], "kind": "matrix", "val": gen_factor(rng, n, c["fac"]), "factor": c["fac"]} if c["kx"] == "factor"
                      else gen_cov(rng, c["kx"], n, c["px"]))
        if c.get("cce"):
            meta["ce"]["compute_cov"] = True
        if c.get("ccx"):
            meta["cx"]["compute_cov"] = True
        # sparse matrices with a single stored entry have np.size == 1 (nnz): outside the lattice
        bad = False
        for g in (meta["ce"], meta["cx"]):
            if g["kind"] == "sparse" and np.count_nonzero(np.array(g["val"])) <= 1 and not c.get("single"):
                bad = True
        if bad:
            continue
        if c.get("single"):
            meta["single"] = True
            return meta
        try:      # Gaussian(cov=<sparse full matrix>) is refused for some SPD matrices without cholmod (C04): redraw
            import cuqi
            for g, d in ((meta["ce"], m), (meta["cx"], n)):
                if g["kind"] == "sparse":
                    build_gaussian(cuqi, np.zeros(d), g)
        except Exception:
            continue
        A = np.array(meta["A"], dtype=float)
        if c["geom"] == "step":
            P = np.kron(np.eye(n), np.ones((meta["reps"], 1)))
            A_eff = A @ P
            if np.linalg.matrix_rank(A_eff) < min(m, n):
                continue
        elif c["geom"] == "step_mat":        # unrepaired get_matrix: refused on the shape mismatch; repaired: a value -> keep it well conditioned
            A_eff = A @ np.kron(np.eye(n), np.ones((meta["reps"], 1)))
            if np.linalg.matrix_rank(A_eff) < min(m, n):
                continue
        else:
            A_eff = A
        if c["geom"] in NONID and c["mean"] == "vec":
            # the prior mean must not reproduce the data (else the wrong and the right estimate coincide at x0)
            meta["mean"] = {"kind": "vec", "val": [dy(rng) for _ in range(n)]}
        if well_conditioned(meta, A_eff, m, n):
            for key in ("mean_style", "data_style", "history"):
                if c.get(key):
                    meta[key] = c[key]
            if c.get("se"):
                meta["ce"]["style"] = c["se"]
            if c.get("sx"):
                meta["cx"]["style"] = c["sx"]
            if c.get("dt"):
                # integer-valued inputs: every entry a multiple of 1/2 (covariances of 1/4) -> scale, then re-check conditioning
                meta["A"] = (np.array(meta["A"]) * 2).tolist()
                meta["b"] = [v * 2 for v in meta["b"]]
                meta["mean"]["val"] = [v * 2 for v in meta["mean"]["val"]]
                for g in (meta["ce"], meta["cx"]):
                    g["val"] = g["val"] * 4 if g["kind"] == "scalar" else (np.array(g["val"]) * 4).tolist()
                    if c["dt"] == "intcov":
                        g["int"] = True
                if not well_conditioned(meta, np.array(meta["A"], dtype=float), m, n):
                    continue
                meta["dt"] = c["dt"]
            if c.get("names"):
                meta["names"] = list(c["names"])
            if c.get("zeros"):
                meta["b"][0] = 0.0
                meta["mean"]["val"] = [0.0 if i % 2 == 0 else (v if v else 1.5) for i, v in enumerate(meta["mean"]["val"])]
            if c.get("offset"):
                # x -> x + t 1 in the parameters: prior mean + t, data + t A 1 : the estimate is the old one + t (checked exactly by the oracle)
                t = 2.0 ** c["offset"]
                meta["mean"]["val"] = [v + t for v in meta["mean"]["val"]]
                meta["b"] = (np.array(meta["b"]) + t * np.array(meta["A"]).sum(axis=1)).tolist()
                meta["scale"] = ["offset", c["offset"]]
            if c.get("falsy") == "b":
                meta["b"] = [0.0] * m
                if not any(meta["mean"]["val"]):
                    meta["mean"]["val"] = [dy(rng, 1, 3) for _ in range(n)]
            if c.get("x0arg"):
                xs = c["x0arg"]
                pm = [float(v) for v in meta["mean"]["val"]] if meta["mean"]["kind"] == "vec" else [float(meta["mean"]["val"])] * n
                val = {"prior": pm, "zeros": [0.0] * n, "scalar": 0.0 if c.get("falsy") == "x0" else dy(rng) + 0.25}.get(xs)
                if xs == "mixed":
                    val = [0.0 if i % 2 == 1 else v + dy(rng, 1, 3) for i, v in enumerate(pm)]
                if val is None:
                    val = [v + dy(rng, 1, 3) for v in pm]           # differs from the prior mean in every component
                meta["x0arg"] = {"style": xs if xs in ("scalar", "list", "cuqiarray") else "ndarray", "val": val, "rel": xs}
                meta["disp"] = c["disp"]
                if xs in ("zeros", "prior") and not any(pm):
                    meta["mean"] = {"kind": "vec", "val": [dy(rng, 1, 3) for _ in range(n)]}     # keep zeros != prior mean
                    if xs == "prior":
                        meta["x0arg"]["val"] = [float(v) for v in meta["mean"]["val"]]
            if c.get("scale"):
                kind, k = c["scale"]
                t = 2.0 ** k
                sc = lambda g, f: g.update(val=(g["val"] * f if g["kind"] == "scalar" else (np.array(g["val"]) * f).tolist()))
                if kind == "data":
                    meta["b"] = [v * t for v in meta["b"]]
                    meta["mean"]["val"] = [v * t for v in meta["mean"]["val"]]
                    sc(meta["ce"], t * t)
                    sc(meta["cx"], t * t)
                else:
                    meta["A"] = (np.array(meta["A"]) * t).tolist()
                    meta["mean"]["val"] = [v / t for v in meta["mean"]["val"]]
                    sc(meta["cx"], 1 / (t * t))
                meta["scale"] = [kind, k]
            return meta
    raise RuntimeError("could not instantiate cell %r" % (c,))


def cell_name(c, op):
    par = "" if (c["pe"], c["px"]) == ("cov", "cov") else "/param:%s,%s%s" % (c["pe"], c["px"], "+compute_cov" if (c.get("cce") or c.get("ccx")) else "")
    shape = "m<n" if c["m"] < c["n"] else ("m=n" if c["m"] == c["n"] else "m>n")
    extra = ""
    if c.get("se"):
        extra += "/style:%s,%s,%s,%s" % (c["se"], c["sx"], c["mean_style"], c["data_style"])
    if c.get("scale"):
        extra += "/scale:%s*2^%d" % c["scale"]
    if c.get("history"):
        extra += "/history"
    if c.get("x0arg"):
        extra += "/x0:%s,disp:%s" % (c["x0arg"], c["disp"])
    if c.get("fac"):
        extra += "/factor:" + c["fac"]
    if c.get("names"):
        extra += "/names:%s,%s" % tuple(c["names"])
    if c.get("zeros"):
        extra += "/some-exact-zeros"
    if c.get("offset"):
        extra += "/offset:2^%d" % c["offset"]
    if c.get("single"):
        extra += "/single-entry-sparse"
    if c.get("dt"):
        extra += "/dtype:" + c["dt"]
    if c.get("falsy"):
        extra += "/falsy:" + c["falsy"]
    return "%s/%s-%s/Ce:%s,Cx:%s%s/mean:%s/%s%s" % (op, c["model"], c["geom"], c["ke"], c["kx"], par, c["mean"], shape, extra)


# ---------------------------------------------------------------------------------------------------------
# op = map
# ---------------------------------------------------------------------------------------------------------
def classify_map(meta, m, n):
    ve = meta["ce"]["kind"] == "vector" and len(meta["ce"]["val"]) > 1 and not meta["ce"].get("compute_cov")
    vx = meta["cx"]["kind"] == "vector" and len(meta["cx"]["val"]) > 1 and not meta["cx"].get("compute_cov")
    if vx:
        return SIG_PRIOR
    if ve:
        return SIG_NOISE
    return SIG_OTHER


def predict_unrepaired(meta, A_eff, m, n):
    """what the code WITHOUT fixes/C15_vector_cov.diff returns for a 1-d covariance (numpy semantics written out)"""
    try:
        A = np.array(A_eff, dtype=float)
        b = np.array(meta["b"], dtype=float)
        x0 = np.array([float(v) for v in full_x0(meta, n)])
        def val(g, dim):
            if g["kind"] == "vector" and len(g["val"]) > 1:
                return np.array(g["val"], dtype=float)
            return np.array([[float(v) for v in r] for r in intended_cov(g, dim)])
        Ce, Cx = val(meta["ce"], m), val(meta["cx"], n)
        sysm = A @ Cx @ A.T + Ce
        return (x0 + Cx @ (A.T @ np.linalg.solve(sysm, b - A @ x0))).tolist()
    except Exception:
        return None


def model_matrix(meta, A_eff, computed):
    """the matrix get_matrix() hands to MAP in the state the tree is in: the stored one, or (C07 repair) the one assembled from forward"""
    if meta.get("geom") in NONID and GEOM_FIXED[0]:
        return computed["A_cols"]
    return A_eff


def probe_geom_fixed(cuqi):
    obs, A_eff, m, n, computed, extras, BP = run_map(cuqi, WITNESS_GEOM)
    return map_oracle(cuqi, WITNESS_GEOM, obs, A_eff, m, n, BP, computed) is None


def case_map(cuqi, meta, fixed, cell):
    if meta.get("single"):
        # Gaussian(cov=<1x1 scipy matrix>) is already refused by the constructor (AttributeError at cov.ravel()); were such an
        # object to exist MAP would fail the same way (model clause sparse_single).  The cell pins the refusal.
        try:
            build_problem(cuqi, meta)
            obs = "constructed"
        except Exception as e:
            obs = err_kind(e)
        A = np.array(meta["A"], dtype=float)
        m, n = A.shape
        expr = "check_map %s %s %s %s %s %s %s %s %s" % (cbool(fixed), cnat(m), cnat(n), cqmat(A.tolist()), cqvec(meta["b"]), cqvec(model_x0(meta, n)),
                                                       c_gdesc(meta["ce"], m), c_gdesc(meta["cx"], n), c_obs(obs))
        return Case(expr=expr, meta=meta, cell=cell, kind="DECISION")
    obs, A_eff, m, n, computed, extras, BP = run_map(cuqi, meta)
    fail = map_oracle(cuqi, meta, obs, A_eff, m, n, BP, computed)
    if fail is None and not extras["wrap_ok"]:
        fail = extras.get("hist") or ("MAP result is not a parameter CUQIarray on the posterior geometry with info {'solver': 'direct'}, or a repeated "
                                      "call / intermediate use of the problem changed an estimate, the prior mean, the data or the matrix")
    sig = classify_map(meta, m, n)
    if fail and sig in (SIG_NOISE, SIG_PRIOR):
        # a repaired signature is only named when the deviation is exactly the one that defect produces
        pred = predict_unrepaired(meta, A_eff, m, n)
        if isinstance(obs, str) or pred is None or np.ndim(pred) != 1 or not close_v(obs, pred):
            sig = SIG_OTHER
    A_model = np.array(model_matrix(meta, A_eff, computed), dtype=float)
    if fail and meta.get("geom") in NONID:
        # the defect predicts exactly: the posterior mean of the problem with the matrix get_matrix() hands out (the stored
        # one, or with the C07 repair the one assembled at unit vectors) in the place of the true map
        try:
            pred, _, _ = posterior_exact([[F(v) for v in row] for row in A_model.tolist()], [F(v) for v in meta["b"]], full_x0(meta, n),
                                         intended_cov(meta["ce"], m), intended_cov(meta["cx"], n))
            ok = not isinstance(obs, str) and close_v(obs, pred)
            sig = (SIG_NONLIN if meta["geom"] == "mapped_sq" else SIG_GEOM) if ok else SIG_OTHER
        except Exception:
            sig = SIG_OTHER
    A_eff = A_model
    rel = bool(meta.get("scale")) and not isinstance(obs, str)
    if meta.get("x0arg") is not None or meta.get("disp") is not None:
        xa = meta.get("x0arg")
        xav = None if xa is None else ([xa["val"]] if xa["style"] == "scalar" else list(xa["val"]))
        expr = "check_map_entry %s %s %s %s %s %s %s %s %s %s %s && %s" % (
            cbool(fixed), cnat(m), cnat(n), cqmat(A_eff.tolist()), cqvec(meta["b"]), cqvec(model_x0(meta, n)),
            copt(xav, cqvec), cbool(meta.get("disp", True)),
            c_gdesc(meta["ce"], m, computed.get("ce")), c_gdesc(meta["cx"], n, computed.get("cx")), c_obs(obs), cbool(extras["wrap_ok"]))
    else:
        expr = "%s %s %s %s %s %s %s %s %s %s && %s" % (
            "check_map_rel" if rel else "check_map",
            cbool(fixed), cnat(m), cnat(n), cqmat(A_eff.tolist()), cqvec(meta["b"]), cqvec(model_x0(meta, n)),
            c_gdesc(meta["ce"], m, computed.get("ce")), c_gdesc(meta["cx"], n, computed.get("cx")),
            cqvec(obs) if rel else c_obs(obs), cbool(extras["wrap_ok"]))
    if not isinstance(obs, str) and meta.get("geom", "default") not in NONID:
        # the hypotheses of C15_closed_form_equals_posterior_mean, decided by the model on this very instance
        expr += " && check_mode_hyps %s %s %s %s %s %s" % (cnat(m), cnat(n), cqmat(A_eff.tolist()), cqvec(meta["b"]),
                                                     c_gdesc(meta["ce"], m, computed.get("ce")), c_gdesc(meta["cx"], n, computed.get("cx")))
    return Case(expr=expr, meta=meta, cell=cell, kind="EXACT", impl_fail=fail, signature=sig if fail else "")


# ---------------------------------------------------------------------------------------------------------
# op = sample
# ---------------------------------------------------------------------------------------------------------
def run_sample(cuqi, meta):
    BP, A_eff, m, n, computed = build_problem(cuqi, meta)
    Ns = n + 2
    z_last = [float(v) for v in meta["z"]]
    zs = [np.zeros(n)] + [np.eye(n)[i] for i in range(n)] + [np.array(z_last)]
    calls = []

    def script(kind, a, k, idx):
        calls.append((kind, a))
        if kind == "randn":
            return zs[min(len([c for c in calls if c[0] == "randn"]) - 1, len(zs) - 1)].copy()
        return None
    cb = []
    kept = []          # the very objects handed to the callback, NOT copied: re-read after the run (aliasing over time)
    out = {"computed": computed, "A_eff": A_eff, "m": m, "n": n, "BP": BP}
    try:
        sargs = dict(meta.get("sargs") or {})
        entry = sargs.pop("entry", "sample_posterior")
        Ns_run = Ns
        with ScriptedRandom(seed=1, script=script):
            if entry == "UQ":       # UQ = sample_posterior + plots: must hand back the very samples of the direct route
                import matplotlib.pyplot as plt
                try:
                    if sargs.pop("defaults", False):        # the shipped defaults: Ns=1000, Nb=None, percent=95
                        S = quiet(BP.UQ)
                        Ns_run = 1000
                    else:
                        S = quiet(BP.UQ, Ns=Ns, **sargs)
                finally:
                    plt.close("all")
            else:
                def user_cb(s_, i_):
                    cb.append((s_.copy(), i_))
                    kept.append(s_)
                S = quiet(BP.sample_posterior, Ns, callback=user_cb, **sargs)
        X = np.array(S.samples, dtype=float)
        if not np.all(np.isfinite(X)):
            raise FloatingPointError("non-finite draws")
        tail_ok = True
        if Ns_run > Ns and X.shape == (n, Ns_run):          # every later draw repeats the last scripted normal
            tail_ok = bool(np.all(X[:, Ns:] == X[:, [Ns - 1]]))
            X = X[:, :Ns]
        out["samples"] = X
        out["flags"] = bool(X.shape == (n, Ns) and tail_ok and S.geometry is BP.model.domain_geometry
                            and [c for c in calls] == [("randn", (n,))] * Ns_run
                            and (entry == "UQ" or ([i for _, i in cb] == list(range(Ns))
                                                   and all(np.array_equal(s, X[:, i]) for s, i in cb)
                                                   and all(np.array_equal(np.asarray(k_), X[:, i]) for i, k_ in enumerate(kept)))))
        out["obs"] = "ok"
    except Exception as e:
        out["obs"] = err_kind(e)
        out["exc"] = repr(e)[:200]
        out["flags"] = True
    return out


def sample_oracle(meta, out):
    if out["obs"] == "ok" and out["samples"].shape != (out["n"], out["n"] + 2):
        return "wrong number of draws"
    if out["obs"] != "ok":
        return ("sample_posterior raised an unexpected exception kind: %s" % out["obs"]) if out["obs"].startswith("Other") else None
    m, n, A_eff = out["m"], out["n"], out["A_eff"]
    X = out["samples"]
    mu = X[:, 0]
    L = X[:, 1:n + 1] - mu[:, None]
    Ce, Cx = intended_cov(meta["ce"], m), intended_cov(meta["cx"], n)
    if "A_true" in out["computed"]:
        A_eff = out["computed"]["A_true"]
        if A_eff is None:
            return refine_fail(out["BP"].posterior, mu, "offset of the direct draws (parameter map not linear)") or \
                "direct Gaussian sampling of a posterior that is not Gaussian (forward map not linear in the parameters)"
    A = [[F(v) for v in row] for row in A_eff.tolist()]
    mean, C, H = posterior_exact(A, [F(v) for v in meta["b"]], full_x0(meta, n), Ce, Cx)
    if not close_v(mu, mean):
        return "offset of the direct draws %s is not the posterior mean %s" % (mu, [float(v) for v in mean])
    LLt = L @ L.T
    Cn = np.array([[float(v) for v in r] for r in C])
    if not np.allclose(LLt, Cn, rtol=1e-7, atol=1e-7):
        return "covariance L L^T of the direct draws differs from the posterior covariance (max diff %.3g)" % np.max(np.abs(LLt - Cn))
    if not np.allclose(X[:, n + 1], mu + L @ np.array(meta["z"], dtype=float), rtol=1e-9, atol=1e-9):
        return "draw is not offset + L z"
    if not out["flags"]:
        return "consumption of numpy.random / callback sequence / Samples shape or geometry is not as specified"
    return None


def case_sample(cuqi, meta, fixed, cell):
    out = run_sample(cuqi, meta)
    fail = sample_oracle(meta, out)
    out["A_model"] = np.array(model_matrix(meta, out["A_eff"], out["computed"]), dtype=float)
    m, n = out["m"], out["n"]
    if out["obs"] == "ok" and out["samples"].shape != (n, n + 2):
        return Case(expr="false", meta=meta, cell=cell, kind="DECISION",
                    impl_fail="the direct route was asked for %d draws and handed back an array of shape %s" % (n + 2, out["samples"].shape,),
                    signature=SIG_SAMPLE)
    if out["obs"] == "ok":
        X = out["samples"]
        mu = X[:, 0]
        L = X[:, 1:n + 1] - mu[:, None]
        L = np.where(np.abs(L) < 1e-300, 0.0, L)
        err, mu_l, L_l, s_l = "(OVal [])", mu.tolist(), L.tolist(), X[:, n + 1].tolist()
    else:
        err, mu_l, L_l, s_l = c_obs(out["obs"]), [], [], []
    expr = "check_sample %s %s %s %s %s %s %s %s %s %s %s %s %s && %s" % (
        cbool(fixed), cnat(m), cnat(n), cqmat(out["A_model"].tolist()), cqvec(meta["b"]), cqvec(model_x0(meta, n)),
        c_gdesc(meta["ce"], m, out["computed"].get("ce")), c_gdesc(meta["cx"], n, out["computed"].get("cx")),
        err, cqvec(mu_l), cqmat(L_l), cqvec(meta["z"]), cqvec(s_l), cbool(out["flags"]))
    return Case(expr=expr, meta=meta, cell=cell, kind="EXACT", impl_fail=fail,
                signature=((SIG_NONLIN if meta.get("geom") == "mapped_sq" else SIG_GEOM) if meta.get("geom") in NONID else SIG_SAMPLE) if fail else "")


# ---------------------------------------------------------------------------------------------------------
# op = route / setup : decisions
# ---------------------------------------------------------------------------------------------------------
def build_classes(cuqi, meta):
    """a small problem whose prior / likelihood / model classes are the requested ones"""
    D = cuqi.distribution
    m, n = meta["m"], meta["n"]
    A = np.array(meta["A"], dtype=float)
    dgk = meta.get("dgeom")
    dg = None
    if dgk == "step":
        dg = step_geometry(cuqi, n, A.shape[1] // n)
    elif dgk == "kl":
        dg = cuqi.geometry.KLExpansion(np.linspace(0, 1, n))
    elif dgk == "named":
        dg = cuqi.geometry.Continuous1D(n)
    if meta["linear"]:
        model = cuqi.model.LinearModel(A, domain_geometry=dg)
    elif dgk is not None:
        Nf = A.shape[1]
        model = cuqi.model.Model(lambda x: A @ x, m, dg, jacobian=lambda x: A)
    elif meta.get("model_grad", True):
        model = cuqi.model.Model(lambda x: A @ x, m, n, gradient=lambda direction, wrt: A.T @ direction)
    else:
        model = cuqi.model.Model(lambda x: A @ x, m, n)
    pk = meta["prior"]
    if pk == "Gaussian":
        x = D.Gaussian(np.zeros(n), 2.0, geometry=dg) if dg is not None else D.Gaussian(np.zeros(n), 2.0)
    elif pk == "GMRF":
        x = D.GMRF(np.zeros(n), 2.0)
    elif pk == "LMRF":
        x = D.LMRF(0, 0.5, geometry=n)
    elif pk == "CMRF":
        x = D.CMRF(0, 0.5, geometry=n)
    elif pk == "Laplace":
        x = D.Laplace(np.zeros(n), 0.5)
    elif pk == "Cauchy":
        x = D.Cauchy(np.zeros(n), 0.5)
    elif pk == "RegularizedGaussian":
        x = cuqi.implicitprior.RegularizedGaussian(np.zeros(n), 2.0, constraint="nonnegativity")
    elif pk == "RegularizedGMRF":
        x = (cuqi.implicitprior.NonnegativeGMRF(np.zeros(n), 2.0) if meta.get("subclass") else
             cuqi.implicitprior.RegularizedGMRF(np.zeros(n), 2.0, constraint="nonnegativity"))
    elif pk == "Beta":
        x = D.Beta(2 * np.ones(n), 3 * np.ones(n))
    elif pk == "InverseGamma":
        x = D.InverseGamma(3 * np.ones(n), np.zeros(n), np.ones(n))
    elif pk == "Lognormal":
        x = D.Lognormal(np.zeros(n), 1.0)
    else:
        x = D.SmoothedLaplace(np.zeros(n), 0.5, 0.01) if hasattr(D, "SmoothedLaplace") else D.Lognormal(np.zeros(n), 1.0)
    arg = (model @ x) if meta["linear"] else model(x)
    lk = meta["lik"]
    if lk == "Gaussian":
        y = D.Gaussian(arg, 0.5)
    elif lk == "Laplace":
        y = D.Laplace(arg, 0.5)
    else:
        y = D.Cauchy(arg, 0.5)
    x.name, y.name = "x", "y"
    if meta.get("joint"):       # data not set: the target stays a JointDistribution
        return cuqi.problem.BayesianProblem(y, x)
    return cuqi.problem.BayesianProblem(y, x).set_data(y=np.array(meta["b"], dtype=float))


def case_cascade(cuqi, meta):
    """which _sample* method sample_posterior dispatches to, over the whole lattice of prior x likelihood x model classes"""
    BPcls = cuqi.problem.BayesianProblem
    old = cuqi.config.MAX_DIM_INV
    cuqi.config.MAX_DIM_INV = meta["max_dim_inv"]
    try:
        BP = build_classes(cuqi, meta)
        joint = bool(meta.get("joint"))
        probe_raises = False
        if not joint:
            try:
                BP.posterior.gradient(np.zeros(BP.posterior.dim))
            except (NotImplementedError, AttributeError):
                pass
            except Exception:
                probe_raises = True
        has_grad = False if (joint or probe_raises) else observe_has_grad(BP)
        sptm = False if joint else hasattr(BP.prior, "sqrtprecTimesMean")
        lsq = False if joint else hasattr(BP.likelihood.distribution, "sqrtprec")
        taken = []
        patches = {nm: (lambda self, *a, _nm=nm, **k: taken.append(_nm)) for nm in SAMPLERS}
        with _Patch(BPcls, **patches):
            try:
                quiet(BP.sample_posterior, 3, experimental=bool(meta.get("experimental")))
            except NotImplementedError:
                taken.append("NotImplementedError")
            except Exception:
                if not taken and probe_raises:
                    taken.append("ProbeRaises")
                elif not taken:
                    raise
    finally:
        cuqi.config.MAX_DIM_INV = old
    order = ["_sampleGibbs", "_sampleMapCholesky", "_sampleLinearRTO", "_sampleUGLA", "_sampleNUTS", "_samplepCN",
             "_sampleRegularizedLinearRTO", "NotImplementedError", "ProbeRaises"]
    idx = order.index(taken[0]) if len(taken) == 1 and taken[0] in order else 99
    lin_gauss = (not joint) and meta["prior"] == "Gaussian" and meta["lik"] == "Gaussian" and meta["linear"] \
        and meta["n"] <= meta["max_dim_inv"] and meta["m"] <= meta["max_dim_inv"]
    fail = None
    if (idx == 1) != lin_gauss:
        fail = "sample_posterior took %s for prior=%s lik=%s linear=%s dims (%d,%d) MAX_DIM_INV=%d: the direct Gaussian route is exact only for small linear-Gaussian problems" % (
            taken, meta["prior"], meta["lik"], meta["linear"], meta["m"], meta["n"], meta["max_dim_inv"])
    elif idx == 99:
        fail = "sample_posterior dispatched to %s" % (taken,)
    P = "(mk_pinfo %s %s %s %s %s %s)" % (cnat(DCLS.index(meta["prior"]) if meta["prior"] in DCLS else 7),
                                          cnat(DCLS.index(meta["lik"]) if meta["lik"] in DCLS else 7), cbool(meta["linear"]), cnat(meta["m"]), cnat(meta["n"]), cbool(has_grad))
    expr = "check_cascade_x %s %s %s %s %s %s %s" % (cbool(joint), P, cbool(sptm), cbool(lsq), cnat(meta["max_dim_inv"]), cbool(probe_raises), cnat(idx))
    return Case(expr=expr, meta=meta, cell="cascade/%s%s,%s,%s/%s%s" % (meta["prior"], "(sub)" if meta.get("subclass") else "", meta["lik"],
                                                                      "linear" if meta["linear"] else ("general" if meta.get("model_grad", True) else "general-nograd"),
                                                                      "joint" if joint else meta["dimcls"], "/exp" if meta.get("experimental") else ""),
                kind="DECISION", impl_fail=fail, signature=SIG_ROUTE if fail else "")


HANDOVER_CLASSES = {"LinearRTO": 2, "UGLA": 3, "NUTS": 4, "pCN": 5, "PCN": 5, "RegularizedLinearRTO": 6}


def case_handover(cuqi, meta):
    """which sampler class sample_posterior builds, with which arguments, which calls it makes on it and what it returns"""
    old = cuqi.config.MAX_DIM_INV
    cuqi.config.MAX_DIM_INV = meta["max_dim_inv"]
    rec = {"built": [], "calls": []}

    class _Result:
        def __init__(self, tag):
            self.tag = tag

        def burnthin(self, nb):
            rec["calls"].append(("burnthin", (nb,)))
            return _Result("burnthin")

    def mk(module, name):
        class Stub:
            def __init__(self, *a, **k):
                rec["built"].append((module, name, a, k))

            def sample(self, *a):
                rec["calls"].append(("sample", a))
                return _Result("sample")

            def sample_adapt(self, *a):
                rec["calls"].append(("sample_adapt", a))
                return _Result("sample_adapt")

            def warmup(self, *a):
                rec["calls"].append(("warmup", a))
                return self

            def get_samples(self):
                rec["calls"].append(("get_samples", ()))
                return _Result("get_samples")
        return Stub
    names_l = [nm for nm in dir(cuqi.sampler) if isinstance(getattr(cuqi.sampler, nm), type)]
    names_e = [nm for nm in dir(cuqi.experimental.mcmc) if isinstance(getattr(cuqi.experimental.mcmc, nm), type)]
    user_cb = (lambda s, i: None) if meta.get("callback") else None
    try:
        BP = build_classes(cuqi, meta)
        with _Patch(cuqi.sampler, **{nm: mk("legacy", nm) for nm in names_l}), \
                _Patch(cuqi.experimental.mcmc, **{nm: mk("experimental", nm) for nm in names_e}):
            kw = {"experimental": bool(meta.get("experimental"))}
            if meta.get("Nb") is not None:
                kw["Nb"] = meta["Nb"]
            if user_cb is not None:
                kw["callback"] = user_cb
            ret = quiet(BP.sample_posterior, meta["Ns"], **kw)
    finally:
        cuqi.config.MAX_DIM_INV = old
    fail = None
    if len(rec["built"]) != 1:
        return Case(expr="false", meta=meta, cell="handover/%s/none-or-several-built" % meta["expect"], kind="DECISION",
                    impl_fail=None)
    module, name, a, k = rec["built"][0]
    cidx = HANDOVER_CLASSES.get(name, 0)
    target_ok = len(a) >= 1 and a[0] is BP.posterior
    scale = a[1] if len(a) > 1 else None
    k = dict(k)
    cb_ok = ("callback" in k) and (k.pop("callback") is user_cb)
    regopts = k == {"maxit": 100, "stepsize": "automatic", "abstol": 1e-10}
    other_kw_ok = regopts or k == {}
    def enc(c):
        nm, args = c
        if nm == "sample" and len(args) == 2:
            return "RSample %s %s" % (cnat(args[0]), cnat(args[1]))
        if nm == "sample" and len(args) == 1:
            return "RSampleN %s" % cnat(args[0])
        if nm == "sample_adapt" and len(args) == 2:
            return "RSampleAdapt %s %s" % (cnat(args[0]), cnat(args[1]))
        if nm == "warmup" and len(args) == 1:
            return "RWarmup %s" % cnat(args[0])
        if nm == "get_samples":
            return "RGetSamples"
        if nm == "burnthin":
            return "RBurnthin %s" % cnat(args[0])
        return "RSampleN 4999%nat"
    last = rec["calls"][-1][0] if rec["calls"] else None
    returned_ok = isinstance(ret, _Result) and ret.tag == last and len(a) <= 2 and other_kw_ok
    expr = "check_handover %s %s %s %s %s %s %s %s %s %s %s %s" % (
        cnat(cidx), cbool(bool(meta.get("experimental"))), cnat(meta["Ns"]), copt(meta.get("Nb"), cnat),
        cbool(module == "experimental"), cnat(cidx), copt(scale, cq), cbool(regopts),
        clist(["(%s)" % enc(c) for c in rec["calls"]]), cbool(target_ok), cbool(cb_ok), cbool(returned_ok))
    # the property's part of the hand-over: the requested numbers of draws / burn-in reach the sampler unchanged
    nb_eff = meta["Nb"] if meta.get("Nb") is not None else int(0.2 * meta["Ns"])
    nums = [x for c in rec["calls"] for x in c[1]]
    if name != meta["expect"] and not (name == "PCN" and meta["expect"] == "pCN"):
        fail = None       # a different sampler: the cascade cells judge that
    return Case(expr=expr, meta=meta, cell="handover/%s/%s/Nb:%s/cb:%s" % (meta["expect"], "exp" if meta.get("experimental") else "legacy",
                                                                           meta.get("Nb"), bool(meta.get("callback"))),
                kind="DECISION", impl_fail=fail)


def gen_handover_metas(ctx):
    rng = ctx.rng
    out = []
    targets = [("LinearRTO", dict(prior="Gaussian", lik="Gaussian", linear=True, max_dim_inv=2)),
               ("LinearRTO", dict(prior="GMRF", lik="Gaussian", linear=True, max_dim_inv=2000)),
               ("UGLA", dict(prior="LMRF", lik="Gaussian", linear=True, max_dim_inv=2000)),
               ("NUTS", dict(prior="Cauchy", lik="Gaussian", linear=True, max_dim_inv=2000)),
               ("NUTS", dict(prior="Gaussian", lik="Gaussian", linear=False, model_grad=True, max_dim_inv=2000)),
               ("pCN", dict(prior="Gaussian", lik="Gaussian", linear=False, model_grad=False, max_dim_inv=2000)),
               ("RegularizedLinearRTO", dict(prior="RegularizedGaussian", lik="Gaussian", linear=True, max_dim_inv=2000))]
    k = 0
    for expect, cfg in targets:
        for experimental in (False, True):
            for Nb in (None, 0, 3):
                for cb in (False, True):
                    k += 1
                    Ns = [5, 7, 10, 14, 1][k % 5]
                    m, n = 2, 3
                    meta = dict(cfg, op="handover", expect=expect, experimental=experimental, Nb=Nb, callback=cb, Ns=Ns, m=m, n=n,
                                A=gen_A(rng, m, n), b=[dy(rng) for _ in range(m)])
                    out.append(meta)
    return out


def observe_has_grad(BP):
    try:
        BP.posterior.gradient(np.zeros(BP.posterior.dim))
        return True
    except (NotImplementedError, AttributeError):
        return False


class _Patch:
    def __init__(self, obj, **attrs):
        self.obj, self.attrs, self.saved = obj, attrs, {}

    def __enter__(self):
        for k, v in self.attrs.items():
            self.saved[k] = getattr(self.obj, k)
            setattr(self.obj, k, v)
        return self

    def __exit__(self, *a):
        for k, v in self.saved.items():
            setattr(self.obj, k, v)


SAMPLERS = ["_sampleMapCholesky", "_sampleLinearRTO", "_sampleUGLA", "_sampleNUTS", "_samplepCN", "_sampleCWMH",
            "_sampleRegularizedLinearRTO", "_sampleGibbs"]


def case_route(cuqi, meta):
    BPcls = cuqi.problem.BayesianProblem
    old = cuqi.config.MAX_DIM_INV
    cuqi.config.MAX_DIM_INV = meta["max_dim_inv"]
    try:
        BP = build_classes(cuqi, meta)
        has_grad = observe_has_grad(BP)
        called = []

        def fake_smp(self, density, disp=True, x0=None):
            called.append("optimiser")
            return np.zeros(self.model.domain_dim), {}
        with _Patch(BPcls, _solve_max_point=fake_smp):
            try:
                quiet(BP.MAP)
                map_exc = None
            except Exception as e:
                map_exc = repr(e)
        map_direct = "optimiser" not in called
        taken = []
        patches = {nm: (lambda self, *a, _nm=nm, **k: taken.append(_nm)) for nm in SAMPLERS}
        with _Patch(BPcls, **patches):
            try:
                quiet(BP.sample_posterior, 3)
            except NotImplementedError:
                taken.append("NotImplementedError")
            except Exception:
                if not taken:         # (the recorders return None: post-processing of their result may fail afterwards)
                    raise
    finally:
        cuqi.config.MAX_DIM_INV = old
    sample_direct = taken[:1] == ["_sampleMapCholesky"]
    # oracle: the closed form is only valid for Gaussian prior, Gaussian noise, linear model
    lin_gauss = meta["prior"] == "Gaussian" and meta["lik"] == "Gaussian" and meta["linear"]
    small = meta["n"] <= meta["max_dim_inv"] and meta["m"] <= meta["max_dim_inv"]
    fail = None
    if map_direct != (lin_gauss and small) or sample_direct != (lin_gauss and small):
        fail = "route: MAP direct=%s sample direct=%s (took %s) for prior=%s lik=%s linear=%s dims (%d,%d) MAX_DIM_INV=%d" % (
            map_direct, sample_direct, taken, meta["prior"], meta["lik"], meta["linear"], meta["m"], meta["n"], meta["max_dim_inv"])
    elif len(taken) != 1:
        fail = "sample_posterior selected %s" % (taken,)
    elif map_direct and map_exc:
        fail = "closed-form branch raised %s" % map_exc
    P = "(mk_pinfo %s %s %s %s %s %s)" % (cnat(DCLS.index(meta["prior"]) if meta["prior"] in DCLS else 7),
                                          cnat(DCLS.index(meta["lik"])), cbool(meta["linear"]), cnat(meta["m"]), cnat(meta["n"]), cbool(has_grad))
    expr = "check_routes %s %s %s %s" % (P, cnat(meta["max_dim_inv"]), cbool(map_direct), cbool(sample_direct))
    return Case(expr=expr, meta=meta, cell="route/%s,%s,%s/%s" % (meta["prior"], meta["lik"], "linear" if meta["linear"] else "general", meta["dimcls"]),
                kind="DECISION", impl_fail=fail, signature=SIG_ROUTE if fail else "", trivial=False)


def case_setup(cuqi, meta):
    BP = build_classes(cuqi, meta)
    n = meta["n"]
    has_grad = observe_has_grad(BP)
    which = meta["which"]
    density = BP.posterior if which == "MAP" else BP.likelihood
    x0 = None if meta["x0"] is None else np.array(meta["x0"], dtype=float)
    start_expected = np.ones(n) if x0 is None else x0
    try:
        density.gradient(start_expected)
        dens_grad = True
    except (NotImplementedError, AttributeError):
        dens_grad = False
    rec = {}
    point = np.array(meta["point"], dtype=float)

    def mk(name):
        class Stub:
            def __init__(self, func, x0, gradfunc=None, **kw):
                rec.update(cls=name, func=func, x0=np.array(x0, dtype=float), gradfunc=gradfunc, kw=kw)

            def solve(self):
                return point.copy(), {"success": True, "message": "stub", "func": 0.0, "grad": None, "nit": 0, "nfev": 0}
        return Stub
    old = cuqi.config.MAX_DIM_INV
    cuqi.config.MAX_DIM_INV = 1          # keeps linear-Gaussian problems off the closed-form branch (all dims here are >= 2)
    try:
        with _Patch(cuqi.solver, minimize=mk("minimize"), L_BFGS_B=mk("L_BFGS_B")):
            r = quiet(getattr(BP, which), x0=x0) if x0 is not None else quiet(getattr(BP, which))
    finally:
        cuqi.config.MAX_DIM_INV = old
    if "func" not in rec:
        # no cuqi.solver object was built: the entry point took some other route than _solve_max_point
        P = "(mk_pinfo %s %s %s %s %s %s)" % (cnat(DCLS.index(meta["prior"]) if meta["prior"] in DCLS else 7),
                                              cnat(DCLS.index(meta["lik"])), cbool(meta["linear"]), cnat(meta["m"]), cnat(n), cbool(has_grad))
        return Case(expr="check_entry_route %s %s %s %s false" % (cbool(which == "ML"), P, cnat(1), cnat(label_of(r.info))), meta=meta,
                    cell="setup/%s/%s/no-solver-built" % (which, meta["prior"]), kind="DECISION")
    geom_ok = r.geometry is (BP.posterior.geometry if which == "MAP" else BP.likelihood.geometry)
    ret_ok = bool(isinstance(r, cuqi.array.CUQIarray) and np.array_equal(np.asarray(r), point) and geom_ok and rec["kw"] == {})
    label_ok = r.info.get("solver") == "L-BFGS-B" and r.info.get("message") == "stub"
    # objective and gradient handed to the solver are minus the density's
    probe = point + 0.25
    obj_ok = float(rec["func"](probe)) == -float(density.logd(probe))
    if rec["gradfunc"] is not None:
        obj_ok = obj_ok and np.array_equal(np.asarray(rec["gradfunc"](probe)), -np.asarray(density.gradient(probe)))
    fail = None
    if not (ret_ok and obj_ok):
        fail = "%s: returned point/geometry/objective are not the solver's point on the density's geometry and -logd" % which
    elif (rec["gradfunc"] is not None) != dens_grad:
        fail = "%s: gradient available=%s but handed over=%s" % (which, dens_grad, rec["gradfunc"] is not None)
    elif meta["prior"] in PRIOR_HAS_GRAD and dens_grad != expected_gradient(meta, which):
        fail = "%s: the density %s a gradient, but for prior %s / model linear=%s gradient=%s / domain geometry %s it should %s" % (
            which, "offers" if dens_grad else "refuses", meta["prior"], meta["linear"], meta.get("model_grad", True), meta.get("dgeom") or "default",
            "refuse (par2fun is not the identity)" if dens_grad else "offer one")
    if fail is None:
        fail = gradient_inconsistent(rec["func"], rec["gradfunc"], probe)
    elif not np.array_equal(rec["x0"], start_expected):
        fail = "%s: start point %s, expected %s" % (which, rec["x0"], start_expected)
    elif (rec["cls"] == "L_BFGS_B") != (meta["prior"] == "CMRF" and has_grad):
        fail = "%s: solver class %s for prior %s" % (which, rec["cls"], meta["prior"])
    P = "(mk_pinfo %s %s %s %s %s %s)" % (cnat(DCLS.index(meta["prior"]) if meta["prior"] in DCLS else 7),
                                          cnat(DCLS.index(meta["lik"])), cbool(meta["linear"]), cnat(meta["m"]), cnat(n), cbool(has_grad))
    expr = "check_setup %s %s %s %s %s %s %s %s" % (
        P, cbool(dens_grad), copt(meta["x0"], cqvec), cbool(rec["cls"] == "L_BFGS_B"), cbool(rec["gradfunc"] is not None),
        cqvec(rec["x0"].tolist()), cbool(ret_ok and obj_ok), cbool(label_ok))
    return Case(expr=expr, meta=meta, cell="setup/%s/%s%s,%s/x0:%s" % (which, meta["prior"], "/dgeom:" + meta["dgeom"] if meta.get("dgeom") else "", "linear" if meta["linear"] else ("general" if meta.get("model_grad", True) else "general-nograd"),
                                                                     "given" if meta["x0"] is not None else "default"),
                kind="DECISION", impl_fail=fail, signature=SIG_SETUP if fail else "")


# ---------------------------------------------------------------------------------------------------------
# op = opt : the real optimiser
# ---------------------------------------------------------------------------------------------------------
def neighbourhood_fail(density, x, what, tol=1e-7):
    lp = float(density.logd(x))
    rs = np.random.RandomState(11)
    n = len(x)
    for k in range(12):
        d = rs.standard_normal(n) * 10.0 ** (-(k % 3) - 1)
        v = float(density.logd(x + d))
        if v > lp + tol * (1 + abs(lp)):
            return "%s: logd is larger by %.3g at a point at distance %.2g from the returned estimate" % (what, v - lp, np.linalg.norm(d))
    return None


def case_opt(cuqi, meta):
    old = cuqi.config.MAX_DIM_INV
    if meta["force"] == "max_dim":
        cuqi.config.MAX_DIM_INV = 1 if max(meta["m"], meta["n"]) > 1 else 0
    try:
        BP, A_eff, m, n, computed = build_problem(cuqi, meta)
        which = meta["which"]
        x0 = None if meta.get("x0") is None else make_x0(cuqi, {"style": meta.get("x0_style", "ndarray"), "val": meta["x0"]}, BP)
        with _SolverSpy(cuqi) as spy:
            r = quiet(getattr(BP, which), x0=x0) if x0 is not None else quiet(getattr(BP, which))
    finally:
        cuqi.config.MAX_DIM_INV = old
    x = np.asarray(r, dtype=float)
    density = BP.posterior if which == "MAP" else BP.likelihood
    A = [[F(v) for v in row] for row in A_eff.tolist()]
    b = [F(v) for v in meta["b"]]
    Ce, Cx = intended_cov(meta["ce"], m), intended_cov(meta["cx"], n)
    if which == "MAP":
        ref, _, _ = posterior_exact(A, b, full_x0(meta, n), Ce, Cx)
    else:
        Pe = f_inv(Ce)
        At = f_T(A)
        ref = f_mv(f_inv(f_mm(f_mm(At, Pe), A)), f_mv(At, f_mv(Pe, b)))
    fail = None
    if spy.ran and getattr(spy, "func", None) is not None:
        fail = gradient_inconsistent(spy.func, spy.gradfunc, spy.start + 0.125 * np.arange(1, n + 1))
    if fail:
        pass
    elif r.info.get("solver") == "direct":
        fail = "%s took the closed-form branch although it was to be kept off it" % which
    elif not close_v(x, ref, tol=5e-5):
        fail = "%s via the optimiser returned %s (success=%s) but the maximiser is %s" % (which, x, r.info.get("success"), [float(v) for v in ref])
    else:
        fail = neighbourhood_fail(density, x, which, tol=1e-7)
        if fail is None:
            try:
                g = np.asarray(density.gradient(x), dtype=float)
                if np.linalg.norm(g) > 1e-3 * (1 + np.linalg.norm(x)):
                    fail = "%s: gradient norm %.3g at the returned point" % (which, np.linalg.norm(g))
            except (NotImplementedError, AttributeError):
                pass
    if which == "MAP":
        # the model's specification side takes covariances: hand it the exact covariance meant by (parameterisation, value)
        ge_exact = meta["ce"] if meta["ce"]["param"] == "cov" else {"param": "cov", "kind": "matrix", "val": Ce}
        gx_exact = meta["cx"] if meta["cx"]["param"] == "cov" else {"param": "cov", "kind": "matrix", "val": Cx}
        expr = "check_opt_map %s %s %s %s %s %s %s %s" % (cnat(m), cnat(n), cqmat(A_eff.tolist()), cqvec(meta["b"]), cqvec(model_x0(meta, n)),
                                                          c_gdesc(ge_exact, m), c_gdesc(gx_exact, n), cqvec(x.tolist()))
    else:
        expr = "check_opt_ml %s %s %s %s %s %s" % (cnat(m), cnat(n), cqmat(A_eff.tolist()), cqvec(meta["b"]), c_gdesc(meta["ce"], m), cqvec(x.tolist()))
    # round 5: SciPy's stopping test at the returned point with the model's EXACT gradient, the curvature bound H >= mu I decided by the
    # model's certificate, and the distance bound of C15_stopping_test_distance -- only where SciPy was given exact gradients and
    # reports success (with finite differences its test is on the approximate gradient)
    stop = bool(spy.ran and getattr(spy, "gradfunc", None) is not None and r.info.get("success"))
    if stop:
        if which == "MAP":
            expr += " && check_opt_stop false %s %s %s %s %s %s %s (1 # 4) %s" % (cnat(m), cnat(n), cqmat(A_eff.tolist()), cqvec(meta["b"]), cqvec(full_x0_float(meta, n)),
                                                                            c_gdesc(ge_exact, m), c_gdesc(gx_exact, n), cqvec(x.tolist()))
        else:
            expr += " && check_opt_stop true %s %s %s %s %s %s %s (1 # 4) %s" % (cnat(m), cnat(n), cqmat(A_eff.tolist()), cqvec(meta["b"]), cqvec([0.0] * n),
                                                                           c_gdesc(meta["ce"], m), c_gdesc(meta["ce"], m), cqvec(x.tolist()))
        if fail is None:
            try:
                gx_ = np.asarray(density.gradient(x), dtype=float)
                if np.max(np.abs(gx_)) > 1.01e-5:
                    fail = "%s: SciPy reports success but the gradient at the returned point has max-norm %.3g > gtol 1e-5" % (which, np.max(np.abs(gx_)))
            except (NotImplementedError, AttributeError):
                pass
    return Case(expr=expr, meta=meta, cell="opt/%s/%s/Ce:%s,Cx:%s/x0:%s%s" % (which, meta["force"], meta["ce"]["kind"], meta["cx"]["kind"], "given" if meta.get("x0") else "default",
                                                                            "/stop-test" if stop else ""),
                kind="EXACT", impl_fail=fail, signature=SIG_OPT if fail else "")


def refine_fail(density, x, what, tol=1e-6):
    """local derivative-free search started at the returned estimate: a concrete point with larger density"""
    import scipy.optimize as so
    f = lambda v: -float(density.logd(v))
    f0 = f(x)
    best, fb = np.array(x, dtype=float), f0
    for rep in range(2):
        for meth, opts in (("Nelder-Mead", dict(xatol=1e-12, fatol=1e-14, maxiter=20000, maxfev=20000)), ("Powell", dict(xtol=1e-12, ftol=1e-14))):
            res = so.minimize(f, best, method=meth, options=opts)
            if res.fun < fb:
                best, fb = np.array(res.x, dtype=float), float(res.fun)
    if f0 - fb > tol * (1 + abs(f0)):
        return "%s returned %s but logd is larger by %.3g at %s (distance %.3g)" % (what, np.round(x, 8).tolist(), f0 - fb, np.round(best, 8).tolist(), np.linalg.norm(best - x))
    return None


WITNESS_NONSMOOTH = {"op": "optns", "prior": "Laplace", "lik": "Gaussian", "linear": True, "m": 3, "n": 2,
                     "A": [[1, 0], [0, 1], [1, 1]], "b": [1, 0.5, -1]}


def case_ccov(cuqi, meta):
    """Gaussian.compute_cov() itself: the matrix cached in .cov = inverse of the precision the log-density uses"""
    g = meta["g"]
    d = meta["dim"]
    G = build_gaussian(cuqi, np.zeros(d), g)
    try:
        ret = G.compute_cov()
        C = np.array(G.cov, dtype=float)
    except Exception as e:
        return Case(expr="false", meta=meta, cell="ccov/%s/%s%s" % (g["param"], g["kind"], "/" + g["factor"] if g.get("factor") else ""), kind="EXACT",
                    impl_fail="compute_cov() followed by .cov raised %r (the getter's own message tells the user to call compute_cov())" % (e,),
                    signature=SIG_CCOV)
    if not np.all(np.isfinite(C)):
        return Case(expr="false", meta=meta, cell="ccov/%s/%s%s" % (g["param"], g["kind"], "/" + g["factor"] if g.get("factor") else ""), kind="EXACT",
                    impl_fail="compute_cov() cached non-finite values %s" % C.tolist(), signature=SIG_CCOV)
    same = bool(np.array_equal(np.asarray(ret, dtype=float), C) and C.shape == (d, d))
    exact = intended_cov(g, d)
    fail = None
    if not same:
        fail = "compute_cov() did not return / cache a dense %dx%d matrix as .cov" % (d, d)
    elif not all(close_v(r, e, tol=1e-8) for r, e in zip(C.tolist(), exact)):
        fail = "compute_cov() cached %s but the covariance of the density (inverse of the precision logd uses) is %s" % (
            np.round(C, 6).tolist(), [[round(float(v), 6) for v in r] for r in exact])
    # the density's own quadratic form agrees with the exact covariance (ties `exact` to logd, not to the constructor argument)
    if fail is None:
        x = np.arange(1, d + 1) / 2.0
        q_logd = -2.0 * float(np.ravel(G._logupdf(x))[0])
        Pm = np.linalg.inv(np.array([[float(v) for v in r] for r in exact]))
        if abs(q_logd - x @ Pm @ x) > 1e-8 * (1 + abs(q_logd)):
            fail = "harness: the exact covariance is not the one of the log-density (%g vs %g)" % (q_logd, x @ Pm @ x)
    expr = "check_compute_cov %s %s %s" % (cnat(d), c_gdesc(g, d, C.tolist()), cbool(same))
    return Case(expr=expr, meta=meta, cell="ccov/%s/%s%s" % (g["param"], g["kind"], "/" + g["factor"] if g.get("factor") else ""),
                kind="EXACT", impl_fail=fail, signature=SIG_CCOV if fail else "")


def gen_ccov_metas(ctx):
    rng = ctx.rng
    out = []
    for par in PARAMS:
        for kind in ("scalar", "vec1", "vector", "diagm", "matrix"):
            for d in (1, 2, 3, 4):
                if (kind == "vector" and d == 1) or (kind == "matrix" and par in ("sqrtcov", "sqrtprec")):
                    continue
                out.append({"op": "ccov", "dim": d, "g": gen_cov(rng, kind, d, par)})
    for par in ("sqrtprec", "sqrtcov"):
        for fac in FACTORS:
            for d in (2, 3, 4):
                for _ in range(ctx.n(1, 4)):
                    out.append({"op": "ccov", "dim": d, "g": {"param": par, "kind": "matrix", "val": gen_factor(rng, d, fac), "factor": fac}})
    return out


def true_map(meta):
    """the parameter-to-parameter matrix of the forward map, written down from the meta data alone"""
    A = np.array(meta["A"], dtype=float)
    geom = meta.get("geom", "default")
    c = float(meta.get("c", 2))
    if geom in ("step", "step_mat"):
        return A @ np.kron(np.eye(meta["n"]), np.ones((meta["reps"], 1)))
    if geom == "mapped_lin":
        return c * A
    if geom == "range_mapped_lin":
        return A / c
    if geom == "kl":
        import cuqi
        G = cuqi.geometry.KLExpansion(np.linspace(0, 1, meta["n"]))
        return A @ np.column_stack([np.asarray(G.par2fun(e), dtype=float) for e in np.eye(meta["n"])])
    return A


def curvature_ok(meta, m, n, which, mu_min=0.5):
    """scipy stops at |grad|_inf <= 1e-5, so the returned point is within sqrt(n) 1e-5 / mu of the maximiser (mu = smallest
    eigenvalue of the Hessian, C15_strongly_concave_distance): cells compared to 5e-5 need mu >= 0.5"""
    A = true_map(meta)
    Pe = np.linalg.inv(np.array([[float(v) for v in r] for r in intended_cov(meta["ce"], m)]))
    H = A.T @ Pe @ A
    if which == "MAP":
        H = H + np.linalg.inv(np.array([[float(v) for v in r] for r in intended_cov(meta["cx"], n)]))
    elif m < n:
        return np.min(np.linalg.eigvalsh(A @ A.T)) >= mu_min
    return np.min(np.linalg.eigvalsh(H)) >= mu_min


SIG_SPRIOR = "BayesianProblem.sample_prior|shallow-copy:original-likelihood-replaced"
WITNESS_SPRIOR = {"op": "sprior", "prior": "LMRF", "lik": "Gaussian", "linear": True, "m": 3, "n": 3,
                  "A": [[1, 2, 0], [0, 1, 1], [1, 0, -1]], "b": [1, -1, 0.5]}


def case_life(cuqi, meta):
    """the refusal clause in every life-cycle state of the Gaussians: fresh / after reads / after a refused call / after
    compute_cov() / after an estimate / after re-assignment of the defining attribute"""
    BP, A_eff, m, n, computed = build_problem(cuqi, meta)
    key = meta["side"]
    dist = BP.prior if key == "cx" else BP.likelihood.distribution
    g = meta[key]
    A = [[F(v) for v in row] for row in A_eff.tolist()]
    exact, _, _ = posterior_exact(A, [F(v) for v in meta["b"]], full_x0(meta, n), intended_cov(meta["ce"], m), intended_cov(meta["cx"], n))
    obs, fail = [], None
    for op in meta["ops"]:
        if op in (0, 1):                      # MAP / direct sampling (offset of a scripted zero draw)
            try:
                if op == 0:
                    v = np.asarray(quiet(BP.MAP), dtype=float)
                else:
                    with ScriptedRandom(seed=1, script=lambda kind, a, k, idx: np.zeros(n) if kind == "randn" else None):
                        v = np.array(quiet(BP.sample_posterior, 1).samples, dtype=float)[:, 0]
                obs.append(0)
                if fail is None and not close_v(v.tolist(), exact):
                    fail = "step %d (%s): returned %s, the posterior mean is %s" % (len(obs), "MAP" if op == 0 else "direct draw with z=0", v, [float(e) for e in exact])
            except NotImplementedError:
                obs.append(1)
            except Exception as e:
                obs.append(1 if isinstance(e, NotImplementedError) else 2)
        elif op == 2:                         # reads that must not change anything: logd, sample of the Gaussian, ML, posterior gradient probe
            try:
                dist_x = BP.prior
                dist_x.logd(np.ones(n))
                dist_x.sample(2)
                BP.likelihood.logd(np.ones(n))
                quiet(BP.ML)
            except Exception:
                pass
            obs.append(2)
        elif op == 3:
            dist.compute_cov()
            obs.append(2)
        else:                                 # re-assign the defining attribute (same value): the cache must be dropped
            setattr(dist, g["param"], np_cov_value(g))
            obs.append(2)
    expr = "check_life %s %s" % (clist([cnat(o) for o in meta["ops"]]), clist([cnat(o) for o in obs]))
    return Case(expr=expr, meta=meta, cell="life/%s:%s/%s" % (key, g["param"], "-".join(str(o) for o in meta["ops"])), kind="DECISION",
                impl_fail=fail, signature=SIG_OTHER if fail else "")


def gen_life_metas(ctx):
    rng = ctx.rng
    out = []
    seqs = [[0, 0, 1, 0], [2, 0, 2, 1, 0], [0, 3, 0, 1, 4, 0, 1], [3, 0, 2, 0, 4, 2, 0, 3, 0], [1, 2, 3, 1, 4, 4, 0], [0, 2, 1, 3, 0, 0, 4, 1, 3, 1]]
    k = 0
    for par in ("prec", "sqrtcov", "sqrtprec"):
        for side in ("cx", "ce"):
            for ops in seqs[(k % 2)::2]:
                k += 1
                m, n = [(2, 3), (3, 2), (3, 3)][k % 3]
                c = dict(m=m, n=n, ke=["scalar", "vector", "diagm"][k % 3] if side == "ce" else "matrix", kx=["diagm", "scalar", "vector"][k % 3] if side == "cx" else "matrix",
                         pe=par if side == "ce" else "cov", px=par if side == "cx" else "cov", model="dense", geom="default", mean="vec")
                meta = instantiate(rng, c, "life")
                meta.update(side=side, ops=ops)
                out.append(meta)
    return out


def case_composite(cuqi, meta):
    """MAP / ML / sampling on composite targets (several likelihoods; a joint with a hyper-parameter) against a plain posterior"""
    D = cuqi.distribution
    n = meta["n"]
    A1, A2 = np.array(meta["A"], dtype=float), np.array(meta["A2"], dtype=float)
    kind = meta["kind"]
    if kind == 2:
        d = D.Gamma(1, 1e-2)
        x = D.Gaussian(np.zeros(n), lambda d: 1 / d)
        d.name = "d"
    else:
        x = D.Gaussian(np.zeros(n), 2.0)
    y1 = D.Gaussian(cuqi.model.LinearModel(A1) @ x, 0.5)
    y2 = D.Gaussian(cuqi.model.LinearModel(A2) @ x, 1.0)
    x.name, y1.name, y2.name = "x", "y1", "y2"
    b1, b2 = np.array(meta["b"], dtype=float), np.array(meta["b2"], dtype=float)
    if kind == 0:
        BP = cuqi.problem.BayesianProblem(y1, x).set_data(y1=b1)
    elif kind == 1:
        BP = cuqi.problem.BayesianProblem(y1, y2, x).set_data(y1=b1, y2=b2)
    else:
        BP = cuqi.problem.BayesianProblem(y1, x, d).set_data(y1=b1)
    res = {}
    for nm in ("MAP", "ML"):
        try:
            v = np.asarray(quiet(getattr(BP, nm)), dtype=float)
            res[nm] = v
        except ValueError:
            res[nm] = None
    gibbs = {}
    BPcls = cuqi.problem.BayesianProblem
    for nm in ("sample_posterior", "UQ"):
        taken = []
        patches = {s_: (lambda self, *a, _s=s_, **k: taken.append(_s)) for s_ in SAMPLERS}
        with _Patch(BPcls, **patches), _Patch(BPcls, _plot_UQ_for_variable=lambda self, *a, **k: None):
            try:
                quiet(getattr(BP, nm), 3)
            except Exception:
                pass
        gibbs[nm] = taken[:1] == ["_sampleGibbs"]
    fail = None
    if kind == 1 and res["MAP"] is not None:
        # a value for the two-likelihood problem must be the posterior mean for BOTH data sets
        A = np.vstack([A1, A2])
        Ce = np.diag([0.5] * len(b1) + [1.0] * len(b2))
        ex, _, _ = posterior_exact([[F(v) for v in r] for r in A.tolist()], [F(v) for v in list(b1) + list(b2)], [Fraction(0)] * n,
                                   [[F(v) for v in r] for r in Ce.tolist()], f_dense("scalar", 2.0, n))
        if not close_v(res["MAP"].tolist(), ex):
            fail = "MAP on a problem with two likelihoods returned %s; the posterior mean given both data sets is %s" % (res["MAP"], [float(v) for v in ex])
    expr = "check_composite %s %s %s %s %s" % (cnat(kind), cbool(res["MAP"] is None), cbool(res["ML"] is None), cbool(gibbs["sample_posterior"]), cbool(gibbs["UQ"]))
    return Case(expr=expr, meta=meta, cell="composite/%s" % ["posterior", "two-likelihoods", "joint-hyperparameter"][kind], kind="DECISION",
                impl_fail=fail, signature=SIG_OTHER if fail else "")


def gen_composite_metas(ctx):
    rng = ctx.rng
    out = []
    for kind in (0, 1, 2):
        for n in (2, 3):
            out.append({"op": "composite", "kind": kind, "n": n, "A": gen_A(rng, 2, n), "A2": gen_A(rng, 3, n),
                        "b": [dy(rng) for _ in range(2)], "b2": [dy(rng) for _ in range(3)]})
    return out


def sprior_observe(cuqi, meta):
    BP = build_classes(cuqi, meta)
    lik0, data0 = BP.likelihood, np.array(BP.data, dtype=float).copy()
    m1 = np.asarray(quiet(BP.MAP), dtype=float)
    try:
        with ScriptedRandom(seed=5):
            quiet(BP.sample_prior, 3)
        st = "ok"
    except Exception as e:
        st = type(e).__name__
    same_lik = BP.likelihood is lik0
    try:
        data_same = bool(np.array_equal(np.array(BP.data, dtype=float), data0))
    except Exception:
        data_same = False
    try:
        m2 = np.asarray(quiet(BP.MAP), dtype=float)
        map_same = bool(np.array_equal(m1, m2))
    except Exception as e:
        m2, map_same = repr(e)[:80], False
    return st, same_lik, data_same, map_same, m1, m2


def case_sprior(cuqi, meta):
    """sample_prior() is a read of the problem: afterwards the likelihood object, the data and the MAP estimate are the same"""
    st, same_lik, data_same, map_same, m1, m2 = sprior_observe(cuqi, meta)
    fail = None
    if not (same_lik and data_same and map_same):
        fail = "after sample_prior() (%s) the problem is another one: same likelihood object=%s, data unchanged=%s, MAP before %s, after %s" % (
            st, same_lik, data_same, m1, m2)
    expr = "%s && %s && %s" % (cbool(same_lik), cbool(data_same), cbool(map_same))
    return Case(expr=expr, meta=meta, cell="sprior/%s/%s" % (meta["prior"], "square" if meta["m"] == meta["n"] else "over"), kind="DECISION",
                impl_fail=fail, signature=SIG_SPRIOR if fail else "")


def gen_sprior_metas(ctx):
    rng = ctx.rng
    out = [dict(WITNESS_SPRIOR)]
    for prior in ("Gaussian", "GMRF", "LMRF", "CMRF", "Laplace", "Cauchy"):
        for (m, n) in [(3, 3), (4, 3)]:
            out.append({"op": "sprior", "prior": prior, "lik": "Gaussian", "linear": True, "m": m, "n": n, "A": gen_A(rng, m, n), "b": [dy(rng) for _ in range(m)]})
    return out


def case_sample1(cuqi, meta):
    """exactly ONE draw on the direct route (z = 0): the array is n x 1 and the draw is the posterior mean"""
    BP, A_eff, m, n, computed = build_problem(cuqi, meta)
    try:
        with ScriptedRandom(seed=1, script=lambda kind, a, k, idx: np.zeros(n) if kind == "randn" else None):
            S = quiet(BP.sample_posterior, 1)
        X = np.array(S.samples, dtype=float)
        shape_ok = X.shape == (n, 1) and S.Ns == 1
        obs = [float(v) for v in X.ravel()[:n]] if X.size >= n else "Other:shape"
    except Exception as e:
        obs, shape_ok = err_kind(e), True
    fail = None
    if not shape_ok:
        fail = "one draw requested on the direct route: samples have shape %s" % (X.shape,)
    elif not isinstance(obs, str):
        ex, _, _ = posterior_exact([[F(v) for v in r] for r in A_eff.tolist()], [F(v) for v in meta["b"]], full_x0(meta, n),
                                   intended_cov(meta["ce"], m), intended_cov(meta["cx"], n))
        if not close_v(obs, ex):
            fail = "the single direct draw with z = 0 is %s, the posterior mean %s" % (obs, [float(v) for v in ex])
    expr = "check_map true %s %s %s %s %s %s %s %s && %s" % (cnat(m), cnat(n), cqmat(A_eff.tolist()), cqvec(meta["b"]), cqvec(model_x0(meta, n)),
                                                          c_gdesc(meta["ce"], m), c_gdesc(meta["cx"], n), c_obs(obs), cbool(shape_ok))
    return Case(expr=expr, meta=meta, cell="sample1/Ce:%s,Cx:%s/%dx%d" % (meta["ce"]["kind"], meta["cx"]["kind"], m, n), kind="EXACT",
                impl_fail=fail, signature=SIG_SAMPLE if fail else "")


def gen_sample1_metas(ctx):
    rng = ctx.rng
    out = []
    for ke, kx in [("matrix", "matrix"), ("scalar", "vector"), ("vector", "scalar")]:
        for (m, n) in [(2, 3), (3, 2), (1, 1), (3, 3)]:
            c = dict(m=m, n=n, ke=ke if m > 1 else "scalar", kx=kx if n > 1 else "scalar", pe="cov", px="cov", model="dense", geom="default", mean="vec")
            out.append(instantiate(rng, c, "sample1"))
    return out


def ensure_curvature(meta, m, n, which):
    """make the Hessian's smallest eigenvalue >= 0.5 by doubling the model matrix (dyadic, keeps every value exact)"""
    for _ in range(5):
        if curvature_ok(meta, m, n, which):
            return True
        meta["A"] = (np.array(meta["A"], dtype=float) * 2).tolist()
    return curvature_ok(meta, m, n, which)


class _SolverSpy:
    """wraps cuqi.solver.minimize / L_BFGS_B by recording subclasses (the real optimisers still run)"""
    def __init__(self, cuqi):
        self.cuqi, self.ran = cuqi, []

    def __enter__(self):
        spy = self
        self.saved = {nm: getattr(self.cuqi.solver, nm) for nm in ("minimize", "L_BFGS_B")}
        for nm, cls in self.saved.items():
            def mk(nm=nm, cls=cls):
                class Rec(cls):
                    def solve(self2):
                        spy.ran.append(nm)
                        spy.func, spy.gradfunc, spy.start = self2.func, self2.gradfunc, np.array(self2.x0, dtype=float)
                        return cls.solve(self2)
                return Rec
            setattr(self.cuqi.solver, nm, mk())
        return self

    def __exit__(self, *a):
        for nm, cls in self.saved.items():
            setattr(self.cuqi.solver, nm, cls)


def gradient_inconsistent(func, gradfunc, p):
    """what the optimiser is handed as a gradient must be the derivative of what it is handed as objective (central differences,
    exact for the quadratic objectives of the linear-Gaussian cells up to rounding)"""
    if gradfunc is None:
        return None
    p = np.array(p, dtype=float)
    g = np.asarray(gradfunc(p), dtype=float).ravel()
    h = 1e-4
    fd = np.array([(float(func(p + h * e)) - float(func(p - h * e))) / (2 * h) for e in np.eye(len(p))])
    if g.shape != fd.shape or np.max(np.abs(g - fd)) > 1e-5 * (1 + np.max(np.abs(fd))):
        return "the gradient handed to the optimiser at %s is %s but the derivative of its objective is %s" % (p.tolist(), g.tolist(), np.round(fd, 7).tolist())
    return None


def label_of(info):
    return {"direct": 0, "L-BFGS-B": 1}.get(info.get("solver"), 2)


def case_ml(cuqi, meta):
    """ML over the noise lattice x shapes x model forms at the NORMAL config (a closed-form branch appearing is a disagreement)"""
    BP, A_eff, m, n, computed = build_problem(cuqi, meta)
    kw = {}
    if meta.get("x0arg") is not None:
        kw["x0"] = make_x0(cuqi, meta["x0arg"], BP)
    if meta.get("disp") is not None:
        kw["disp"] = bool(meta["disp"])
    with _SolverSpy(cuqi) as spy:
        try:
            r = quiet(BP.ML, **kw)
            exc = None
        except Exception as e:
            r, exc = None, e
    linear = meta["model"] not in ("general", "general_buf")
    P = "(mk_pinfo %s %s %s %s %s %s)" % (cnat(0), cnat(0), cbool(linear), cnat(m), cnat(n), cbool(True))
    cell = "ml/%s-%s%s/Ce:%s%s/%s/x0:%s" % (meta["model"], meta.get("geom", "default"), "/mds" if meta["ce"].get("mds") is not None else "",
                                       meta["ce"].get("structure", meta["ce"]["kind"]) + (":const" if meta.get("constvec") else ""),
                                       "" if meta["ce"]["param"] == "cov" else "/param:" + meta["ce"]["param"],
                                       "rank-deficient" if meta.get("rankdef") else ("under" if m < n else ("square" if m == n else "over")),
                                       meta["x0arg"]["rel"] if meta.get("x0arg") else "default")
    if exc is not None:
        return Case(expr="false", meta=meta, cell=cell, kind="DECISION",
                    impl_fail="ML raised %r on a linear-Gaussian problem whose likelihood has a maximiser" % (exc,), signature=SIG_ML)
    x = np.asarray(r, dtype=float)
    if meta.get("geom") in NONID:
        A_eff = computed["A_true"]          # ML goes through forward(), not get_matrix(): the true parameter map applies in both states
    A = [[F(v) for v in row] for row in A_eff.tolist()]
    b = [F(v) for v in meta["b"]]
    Ce = intended_cov(meta["ce"], m)
    Pe = f_inv(Ce)
    At = f_T(A)
    fail = None
    if spy.ran and getattr(spy, "func", None) is not None:
        fail = gradient_inconsistent(spy.func, spy.gradfunc, spy.start + 0.125 * np.arange(1, n + 1))
    route_expr = "check_entry_route true %s %s %s %s" % (P, cnat(2000), cnat(label_of(r.info)), cbool(bool(spy.ran)))
    if not (isinstance(r, cuqi.array.CUQIarray) and r.geometry is BP.likelihood.geometry and x.shape == (n,)):
        fail = "ML result is not a CUQIarray of the parameter dimension on the likelihood's geometry"
    if meta.get("rankdef"):
        # the maximisers form an affine set: exactly the solutions of the normal equations A^T Pe A x = A^T Pe b
        lhs = f_mv(f_mm(f_mm(At, Pe), A), [F(v) for v in x.tolist()])
        rhs = f_mv(At, f_mv(Pe, b))
        if fail is None and not close_v(lhs, rhs, tol=5e-5):
            fail = "ML returned %s (success=%s) which does not satisfy the normal equations: A^T Pe A x = %s, A^T Pe b = %s" % (
                x, r.info.get("success"), [float(v) for v in lhs], [float(v) for v in rhs])
        ge_exact = {"param": "cov", "kind": "matrix", "val": Ce}
        expr = "check_ml_stationary %s %s %s %s %s %s && %s" % (cnat(m), cnat(n), cqmat(A_eff.tolist()), cqvec(meta["b"]), c_gdesc(ge_exact, m),
                                                               cqvec(x.tolist()), route_expr)
    elif m >= n:
        ref = f_mv(f_inv(f_mm(f_mm(At, Pe), A)), f_mv(At, f_mv(Pe, b)))
        if fail is None and not close_v(x, ref, tol=5e-5):
            fail = "ML returned %s (info solver=%s success=%s) but the weighted least-squares maximiser of the likelihood is %s" % (
                x, r.info.get("solver"), r.info.get("success"), [float(v) for v in ref])
        ge_exact = {"param": "cov", "kind": "matrix", "val": Ce}
        expr = "check_opt_ml %s %s %s %s %s %s && %s" % (cnat(m), cnat(n), cqmat(A_eff.tolist()), cqvec(meta["b"]), c_gdesc(ge_exact, m),
                                                        cqvec(x.tolist()), route_expr)
    else:
        # not unique: the maximum is attained exactly where A x = b (full row rank): residual zero, gradient zero
        res = np.array(A_eff) @ x - np.array(meta["b"], dtype=float)
        if fail is None and np.max(np.abs(res)) > 5e-5 * (1 + np.max(np.abs(meta["b"]))):
            fail = "ML returned %s with residual %s: the likelihood is larger on { x : A x = b }" % (x, res)
        expr = "check_ml_under %s %s %s && %s" % (cqmat(A_eff.tolist()), cqvec(meta["b"]), cqvec(x.tolist()), route_expr)
    if fail is None:
        fail = neighbourhood_fail(BP.likelihood, x, "ML", tol=1e-7)
    if fail is None:
        try:
            g = np.asarray(BP.likelihood.gradient(x), dtype=float)
            if np.linalg.norm(g) > 1e-3 * (1 + np.linalg.norm(x)):
                fail = "ML: likelihood gradient norm %.3g at the returned point" % np.linalg.norm(g)
        except (NotImplementedError, AttributeError):
            pass
    return Case(expr=expr, meta=meta, cell=cell, kind="EXACT", impl_fail=fail, signature=SIG_ML if fail else "")


def gen_ml_metas(ctx):
    rng = ctx.rng
    out = []
    shapes = [(2, 3), (3, 3), (4, 3), (5, 2), (3, 2)]
    noise = [("scalar", "cov"), ("vec1", "cov"), ("constvec", "cov"), ("vector", "cov"), ("diagm", "cov"), ("matrix", "cov"), ("sparsed", "cov"),
             ("scalar", "prec"), ("vector", "prec"), ("matrix", "prec"), ("scalar", "sqrtcov"), ("vector", "sqrtcov"), ("diagm", "sqrtcov"),
             ("scalar", "sqrtprec"), ("vector", "sqrtprec"), ("diagm", "sqrtprec")]
    forms = ["dense", "func", "sparse", "general", "general_buf", "func_strided"]
    k = 0
    for ke, pe in noise:
        for (m, n) in shapes:
            if m == 1 and ke != "scalar":
                continue
            for rep in range(ctx.n(1, 3)):
                k += 1
                form = forms[k % 6] if pe == "cov" else forms[k % 2]
                c = dict(m=m, n=n, ke="vector" if ke == "constvec" else ("diagm" if ke == "sparsed" else ke), kx="scalar", pe=pe, px="cov", model=form, geom="default", mean="vec")
                for attempt in range(200):
                    meta = instantiate(rng, c, op="ml")
                    if ensure_curvature(meta, m, n, "ML"):
                        break
                if ke == "constvec":
                    meta["ce"]["val"] = [meta["ce"]["val"][0]] * m
                    meta["constvec"] = True
                elif ke == "vector":
                    v = meta["ce"]["val"]
                    if len(set(v)) == 1:                      # NON-constant variances, always
                        v[0] = v[0] * 4 if v[0] < 1 else v[0] / 4
                    if m >= 2 and v[0] == v[1]:
                        v[1] = v[1] * 2 if v[1] < 2 else v[1] / 8
                elif ke == "sparsed":
                    meta["ce"]["kind"] = "sparse"
                if k % 5 == 0:
                    xs = ["other", "zeros", "list", "cuqiarray"][(k // 5) % 4]
                    val = [0.0] * n if xs == "zeros" else [dy(rng, -2, 2) for _ in range(n)]
                    meta["x0arg"] = {"style": xs if xs in ("list", "cuqiarray") else "ndarray", "val": val, "rel": xs}
                if k % 3 == 0:
                    meta["disp"] = bool(k % 2)
                out.append(meta)
    # the geometry lattice of the property's quantifier on the OPTIMISER route: ML goes through forward()/gradient(), so every
    # geometry (also the matrix models whose get_matrix() is wrong) must give the weighted least-squares point of the true map
    for geom, form in [("named", "dense"), ("named", "func"), ("step", "func"), ("step_mat", "dense"), ("kl", "dense"),
                       ("mapped_lin", "dense"), ("range_mapped_lin", "dense")]:
        for ke in ("scalar", "vector", "matrix"):
            for (m, n) in [(3, 2), (3, 3), (4, 3)]:
                k += 1
                c = dict(m=m, n=n, ke=ke, kx="scalar", pe="cov", px="cov", model=form, geom=geom, mean="vec")
                for attempt in range(40):
                    meta = instantiate(rng, c, op="ml")
                    if ensure_curvature(meta, m, n, "ML"):
                        break
                else:
                    continue
                out.append(meta)
    # dense matrices with structure (exactly decoupled blocks, permuted blocks, arrow) and the dim > MIN_DIM_SPARSE branches at
    # small sizes (config.MIN_DIM_SPARSE lowered while the Gaussian is built) as well as the ordinary dense branch
    for ke in ("block", "permblock", "arrow", "matrix"):
        for pe in ("cov", "prec", "sqrtcov"):
            for mds in (None, 1):
                for (m, n) in [(4, 3), (5, 2), (6, 3)]:
                    k += 1
                    c = dict(m=m, n=n, ke=ke, kx="scalar", pe=pe, px="cov", model=forms[k % 4], geom="default", mean="vec")
                    for attempt in range(40):
                        meta = instantiate(rng, c, op="ml")
                        if ensure_curvature(meta, m, n, "ML"):
                            break
                    else:
                        continue
                    if mds is not None:
                        meta["ce"]["mds"] = mds
                    out.append(meta)
    # rank-deficient systems (a repeated / a zero column, a repeated row pattern): ML is not unique
    for ke in ("scalar", "vector", "matrix"):
        for (m, n) in [(3, 3), (4, 3), (3, 2), (2, 3)]:
            for kind in ("dupcol", "zerocol"):
                for rep in range(ctx.n(1, 3)):
                    k += 1
                    c = dict(m=m, n=n, ke=ke, kx="scalar", pe="cov", px="cov", model=forms[k % 3], geom="default", mean="vec")
                    meta = instantiate(rng, c, op="ml")
                    A = np.array(meta["A"], dtype=float)
                    if kind == "dupcol":
                        A[:, n - 1] = A[:, 0] * rng.choice([1, 2, -1])
                    else:
                        A[:, rng.randrange(n)] = 0.0
                    if m < n:
                        A[m - 1, :] = A[0, :]                 # also row-rank deficient: A x = b has no solution in general
                    meta["A"] = A.tolist()
                    meta["rankdef"] = kind
                    if ke == "vector" and len(set(meta["ce"]["val"])) == 1:
                        meta["ce"]["val"][0] *= 4
                    out.append(meta)
    return out


def case_optng(cuqi, meta):
    """smooth log-concave (unimodal) non-Gaussian posterior: route decision in Coq, maximality by the oracle"""
    BP = build_classes(cuqi, meta)
    has_grad = observe_has_grad(BP)
    r = quiet(BP.MAP)
    x = np.asarray(r, dtype=float)
    fail = None
    if r.info.get("solver") == "direct":
        fail = "MAP took the closed-form branch for a non-Gaussian prior"
    else:
        fail = neighbourhood_fail(BP.posterior, x, "MAP", tol=1e-6) or refine_fail(BP.posterior, x, "MAP (success=%s)" % r.info.get("success"))
        if fail is None and has_grad:
            g = np.asarray(BP.posterior.gradient(x), dtype=float)
            if np.linalg.norm(g) > 1e-3 * (1 + np.linalg.norm(x)):
                fail = "MAP: gradient norm %.3g at the returned point (success=%s)" % (np.linalg.norm(g), r.info.get("success"))
    P = "(mk_pinfo %s %s %s %s %s %s)" % (cnat(DCLS.index(meta["prior"]) if meta["prior"] in DCLS else 7),
                                          cnat(DCLS.index(meta["lik"])), cbool(meta["linear"]), cnat(meta["m"]), cnat(meta["n"]), cbool(has_grad))
    expr = "check_routes %s %s %s %s" % (P, cnat(2000), cbool(r.info.get("solver") == "direct"), "false")
    sig = SIG_NONSMOOTH if meta["op"] == "optns" else SIG_OPT
    # round 5: the curvature hypothesis of C15_gauss_plus_concave_maximiser on this instance.  mu = a dyadic number below the smallest
    # eigenvalue of A^T Pe A (noise covariance 0.5 I as built by build_classes); the MODEL certifies A^T Pe A - mu I >= 0 exactly, the
    # oracle tests the conclusion (6) of the theorem on the implementation's own gradient field near the returned point:
    # (g(u) - g(v)).(u - v) <= -mu |u - v|^2  -- a log-concave prior can only add to the left-hand side's decrease
    A = np.array(meta["A"], dtype=float)
    lam = float(np.min(np.linalg.eigvalsh(A.T @ A / 0.5))) if A.shape[0] >= A.shape[1] else 0.0
    mu = math.floor(0.9 * lam * 64) / 64.0
    if meta["op"] == "optng" and mu > 0:
        expr += " && check_curvature %s %s %s %s %s" % (cnat(meta["m"]), cnat(meta["n"]), cqmat(meta["A"]),
                                                       c_gdesc({"param": "cov", "kind": "scalar", "val": 0.5}, meta["m"]), cq(mu))
        if fail is None and has_grad:
            rs = np.random.RandomState(5)
            for k in range(8):
                u = x + rs.standard_normal(len(x)) * 10.0 ** (-(k % 4))
                v = x + rs.standard_normal(len(x)) * 10.0 ** (-(k % 4))
                lhs = float(np.dot(np.asarray(BP.posterior.gradient(u), dtype=float) - np.asarray(BP.posterior.gradient(v), dtype=float), u - v))
                if lhs > -mu * float(np.dot(u - v, u - v)) * (1 - 1e-9) + 1e-12:
                    fail = "posterior gradient field is not strongly monotone with the certified modulus %.4g: (g(u)-g(v)).(u-v) = %.6g > -mu|u-v|^2 = %.6g at u=%s v=%s" % (
                        mu, lhs, -mu * float(np.dot(u - v, u - v)), u.tolist(), v.tolist())
                    break
            if fail is None:
                g = np.asarray(BP.posterior.gradient(x), dtype=float)
                xr = np.array(x, dtype=float)
                import scipy.optimize as so
                res = so.minimize(lambda z: -float(BP.posterior.logd(z)), xr, jac=lambda z: -np.asarray(BP.posterior.gradient(z), dtype=float), method="BFGS", options={"gtol": 1e-11})
                gr = np.asarray(BP.posterior.gradient(res.x), dtype=float)
                # both points lie within |grad| / mu of the unique maximiser (C15_gauss_plus_concave_maximiser (3)): triangle inequality
                if np.linalg.norm(res.x - x) > (np.linalg.norm(g) + np.linalg.norm(gr)) / mu * (1 + 1e-6) + 1e-10:
                    fail = "returned point %s and the refined point %s are further apart (%.3g) than (|grad|+|grad_ref|)/mu = %.3g allows" % (
                        x.tolist(), res.x.tolist(), np.linalg.norm(res.x - x), (np.linalg.norm(g) + np.linalg.norm(gr)) / mu)
    if meta["op"] == "optng" and fail is None:
        fail = prior_formula_fail(BP, meta, x)
    return Case(expr=expr, meta=meta, cell="%s/%s" % (meta["op"], meta["prior"]), kind="DECISION", impl_fail=fail, signature=sig if fail else "")


def prior_formula_fail(BP, meta, x):
    """the log-priors C15_prior_classes_concave speaks about are the ones that run: differences of prior.logd and prior.gradient against
    the formulas written down here (SmoothedLaplace(0, 0.5, 0.01): -sum sqrt(u_i^2 + beta)/scale; GMRF(0, 2.0), zero boundary, order 1:
    -(prec/2) |D u|^2 with D u = (u_0, u_1 - u_0, ..., -u_{n-1}))"""
    n = meta["n"]
    rs = np.random.RandomState(9)
    for k in range(4):
        u = np.asarray(x, dtype=float) + rs.standard_normal(n) * 10.0 ** (-k)
        v = np.asarray(x, dtype=float) + rs.standard_normal(n) * 10.0 ** (-k)
        if meta["prior"] == "Other":
            scale, beta = 0.5, 0.01
            h = lambda z: -float(np.sum(np.sqrt(z ** 2 + beta) / scale))
            gh = lambda z: -z / (scale * np.sqrt(z ** 2 + beta))
        elif meta["prior"] == "GMRF":
            prec = 2.0
            D = lambda z: np.diff(np.concatenate([[0.0], z, [0.0]]))
            h = lambda z: -0.5 * prec * float(np.dot(D(z), D(z)))
            gh = lambda z: prec * np.diff(D(z))
        else:
            return None
        d_impl = float(BP.prior.logd(u)) - float(BP.prior.logd(v))
        if abs(d_impl - (h(u) - h(v))) > 1e-9 * (1 + abs(d_impl)):
            return "prior %s: logd(u) - logd(v) = %.12g but the formula the concavity theorem is about gives %.12g (u=%s, v=%s)" % (
                meta["prior"], d_impl, h(u) - h(v), u.tolist(), v.tolist())
        g_impl = np.asarray(BP.prior.gradient(u), dtype=float)
        if np.max(np.abs(g_impl - gh(u))) > 1e-9 * (1 + np.max(np.abs(g_impl))):
            return "prior %s: gradient %s at %s, formula %s" % (meta["prior"], g_impl.tolist(), u.tolist(), gh(u).tolist())
    return None



# ---------------------------------------------------------------------------------------------------------
# op = disp : the optimiser route observed at the SciPy boundary (round 5)
# ---------------------------------------------------------------------------------------------------------
POLISH = [False]        # state of fixes/C15_nonsmooth_polish.diff on the tree under test (probed in run)
SIG_DISP = "BayesianProblem._solve_max_point|dispatch"


def probe_polish(cuqi):
    """the proposed polish is in the tree iff the non-smooth witness ends within 1e-6 of the maximum"""
    try:
        BP = build_classes(cuqi, WITNESS_NONSMOOTH)
        x = np.asarray(quiet(BP.MAP), dtype=float)
        return bool(float(BP.posterior.logd(np.zeros(2))) - float(BP.posterior.logd(x)) <= 1e-6)
    except Exception:
        return False


class _ScipyScript:
    """replaces what cuqi/solver/_solver.py sees as scipy.optimize (name `opt`) and as fmin_l_bfgs_b by recorders that
    answer from a script; nothing in scipy itself is touched"""
    METHODS = {None: 0, "Nelder-Mead": 1, "Powell": 2}

    def __init__(self, cuqi, answers):
        self.mod, self.answers, self.calls, self.extra = cuqi.solver._solver, list(answers), [], []

    def _next(self):
        if not self.answers:
            raise RuntimeError("more SciPy calls than scripted answers")
        return self.answers.pop(0)

    def __enter__(self):
        import scipy.optimize as so
        spy = self
        real = self.mod.opt

        class Shim:
            def __getattr__(self2, name):
                return getattr(real, name)

            def minimize(self2, func, x0, *args, **kw):
                jac, method = kw.pop("jac", None), kw.pop("method", None)
                spy.calls.append((0, spy.METHODS.get(method, 9), jac is not None, False, [float(v) for v in np.asarray(x0, dtype=float).ravel()]))
                spy.extra.append((args, sorted(kw)))
                pt, flag = spy._next()
                return so.OptimizeResult(x=np.array(pt, dtype=float), success=(flag == 0), message="scripted", fun=0.0, jac=None, nit=0, nfev=0, status=flag)

        def lbfgsb(func, x0, *args, **kw):
            fprime, approx = kw.pop("fprime", None), kw.pop("approx_grad", 0)
            spy.calls.append((1, 0, fprime is not None, bool(approx), [float(v) for v in np.asarray(x0, dtype=float).ravel()]))
            spy.extra.append((args, sorted(kw)))
            pt, flag = spy._next()
            return np.array(pt, dtype=float), 0.0, {"warnflag": flag, "task": "scripted", "grad": np.zeros(len(pt)), "nit": 0, "funcalls": 0}
        self.saved = (self.mod.opt, self.mod.fmin_l_bfgs_b)
        self.mod.opt, self.mod.fmin_l_bfgs_b = Shim(), lbfgsb
        return self

    def __exit__(self, *a):
        self.mod.opt, self.mod.fmin_l_bfgs_b = self.saved


def c_call(c):
    return "(%s, %s, %s, %s, %s)" % (cnat(c[0]), cnat(c[1]), cbool(c[2]), cbool(c[3]), cqvec(c[4]))


def case_disp(cuqi, meta):
    """which SciPy routine runs, with which gradient mode and start point, for which problem class; what MAP / ML make of the
    scripted answer (success or failure).  Independent table: expected_gradient / prior class / dims, written from meta alone."""
    which, n, m = meta["which"], meta["n"], meta["m"]
    old = cuqi.config.MAX_DIM_INV
    cuqi.config.MAX_DIM_INV = meta["max_dim_inv"]
    raised = None
    try:
        BP = build_classes(cuqi, meta)
        x0 = None if meta["x0"] is None else np.array(meta["x0"], dtype=float)
        with _ScipyScript(cuqi, meta["answers"]) as spy:
            try:
                r = quiet(getattr(BP, which), x0=x0) if x0 is not None else quiet(getattr(BP, which))
            except Exception as e:
                raised, r = repr(e)[:200], None
    finally:
        cuqi.config.MAX_DIM_INV = old
    g_dens = expected_gradient(meta, which)                 # does the density handed to the solver have a gradient
    g_post = expected_gradient(meta, "MAP")                 # does the posterior have one (decides L-BFGS-B for CMRF)
    probe = 0 if g_dens else 1
    if meta["lik"] != "Gaussian":
        # non-Gaussian likelihoods: the outcome of the gradient probe is OBSERVED by the same call made here, outside MAP / ML
        # (a Cauchy likelihood raises TypeError today: its gradient() lacks the conditioning argument); the model then says what
        # the entry point must do given that outcome
        density = BP.posterior if which == "MAP" else BP.likelihood
        try:
            density.gradient(np.ones(n) if meta["x0"] is None else np.array(meta["x0"], dtype=float))
            probe = 0
        except (NotImplementedError, AttributeError):
            probe = 1
        except Exception:
            probe = 2
        g_dens = probe == 0
        g_post = observe_has_grad_safe(BP)
    lin_gauss = which == "MAP" and meta["prior"] == "Gaussian" and meta["lik"] == "Gaussian" and meta["linear"] \
        and n <= meta["max_dim_inv"] and m <= meta["max_dim_inv"]
    start = [1.0] * n if meta["x0"] is None else [float(v) for v in meta["x0"]]
    fail = None
    calls = spy.calls
    if raised is not None:
        point, success, label, returned = [], False, 2, False
    else:
        point, success, label, returned = [float(v) for v in np.asarray(r, dtype=float).ravel()], bool(r.info.get("success")), label_of(r.info), True
    if lin_gauss:
        if calls:
            fail = "%s of a small linear-Gaussian problem ran an optimiser (%d SciPy calls) instead of the closed form" % (which, len(calls))
    elif raised is not None:
        pass        # a refusal is never "another point"; unless the gradient probe raises the model (faithful: a value is returned) disagrees
    elif probe == 2:
        pass        # a value although the probe raises: the model (ERaised) disagrees as a DECISION; the point itself may well be right
    elif not calls:
        fail = "%s returned %s without any SciPy call although no closed form applies (prior %s, linear=%s, dims (%d,%d), MAX_DIM_INV=%d)" % (
            which, point, meta["prior"], meta["linear"], m, n, meta["max_dim_inv"])
    else:
        want_routine = 1 if (meta["prior"] == "CMRF" and g_post) else 0
        c0 = calls[0]
        used = meta["answers"][len(calls) - 1]
        if c0[0] != want_routine or c0[1] != 0:
            fail = "%s: first SciPy call is %s(method code %d) for prior %s (posterior gradient: %s)" % (which, ["minimize", "fmin_l_bfgs_b"][c0[0]], c0[1], meta["prior"], g_post)
        elif c0[2] != g_dens or (c0[0] == 1 and c0[3] != (not g_dens)):
            fail = "%s: gradient handed to SciPy=%s approx_grad=%s, but the density %s a gradient" % (which, c0[2], c0[3], "has" if g_dens else "has not")
        elif c0[4] != start:
            fail = "%s: SciPy was started at %s, expected %s" % (which, c0[4], start)
        elif spy.extra[0] != ((), []):
            fail = "%s: unexpected extra arguments to SciPy: %s" % (which, spy.extra[0])
        elif point != [float(v) for v in used[0]] or success != (used[1] == 0):
            fail = "%s returned %s (success=%s), SciPy's last answer was %s (status %d): the estimate is not the solver's point" % (which, point, success, used[0], used[1])
        elif label != 1:
            fail = "%s: info['solver'] = %r on the optimiser route" % (which, r.info.get("solver"))
    P = "(mk_pinfo %s %s %s %s %s %s)" % (cnat(DCLS.index(meta["prior"])), cnat(DCLS.index(meta["lik"])), cbool(meta["linear"]), cnat(m), cnat(n), cbool(g_post))
    answers = clist(["(%s, %s)" % (cqvec(a[0]), cnat(a[1])) for a in meta["answers"]])
    expr = "check_dispatch %s %s %s %s %s %s %s %s %s %s %s %s" % (
        cbool(which == "ML"), cbool(POLISH[0]), P, cnat(meta["max_dim_inv"]), cnat(probe), copt(meta["x0"], cqvec), answers,
        clist([c_call(c) for c in calls]), cbool(returned), cqvec(point), cbool(success), cnat(label))
    return Case(expr=expr, meta=meta, cell="disp/%s/%s%s,%s/%s/x0:%s/answer:%s" % (
        which, meta["prior"], "" if meta["lik"] == "Gaussian" else "+" + meta["lik"] + "-lik", "linear" if meta["linear"] else ("general" if meta.get("model_grad", True) else "general-nograd"), meta["dimcls"],
        "given" if meta["x0"] is not None else "default", meta["anscls"]), kind="DECISION", impl_fail=fail, signature=SIG_DISP if fail else "")


def gen_disp_metas(ctx):
    rng = ctx.rng
    out = []
    k = 0
    for rep in range(ctx.n(1, 3)):
      for prior in ["Gaussian", "GMRF", "LMRF", "CMRF", "Laplace", "Cauchy"]:
          for linear, mg in [(True, True), (False, True), (False, False)]:
              for which in ("MAP", "ML"):
                  for anscls, flags in (("success", (0, 0, 0)), ("failure", (2, 1, 0)), ("failure-twice", (1, 2, 2))):
                      m, n = rng.choice([(2, 3), (3, 2), (3, 3)])
                      dimcls, mdi = [("normal", 2000), ("equal", max(m, n)), ("below", max(m, n) - 1)][(k // 3 + k) % 3]
                      k += 1
                      out.append({"op": "disp", "prior": prior, "lik": "Gaussian", "linear": linear, "model_grad": mg, "which": which, "m": m, "n": n,
                                  "A": gen_A(rng, m, n), "b": [dy(rng) for _ in range(m)], "x0": [dy(rng) for _ in range(n)] if k % 2 else None,
                                  "max_dim_inv": mdi, "dimcls": dimcls, "anscls": anscls,
                                  "answers": [[[dy(rng) for _ in range(n)], f] for f in flags]})
    # falsy-but-legitimate start point (all zeros) and degenerate sizes (one parameter, one datum)
    for prior in ("Gaussian", "CMRF", "Laplace"):
        for which in ("MAP", "ML"):
            for (m, n), tag in (((3, 2), "x0-zeros"), ((1, 1), "1x1"), ((2, 1), "2x1")):
                if n == 1 and prior == "CMRF":
                    continue        # CMRF's constructor refuses a single node (documented)
                for anscls, flags in (("success", (0, 0, 0)), ("failure", (1, 2, 0))):
                    out.append({"op": "disp", "prior": prior, "lik": "Gaussian", "linear": True, "model_grad": True, "which": which, "m": m, "n": n,
                                "A": gen_A(rng, m, n), "b": [dy(rng) for _ in range(m)], "x0": [0.0] * n if tag == "x0-zeros" else None,
                                "max_dim_inv": 0 if tag != "x0-zeros" else 1, "dimcls": "below/" + tag, "anscls": anscls,
                                "answers": [[[dy(rng) for _ in range(n)], f] for f in flags]})
    for lik in ("Cauchy", "Laplace"):
        for prior in ("Gaussian", "Laplace", "CMRF"):
            for which in ("MAP", "ML"):
                for anscls, flags in (("success", (0, 0, 0)), ("failure", (2, 1, 0))):
                    m, n = rng.choice([(2, 3), (3, 2), (3, 3)])
                    k += 1
                    out.append({"op": "disp", "prior": prior, "lik": lik, "linear": True, "model_grad": True, "which": which, "m": m, "n": n,
                                "A": gen_A(rng, m, n), "b": [dy(rng) for _ in range(m)], "x0": [dy(rng) for _ in range(n)] if k % 2 else None,
                                "max_dim_inv": 2000, "dimcls": "normal", "anscls": anscls,
                                "answers": [[[dy(rng) for _ in range(n)], f] for f in flags]})
    return out


def observe_has_grad_safe(BP):
    try:
        BP.posterior.gradient(np.zeros(BP.posterior.dim))
        return True
    except Exception:
        return False


# ---------------------------------------------------------------------------------------------------------
# op = select : sample_posterior as one function -- which sampler, and on the direct route the law of the draws (round 5)
# ---------------------------------------------------------------------------------------------------------
SIG_SELECT = "BayesianProblem.sample_posterior|selection"


def case_select(cuqi, meta):
    BPcls = cuqi.problem.BayesianProblem
    m, n = meta["m"], meta["n"]
    old = cuqi.config.MAX_DIM_INV
    cuqi.config.MAX_DIM_INV = meta["max_dim_inv"]
    taken, X = [], None
    try:
        BP = build_select(cuqi, meta)
        sptm = hasattr(BP.prior, "sqrtprecTimesMean")
        lsq = hasattr(BP.likelihood.distribution, "sqrtprec")
        zs = [np.zeros(n)] + [np.eye(n)[i] for i in range(n)]
        count = [0]

        def script(kind, a, k, idx):
            if kind == "randn":
                count[0] += 1
                return zs[min(count[0] - 1, len(zs) - 1)].copy()
            return None
        real_direct = BPcls._sampleMapCholesky

        def direct(self, *a, **k):
            taken.append("_sampleMapCholesky")
            return real_direct(self, *a, **k)
        patches = {nm: (lambda self, *a, _nm=nm, **k: taken.append(_nm)) for nm in SAMPLERS if nm != "_sampleMapCholesky"}
        patches["_sampleMapCholesky"] = direct
        with _Patch(BPcls, **patches):
            with ScriptedRandom(seed=1, script=script):
                try:
                    S = quiet(BP.sample_posterior, n + 1, **(meta.get("sargs") or {}))
                    if taken == ["_sampleMapCholesky"]:
                        X = np.array(S.samples, dtype=float)
                except NotImplementedError:
                    taken.append("NotImplementedError")
    finally:
        cuqi.config.MAX_DIM_INV = old
    order = ["_sampleGibbs", "_sampleMapCholesky", "_sampleLinearRTO", "_sampleUGLA", "_sampleNUTS", "_samplepCN",
             "_sampleRegularizedLinearRTO", "NotImplementedError"]
    idx = order.index(taken[0]) if len(taken) == 1 and taken[0] in order else 99
    lin_gauss = meta["prior"] == "Gaussian" and meta["lik"] == "Gaussian" and meta["linear"] and n <= meta["max_dim_inv"] and m <= meta["max_dim_inv"]
    fail = None
    mu_l, L_l = [], []
    if (idx == 1) != lin_gauss:
        fail = "sample_posterior took %s for prior=%s lik=%s linear=%s dims (%d,%d) MAX_DIM_INV=%d: the direct Gaussian route is for exactly the small linear-Gaussian problems" % (
            taken, meta["prior"], meta["lik"], meta["linear"], m, n, meta["max_dim_inv"])
    elif idx == 99:
        fail = "sample_posterior dispatched to %s" % (taken,)
    elif idx == 1:
        if X is None or X.shape != (n, n + 1) or not np.all(np.isfinite(X)):
            fail = "the direct route handed back %s" % (None if X is None else X.shape,)
        else:
            mu = X[:, 0]
            L = X[:, 1:n + 1] - mu[:, None]
            L = np.where(np.abs(L) < 1e-300, 0.0, L)
            A = [[F(v) for v in row] for row in meta["A"]]
            mean, C, H = posterior_exact(A, [F(v) for v in meta["b"]], full_x0(meta, n), intended_cov(meta["ce"], m), intended_cov(meta["cx"], n))
            Cn = np.array([[float(v) for v in r] for r in C])
            if not close_v(mu, mean):
                fail = "offset of the direct draws %s is not the posterior mean %s" % (mu, [float(v) for v in mean])
            elif not np.allclose(L @ L.T, Cn, rtol=1e-7, atol=1e-7):
                fail = "covariance L L^T of the direct draws differs from the posterior covariance (max diff %.3g)" % np.max(np.abs(L @ L.T - Cn))
            mu_l, L_l = mu.tolist(), L.tolist()
    # independent table: the posterior has a gradient iff prior, likelihood (a Laplace likelihood has none) and model have one
    has_grad = (expected_gradient(meta, "MAP") and meta["lik"] == "Gaussian") if meta["prior"] in PRIOR_HAS_GRAD else observe_has_grad(BP)
    P = "(mk_pinfo %s %s %s %s %s %s)" % (cnat(DCLS.index(meta["prior"])), cnat(DCLS.index(meta["lik"])), cbool(meta["linear"]), cnat(m), cnat(n), cbool(has_grad))
    sargs = meta.get("sargs") or {}
    expr = "check_sample_entry true false %s %s %s %s %s %s %s %s %s %s %s %s %s %s" % (
        P, cbool(sptm), cbool(lsq), cnat(meta["max_dim_inv"]), cbool(bool(sargs.get("experimental"))), copt(sargs.get("Nb"), cnat),
        cqmat(meta["A"]), cqvec(meta["b"]), cqvec(model_x0(meta, n)), c_gdesc(meta["ce"], m), c_gdesc(meta["cx"], n),
        cnat(idx), cqvec(mu_l), cqmat(L_l))
    return Case(expr=expr, meta=meta, cell="select/%s,%s,%s/%s/Ce:%s,Cx:%s/args:%s" % (
        meta["prior"], meta["lik"], "linear" if meta["linear"] else "general", meta["dimcls"], meta["ce"]["kind"], meta["cx"]["kind"],
        ",".join(sorted(sargs)) or "none"), kind="EXACT", impl_fail=fail, signature=SIG_SELECT if fail else "")


def build_select(cuqi, meta):
    """linear-Gaussian data (A, b, mean, ce, cx as in the closed-form cells) under the requested prior / model classes"""
    D = cuqi.distribution
    m, n = meta["m"], meta["n"]
    A = np.array(meta["A"], dtype=float)
    model = cuqi.model.LinearModel(A) if meta["linear"] else cuqi.model.Model(lambda x: A @ x, m, n, gradient=lambda direction, wrt: A.T @ direction)
    if meta["prior"] == "Gaussian":
        x = build_gaussian(cuqi, np.array(full_x0_float(meta, n)), meta["cx"])
    elif meta["prior"] == "GMRF":
        x = D.GMRF(np.zeros(n), 2.0)
    elif meta["prior"] == "LMRF":
        x = D.LMRF(0, 0.5, geometry=n)
    else:
        x = D.Laplace(np.zeros(n), 0.5)
    arg = (model @ x) if meta["linear"] else model(x)
    y = build_gaussian(cuqi, arg, meta["ce"]) if meta["lik"] == "Gaussian" else D.Laplace(arg, 0.5)
    x.name, y.name = "x", "y"
    return cuqi.problem.BayesianProblem(y, x).set_data(y=np.array(meta["b"], dtype=float))


def full_x0_float(meta, n):
    return [float(v) for v in full_x0(meta, n)]


def gen_select_metas(ctx):
    rng = ctx.rng
    out = []
    k = 0
    for (ke, kx) in [("scalar", "scalar"), ("matrix", "matrix"), ("vector", "matrix"), ("matrix", "vector")] * ctx.n(1, 3):
        for (m, n) in [(2, 3), (3, 2), (3, 3)]:
            for dimcls in ("normal", "equal", "below"):
                for prior, lik, linear in ([("Gaussian", "Gaussian", True)] if dimcls != "normal" else
                                           [("Gaussian", "Gaussian", True), ("Gaussian", "Gaussian", False), ("GMRF", "Gaussian", True),
                                            ("LMRF", "Gaussian", True), ("Laplace", "Gaussian", True), ("Gaussian", "Laplace", True)]):
                    c = dict(m=m, n=n, ke=ke, kx=kx, pe="cov", px="cov", model="dense", geom="default", mean="vec")
                    meta = instantiate(rng, c, "sample")
                    mdi = {"normal": 2000, "equal": max(m, n), "below": max(m, n) - 1}[dimcls]
                    sargs = [{}, {"Nb": 0}, {"experimental": True}, {"Nb": 2, "experimental": True}][k % 4]
                    k += 1
                    meta.update(op="select", m=m, n=n, prior=prior, lik=lik, linear=linear, max_dim_inv=mdi, dimcls=dimcls, sargs=sargs)
                    out.append(meta)
    return out

# ---------------------------------------------------------------------------------------------------------
# run
# ---------------------------------------------------------------------------------------------------------
def dispatch(cuqi, meta, fixed, cell=""):
    op = meta["op"]
    if op == "map":
        return case_map(cuqi, meta, fixed, cell)
    if op == "sample":
        return case_sample(cuqi, meta, fixed, cell)
    if op == "route":
        return case_route(cuqi, meta)
    if op == "cascade":
        return case_cascade(cuqi, meta)
    if op == "handover":
        return case_handover(cuqi, meta)
    if op == "setup":
        return case_setup(cuqi, meta)
    if op == "opt":
        return case_opt(cuqi, meta)
    if op in ("optng", "optns"):
        return case_optng(cuqi, meta)
    if op == "ml":
        return case_ml(cuqi, meta)
    if op == "ccov":
        return case_ccov(cuqi, meta)
    if op == "sprec":
        return case_sprec(cuqi, meta)
    if op == "disp":
        return case_disp(cuqi, meta)
    if op == "select":
        return case_select(cuqi, meta)
    if op in ("life", "composite", "sprior", "sample1"):
        return {"life": case_life, "composite": case_composite, "sprior": case_sprior, "sample1": case_sample1}[op](cuqi, meta)
    raise ValueError(op)


def gen_route_metas(ctx):
    rng = ctx.rng
    out = []
    priors = ["Gaussian", "GMRF", "LMRF", "CMRF", "Laplace", "Cauchy"]
    for prior in priors:
        for lik in ["Gaussian", "Laplace"]:
            for linear in (True, False):
                for dimcls, (m, n, md) in DIMCLS.items():
                    if prior not in ("Gaussian", "GMRF") and dimcls not in ("below", "equal", "n-above", "m-above"):
                        continue
                    out.append({"op": "route", "prior": prior, "lik": lik, "linear": linear, "m": m, "n": n, "max_dim_inv": md,
                                "dimcls": dimcls, "A": gen_A(rng, m, n), "b": [dy(rng) for _ in range(m)]})
    return out


DIMCLS = {"below": (2, 3, 2000), "equal": (3, 3, 3), "n-above": (2, 3, 2), "m-above": (3, 2, 2), "n-equal-m-below": (2, 3, 3),
          "m-equal-n-below": (3, 2, 3), "both-above": (3, 4, 2), "n-one-above": (3, 4, 3)}


def gen_cascade_metas(ctx):
    rng = ctx.rng
    out = []
    priors = ["Gaussian", "GMRF", "LMRF", "CMRF", "Laplace", "Cauchy", "RegularizedGaussian", "RegularizedGMRF", "Beta",
              "InverseGamma", "Lognormal", "Other"]
    for prior in priors:
        for lik in ["Gaussian", "Laplace", "Cauchy"]:      # a Cauchy likelihood makes the gradient probe raise TypeError when the cascade gets that far
            for linear, mg in [(True, True), (False, True), (False, False)]:
                for dimcls in (["below", "n-above"] if prior != "Gaussian" else list(DIMCLS)):
                    m, n, md = DIMCLS[dimcls]
                    meta = {"op": "cascade", "prior": prior, "lik": lik, "linear": linear, "model_grad": mg, "m": m, "n": n,
                            "max_dim_inv": md, "dimcls": dimcls, "A": gen_A(rng, m, n), "b": [dy(rng) for _ in range(m)]}
                    if prior == "RegularizedGMRF" and lik == "Gaussian":
                        meta["subclass"] = (len(out) % 2 == 0)
                    if lik == "Gaussian" and len(out) % 3 == 0:          # (by position, not by the seed: the cells are fixed)
                        meta["experimental"] = True
                    out.append(meta)
    for prior in ["Gaussian", "GMRF", "LMRF"]:
        out.append({"op": "cascade", "joint": True, "prior": prior, "lik": "Gaussian", "linear": True, "m": 2, "n": 3, "max_dim_inv": 2000,
                    "dimcls": "below", "A": gen_A(rng, 2, 3), "b": [0, 0]})
    return out


def gen_setup_metas(ctx):
    rng = ctx.rng
    out = []
    for prior in ["Gaussian", "GMRF", "LMRF", "CMRF", "Laplace", "Cauchy"]:
        for linear, mg in [(True, True), (False, True), (False, False)]:
            for which in ("MAP", "ML"):
                for x0given in (False, True):
                    m, n = rng.choice([(2, 3), (3, 2), (3, 3)])
                    out.append({"op": "setup", "prior": prior, "lik": "Gaussian", "linear": linear, "model_grad": mg, "which": which,
                                "m": m, "n": n, "A": gen_A(rng, m, n), "b": [dy(rng) for _ in range(m)],
                                "x0": [dy(rng) for _ in range(n)] if x0given else None, "point": [dy(rng) for _ in range(n)]})
    # domain geometries: identity-like (gradient available) and expansions (Model.gradient must refuse: par2fun is not the identity)
    for dgk in ("named", "step", "kl"):
        for linear in (True, False):
            for which in ("MAP", "ML"):
                m, n = rng.choice([(3, 2), (3, 3), (4, 3)])
                ncol = n * 2 if dgk == "step" else n
                out.append({"op": "setup", "prior": "Gaussian", "lik": "Gaussian", "linear": linear, "model_grad": True, "which": which, "dgeom": dgk,
                            "m": m, "n": n, "A": gen_A(rng, m, ncol), "b": [dy(rng) for _ in range(m)], "x0": None, "point": [dy(rng) for _ in range(n)]})
    return out


# which densities have a gradient, written down independently of the objects under test:
# priors with an implemented gradient; models with a gradient through an identity-type geometry (exact type) only
PRIOR_HAS_GRAD = {"Gaussian": True, "GMRF": True, "LMRF": False, "CMRF": True, "Laplace": False, "Cauchy": True}


def expected_gradient(meta, which):
    model_grad = (meta["linear"] or meta.get("model_grad", True)) and meta.get("dgeom") in (None, "named")
    if which == "ML":
        return bool(model_grad)
    return bool(model_grad and PRIOR_HAS_GRAD.get(meta["prior"], False))


def gen_opt_metas(ctx):
    rng = ctx.rng
    out = []
    combos = [("scalar", "scalar"), ("matrix", "matrix"), ("vector", "matrix"), ("matrix", "vector"), ("scalar", "matrix")]
    reps = ctx.n(1, 12)
    for _ in range(reps):
        for force in ("max_dim", "general"):
            for ke, kx in combos:
                for which in ("MAP", "ML"):
                    if which == "ML" and kx != "matrix":
                        continue
                    m, n = rng.choice([(3, 2), (3, 3), (4, 3)] if which == "ML" else [(2, 3), (3, 3), (3, 2)])
                    c = dict(m=m, n=n, ke=ke, kx=kx, pe="cov", px="cov", model="general" if force == "general" else "dense", geom="default", mean="vec")
                    for attempt in range(200):
                        meta = instantiate(rng, c, op="opt")
                        if ensure_curvature(meta, m, n, which):
                            break
                    meta.update(which=which, force=force, m=m, n=n, x0=[dy(rng, -2, 2) for _ in range(n)] if len(out) % 2 == 0 else None,
                                x0_style=["ndarray", "list", "cuqiarray"][len(out) % 3])
                    out.append(meta)
    return out


def gen_opt_struct_metas(ctx):
    """MAP by the optimiser (general Model) with structured dense covariances, ordinary and dim > MIN_DIM_SPARSE branches"""
    rng = ctx.rng
    out = []
    for ke, kx in [("block", "block"), ("permblock", "matrix"), ("matrix", "arrow"), ("arrow", "permblock")]:
        for pe, px in [("cov", "cov"), ("prec", "sqrtcov"), ("sqrtcov", "prec")]:
            for mds in (None, 1):
                m, n = [(4, 4), (5, 4)][len(out) % 2]
                c = dict(m=m, n=n, ke=ke, kx=kx, pe=pe, px=px, model="general", geom="default", mean="vec")
                for attempt in range(40):
                    meta = instantiate(rng, c, op="opt")
                    if ensure_curvature(meta, m, n, "MAP"):
                        break
                else:
                    continue
                if mds is not None:
                    meta["ce"]["mds"] = mds
                    meta["cx"]["mds"] = mds
                meta.update(which="MAP", force="general", m=m, n=n, x0=None)
                out.append(meta)
    return out


def case_sprec(cuqi, meta):
    """the factor a Gaussian derives (or stores): R^T R must be the precision of the density, in both storage regimes"""
    g, d = meta["g"], meta["dim"]
    G = build_gaussian(cuqi, np.zeros(d), g)
    R = G.sqrtprec
    R = np.asarray(R.todense()) if hasattr(R, "todense") else np.asarray(R, dtype=float)
    Pobs = R.T @ R
    cell = "sprec/%s/%s%s" % (g["param"], g.get("structure", g.get("factor", g["kind"])), "/mds" if g.get("mds") is not None else "")
    if not np.all(np.isfinite(Pobs)):
        return Case(expr="false", meta=meta, cell=cell, kind="EXACT", impl_fail="sqrtprec holds non-finite values", signature=SIG_CCOV)
    exactC = intended_cov(g, d)
    exactP = f_inv(exactC)
    fail = None
    if not all(close_v(r, e, tol=1e-8) for r, e in zip(Pobs.tolist(), exactP)):
        fail = "sqrtprec^T sqrtprec = %s but the precision of the specified Gaussian is %s" % (np.round(Pobs, 6).tolist(), [[round(float(v), 6) for v in r] for r in exactP])
    else:
        x = np.arange(1, d + 1) / 2.0
        q = -2.0 * float(np.ravel(G._logupdf(x))[0])
        qe = float(sum(F(a) * F(b2) * pij for a, row in zip(x, exactP) for b2, pij in zip(x, row)))
        if abs(q - qe) > 1e-8 * (1 + abs(qe)):
            fail = "-2 logupdf(x) = %r but (x-mean)^T P (x-mean) = %r" % (q, qe)
    expr = "check_precision %s %s %s" % (cnat(d), c_gdesc(g, d), cqmat(Pobs.tolist()))
    return Case(expr=expr, meta=meta, cell=cell, kind="EXACT", impl_fail=fail, signature=SIG_CCOV if fail else "")


def gen_sprec_metas(ctx):
    rng = ctx.rng
    out = []
    for par in ("cov", "prec", "sqrtcov"):
        for kind in ("scalar", "vector", "diagm", "matrix", "block", "permblock", "arrow"):
            for mds in (None, 1):
                for d in (2, 3, 4, 5, 6):
                    if kind in ("block", "permblock", "arrow") and d < 3:
                        continue
                    g = gen_cov(rng, kind, d, par)
                    if mds is not None:
                        g["mds"] = mds
                    out.append({"op": "sprec", "dim": d, "g": g})
    for fac in FACTORS:
        for mds in (None, 1):
            for d in (2, 3, 4):
                g = {"param": "sqrtprec", "kind": "matrix", "val": gen_factor(rng, d, fac), "factor": fac}
                if mds is not None:
                    g["mds"] = mds
                out.append({"op": "sprec", "dim": d, "g": g})
    # integer dtype through the reciprocal / inverse maps: integer-valued prec, sqrtprec, sqrtcov and cov given as int64 arrays
    for par in PARAMS:
        for kind in ("vector", "diagm", "matrix"):
            for d in (2, 3):
                g = gen_cov(rng, kind, d, par)
                g["val"] = (np.array(g["val"]) * 4).tolist()
                if par in ("sqrtcov", "sqrtprec") and kind == "matrix":
                    g = {"param": par, "kind": "matrix", "val": (np.array(gen_factor(rng, d, "general")) * 2).tolist(), "factor": "general"}
                g["int"] = True
                out.append({"op": "sprec", "dim": d, "g": g})
                out.append({"op": "ccov", "dim": d, "g": dict(g)})
    if ctx.thorough:      # the real threshold: dims 75 / 76 / 77 with block structure (exact Fraction inverse of the blocks)
        for par in ("cov", "prec"):
            for d in (75, 76, 77):
                g = gen_cov(rng, "block", d, par)
                out.append({"op": "sprec", "dim": d, "g": g, "big": True})
    return out


def gen_optng_metas(ctx):
    rng = ctx.rng
    out = []
    for _ in range(ctx.n(2, 20)):
        for prior in ["GMRF", "Other"]:           # Other = SmoothedLaplace: smooth and log-concave
            m, n = rng.choice([(3, 3), (4, 3), (3, 2)])
            out.append({"op": "optng", "prior": prior, "lik": "Gaussian", "linear": True, "m": m, "n": n,
                        "A": gen_A(rng, m, n), "b": [dy(rng) for _ in range(m)]})
    return out


def gen_optns_metas(ctx):
    """non-smooth log-concave priors (Laplace, LMRF): unimodal posteriors, BFGS with finite-difference gradients"""
    rng = ctx.rng
    out = [dict(WITNESS_NONSMOOTH)]
    for _ in range(ctx.n(2, 15)):
        for prior in ["Laplace", "LMRF"]:
            m, n = rng.choice([(3, 2), (4, 3), (3, 3)])
            out.append({"op": "optns", "prior": prior, "lik": "Gaussian", "linear": True, "m": m, "n": n,
                        "A": gen_A(rng, m, n), "b": [dy(rng) for _ in range(m)]})
    return out


def safe(fn, cuqi, meta, *rest):
    """a case that cannot even be driven is a disagreement of its own (the other cells still run and give their replays)"""
    import traceback
    try:
        return fn(cuqi, meta, *rest)
    except Exception:
        m2 = dict(meta)
        m2["driver_exception"] = traceback.format_exc()[-1500:]
        return Case(expr="false", meta=m2, cell="driver-exception/%s" % meta.get("op", "?"), kind="DECISION")


def run(ctx):
    import cuqi
    rng = ctx.rng
    bad_noise, bad_prior, o1, o2 = probe_fixed(cuqi)
    if bool(bad_noise) != bool(bad_prior) and not isinstance(o2, str):
        ctx.note("vector-covariance repair applied to one of the two covariances only (noise wrong=%s, prior wrong=%s)" % (bool(bad_noise), bool(bad_prior)))
    fixed = not bad_noise
    ctx.note("state of the repairable defect (1-d covariance in the closed form): fixed=%s" % fixed)
    GEOM_FIXED[0] = probe_geom_fixed(cuqi)
    ctx.note("state of fixes/C07_get_matrix_parameter_map.diff (get_matrix of a matrix model with a non-identity geometry): applied=%s" % GEOM_FIXED[0])
    cases = []
    cells = lattice_map(ctx)
    reps = ctx.n(1, 6)
    skipped = 0
    for c in cells:
        if not fixed and c["ke"] == "vector" and c["m"] > c["n"] + 1 and c["kx"] != "vector" and c["pe"] == "cov":
            # unrepaired code: the row-broadcast system A Cx A^T + 1 v^T has rank <= n + 1 < m, exactly singular; numpy
            # raises LinAlgError or returns rounding garbage -- not describable over Q.  The class stays covered by the
            # finding's witness; with the repair applied these cells are generated like all others.
            skipped += 1
            continue
        for _ in range(reps):
            meta = instantiate(rng, c, "map")
            cases.append(safe(case_map, cuqi, meta, fixed, cell_name(c, "map")))
    if skipped:
        ctx.note("%d closed-form cells (vector noise covariance, m > n+1) left to the witness in the unrepaired state" % skipped)
    # direct sampling: a sub-lattice (each case runs n+2 draws)
    scells = [c for c in cells if not c.get("single") and (c["m"], c["n"]) in [(2, 3), (3, 3), (3, 2), (2, 1), (1, 1)]]
    if not ctx.thorough:
        scells = scells[::3]
    for c in scells:
        meta = instantiate(rng, c, "sample")
        meta["z"] = [dy(rng, -2, 2, 4) for _ in range(c["n"])]
        cases.append(safe(case_sample, cuqi, meta, fixed, cell_name(c, "sample")))
    # optional arguments of the direct sampling route (Nb is documented as unused there; experimental must not change it) and UQ
    base = dict(pe="cov", px="cov", model="dense", geom="default", mean="vec")
    for i, sargs in enumerate([{"Nb": 0}, {"Nb": 2}, {"experimental": True}, {"Nb": 1, "experimental": True},
                               {"entry": "UQ"}, {"entry": "UQ", "Nb": 1, "percent": 90}, {"entry": "UQ", "experimental": True, "exact": "zeros"},
                               {"entry": "UQ", "defaults": True}]):
        for (ke, kx, m, n) in [("matrix", "matrix", 2, 3), ("vector", "scalar", 3, 2)]:
            c = dict(base, m=m, n=n, ke=ke, kx=kx)
            meta = instantiate(rng, c, "sample")
            meta["z"] = [dy(rng, -2, 2, 4) for _ in range(n)]
            meta["sargs"] = dict(sargs)
            if meta["sargs"].get("exact") == "zeros":
                meta["sargs"]["exact"] = [0.0] * n
            cases.append(safe(case_sample, cuqi, meta, fixed, cell_name(c, "sample") + "/args:" + ",".join(sorted(sargs))))
    for meta in gen_route_metas(ctx):
        cases.append(safe(case_route, cuqi, meta))
    for meta in gen_cascade_metas(ctx):
        cases.append(safe(case_cascade, cuqi, meta))
    for meta in gen_handover_metas(ctx):
        cases.append(safe(case_handover, cuqi, meta))
    for meta in gen_setup_metas(ctx):
        cases.append(safe(case_setup, cuqi, meta))
    for meta in gen_opt_metas(ctx):
        cases.append(safe(case_opt, cuqi, meta))
    for meta in gen_ccov_metas(ctx):
        cases.append(safe(case_ccov, cuqi, meta))
    for meta in gen_sprec_metas(ctx):
        cases.append(safe(case_sprec, cuqi, meta))
    for gen, fn in ((gen_life_metas, case_life), (gen_composite_metas, case_composite), (gen_sprior_metas, case_sprior), (gen_sample1_metas, case_sample1)):
        for meta in gen(ctx):
            cases.append(safe(fn, cuqi, meta))
    for meta in gen_opt_struct_metas(ctx):
        cases.append(safe(case_opt, cuqi, meta))
    for meta in gen_ml_metas(ctx):
        cases.append(safe(case_ml, cuqi, meta))
    for meta in gen_optng_metas(ctx):
        cases.append(safe(case_optng, cuqi, meta))
    for meta in gen_optns_metas(ctx):
        cases.append(safe(case_optng, cuqi, meta))
    POLISH[0] = probe_polish(cuqi)
    ctx.note("state of fixes/C15_nonsmooth_polish.diff (derivative-free polish after a failed finite-difference run): applied=%s" % POLISH[0])
    for meta in gen_disp_metas(ctx):
        cases.append(safe(case_disp, cuqi, meta))
    for meta in gen_select_metas(ctx):
        cases.append(safe(case_select, cuqi, meta))
    return Result(cases=cases, rule=RULE, extra={"repair_state_fixed": fixed},
                  assumptions=["numpy.linalg.solve / inv are modelled by an exact Gauss-Jordan over Qc whose result is checked (M z = b, M X = X M = I) before use; "
                               "observed floats are compared with the exact value to 1e-8 relative (condition numbers of the generated systems < 2e3)",
                               "numpy.linalg.cholesky is not modelled: the factor read off from scripted draws is checked (lower triangular, positive diagonal, L L^T = exact posterior covariance)",
                               "scipy.optimize is not modelled: on linear-Gaussian problems its result is compared with the exact maximiser to 1e-4, on other log-concave problems only the oracle (neighbourhood of logd, gradient norm) judges it",
                               "geometries: identity-like ones and StepExpansion under a function-form model; matrix models with a non-identity geometry are C07's finding LinearModel.get_matrix|stored-matrix+nonidentity-geometry and are not generated"])


def oracle(ctx, meta):
    import cuqi
    bad_noise, _, _, _ = probe_fixed(cuqi)
    GEOM_FIXED[0] = probe_geom_fixed(cuqi)
    POLISH[0] = probe_polish(cuqi)
    c = dispatch(cuqi, meta, not bad_noise)
    return c.impl_fail


def classify(meta, detail):
    op = meta.get("op")
    if op == "map":
        A = meta["A"]
        if meta.get("geom") in NONID:
            return SIG_NONLIN if meta.get("geom") == "mapped_sq" else SIG_GEOM
        return classify_map(meta, len(A), len(A[0]))
    if op == "sample" and meta.get("geom") in NONID:
        return SIG_NONLIN if meta.get("geom") == "mapped_sq" else SIG_GEOM
    return {"sample": SIG_SAMPLE, "route": SIG_ROUTE, "cascade": SIG_ROUTE, "handover": SIG_ROUTE, "setup": SIG_SETUP, "opt": SIG_OPT, "optng": SIG_OPT, "optns": SIG_NONSMOOTH, "ml": SIG_ML, "ccov": SIG_CCOV, "sprec": SIG_CCOV, "sprior": SIG_SPRIOR, "sample1": SIG_SAMPLE, "life": SIG_OTHER, "composite": SIG_OTHER, "disp": SIG_DISP, "select": SIG_SELECT}.get(op, "C15")


def search(ctx):
    """wider search with the oracle only: fresh instances of every closed-form cell"""
    import cuqi
    bad_noise, _, _, _ = probe_fixed(cuqi)
    found = []
    for c in lattice_map(ctx):
        for _ in range(3):
            meta = instantiate(ctx.rng, c, "map")
            k = case_map(cuqi, meta, not bad_noise, cell_name(c, "map"))
            if k.impl_fail:
                found.append(k)
                break
    return found


def replay(ctx, meta):
    import cuqi
    print(json.dumps(meta, indent=1, default=str)[:6000])
    m = meta.get("meta", meta)
    if "witness" in m:
        m = {SIG_NOISE: WITNESS_NOISE, SIG_PRIOR: WITNESS_PRIOR, SIG_GEOM: WITNESS_GEOM, SIG_NONLIN: WITNESS_NONLIN, SIG_SPRIOR: WITNESS_SPRIOR}.get(m["witness"], WITNESS_NONSMOOTH)
    bad_noise, _, _, _ = probe_fixed(cuqi)
    fixed = not bad_noise
    GEOM_FIXED[0] = probe_geom_fixed(cuqi)
    POLISH[0] = probe_polish(cuqi)
    c = dispatch(cuqi, m, fixed)
    print("repair state: fixed=%s" % fixed)
    if m.get("op") == "map":
        obs, A_eff, mm, nn, computed, extras, BP = run_map(cuqi, m)
        print("implementation MAP():", obs, extras.get("exc", ""))
        try:
            A_true = computed.get("A_true", A_eff)
            mean, C, H = posterior_exact([[F(v) for v in row] for row in A_true.tolist()], [F(v) for v in m["b"]], full_x0(m, nn),
                                         intended_cov(m["ce"], mm), intended_cov(m["cx"], nn))
            print("posterior mean (exact) :", [float(v) for v in mean])
        except Exception as e:
            print("posterior mean not computable:", e)
    print("oracle verdict        :", c.impl_fail or "property holds on this case")
    rc, out = eval_in_coq(IMPORTS, c.expr, tag="replay_C15")
    print("model agrees with the implementation (Coq):", out[-200:])
    return 0
